#!/bin/bash
# usage: seeded_eval.sh <worktree> <seed-id> <prop> [<prop>...]
# Confirms the demonstration (fails with the change, passes on /repo), stores the change under /verif/seeded/<seed-id>/
# and runs the given checks against the changed tree through VERIF_REPO (nothing is applied to /repo itself).
set -u
WT=$1; ID=$2; shift 2
D=/verif/seeded/$ID; mkdir -p $D
cp $WT/MUTATION/patch.diff $WT/MUTATION/demo.py $D/ 2>/dev/null
cp $WT/MUTATION/notes.md $D/notes.md 2>/dev/null
[ -f $WT/pymablock/_version.py ] || cp /repo/pymablock/_version.py $WT/pymablock/_version.py
( cd $WT && PYTHONPATH=$WT PYTHONHASHSEED=0 timeout 900 /venv/bin/python $D/demo.py > $D/demo_changed.log 2>&1; echo "demo on changed tree: exit $?" )
( cd /repo && PYTHONPATH=/repo PYTHONHASHSEED=0 timeout 900 /venv/bin/python $D/demo.py > $D/demo_unchanged.log 2>&1; echo "demo on unchanged /repo: exit $?" )
for P in "$@"; do
  ( cd /verif && VERIF_REPO=$WT timeout 3000 tools/check.py $P --tier quick > $D/check_$P.log 2>&1; echo "check $P on changed tree: exit $? : $(grep -c VIOLATION $D/check_$P.log) VIOLATION line(s): $(grep VIOLATION $D/check_$P.log | head -1 | cut -c1-160)" )
done
