"""Correspondence harness for C17: pymablock.linalg.ComplementProjector versus the Coq model
(LinAlg/Heap.v object graph + LinAlg/ProjectorExec.v numeric part, instantiated at Gaussian
integers in LinAlg/ProjectorZ.v and evaluated by vm_compute).

All inputs are Gaussian integers stored in float64/complex128/int64 arrays, so every
operation of the implementation is exact; results are compared exactly (value by value,
integers) with the model inside Coq.  Object identities (`is`) of the objects visited by a
word over {.T, .H, .conjugate()} are compared with the model's address pattern.
"""
import sys
import warnings

import numpy as np

from vlib import core

sys.path.insert(0, str(core.REPO))
import scipy.sparse as sp  # noqa: E402
from scipy.sparse.linalg import aslinearoperator  # noqa: E402
from pymablock.linalg import ComplementProjector  # noqa: E402

HEADER = """From Coq Require Import ZArith List.
Import ListNotations.
From PV Require Import LinAlg.Heap LinAlg.Projector LinAlg.ProjectorZ.
"""

OPS = {"T": "OpT", "H": "OpH", "C": "OpC"}


# ---------------------------------------------------------------------------
# exact Gaussian-integer helpers


def gints(arr):
    """array -> nested lists of (re, im) Python ints, or None if some entry is not an integer."""
    a = np.asarray(arr)
    if a.dtype == object:
        return None
    re = np.real(a).astype(float)
    im = np.imag(a).astype(float)
    if not (np.all(np.isfinite(re)) and np.all(np.isfinite(im))):
        return None
    if not (np.all(re == np.round(re)) and np.all(im == np.round(im))):
        return None
    if a.ndim == 1:
        return [[(int(x), int(y))] for x, y in zip(re, im)]  # column
    return [[(int(x), int(y)) for x, y in zip(r, i)] for r, i in zip(re, im)]


def scaled_ints(v, mult, sub=None):
    """mult * v - sub as nested lists of Python int pairs (exact, via Fractions), or None if some entry is
    not an integer (i.e. the implementation's result is not the exact value)."""
    from fractions import Fraction as Fr
    a = np.asarray(v)
    if a.dtype == object or not np.all(np.isfinite(np.real(a))) or not np.all(np.isfinite(np.imag(a))):
        return None
    if a.ndim == 1:
        a = a.reshape(-1, 1)
        sub = None if sub is None else np.asarray(sub).reshape(-1, 1)
    rows = []
    for i in range(a.shape[0]):
        row = []
        for j in range(a.shape[1]):
            z = complex(a[i, j])
            sz = complex(sub[i, j]) if sub is not None else 0j
            re = mult * Fr(z.real) - Fr(sz.real)
            im = mult * Fr(z.imag) - Fr(sz.imag)
            if re.denominator != 1 or im.denominator != 1:
                return None
            row.append((int(re), int(im)))
        rows.append(row)
    return rows


def cmat(rows):
    if not rows:
        return "(nil : zmat)"
    return "([%s] : zmat)" % "; ".join(
        "[%s]" % "; ".join("(%d, %d)%%Z" % (a, b) for a, b in r) if r else "nil" for r in rows
    )


def cword(w):
    return "[%s]" % "; ".join(OPS[c] for c in w) if w else "(nil : list op)"


def cnats(l):
    return "[%s]" % "; ".join(str(int(x)) for x in l) if l else "(nil : list nat)"


def copt(x):
    return "None" if x is None else "(Some %s)" % x


def rand_g(rng, shape, cplx, lo=-3, hi=3, density=0.8):
    a = np.zeros(shape, dtype=complex)
    for idx in np.ndindex(*shape):
        if rng.random() < density:
            a[idx] = rng.randint(lo, hi) + (1j * rng.randint(lo, hi) if cplx else 0)
    return a


def unimodular(rng, n, cplx, steps=None, bound=4):
    """Gaussian-integer U with Gaussian-integer inverse (product of elementary operations)."""
    U = np.eye(n, dtype=complex)
    Ui = np.eye(n, dtype=complex)
    units = [1, -1, 1j, -1j] if cplx else [1, -1]
    for i in range(n):  # unit diagonal scaling
        u = rng.choice(units)
        U[i, :] *= u
        Ui[:, i] /= u
    for _ in range(steps if steps is not None else 2 * n):
        if n < 2:
            break
        i, j = rng.sample(range(n), 2)
        c = rng.choice(units) * rng.choice([1, 1, 2])
        U2 = U.copy()
        U2[i, :] += c * U[j, :]
        Ui2 = Ui.copy()
        Ui2[:, j] -= c * Ui[:, i]
        if max(np.abs(U2.real).max(), np.abs(U2.imag).max(), np.abs(Ui2.real).max(), np.abs(Ui2.imag).max()) <= bound:
            U, Ui = U2, Ui2
    p = list(range(n))
    rng.shuffle(p)
    U = U[:, p]
    Ui = Ui[p, :]
    assert np.array_equal(Ui @ U, np.eye(n))
    return U, Ui


def cast(a, dt):
    """Cast an integer-valued complex array to the requested dtype name (values kept exactly)."""
    if dt == "complex128":
        return np.array(a, dtype=np.complex128)
    assert not np.any(a.imag)
    return np.array(a.real, dtype={"float64": np.float64, "int64": np.int64}[dt])


# ---------------------------------------------------------------------------
# case generation


UNITS = [1, -1, 1j, -1j]


def gen_near_case(rng, wmax, sexp):
    """L = R + 2^-sexp X with integer X: L differs from R by about 1e-6 (sexp = 20) or 1e-9 (sexp = 30),
    far below any "numerically equal" tolerance but not equal; the projector must still use L.  R has
    unit entries so that every float operation of the implementation stays exact (<= 2*sexp fractional
    bits); the model works with the integer matrix L' = 2^sexp L (Projector.apply_scaled)."""
    n = rng.randint(2, 4)
    k = rng.randint(1, min(2, n - 1))
    cplx = rng.random() < 0.6
    units = UNITS if cplx else [1, -1]
    biorth = rng.random() < 0.5
    R = np.zeros((n, k), dtype=complex)
    if biorth:  # orthonormal columns: L^H R = 1 exactly iff X^H R = 0
        rows = rng.sample(range(n), k)
        for j, r in enumerate(rows):
            R[r, j] = rng.choice(units)
    else:
        for j in range(k):
            nz = rng.sample(range(n), rng.randint(1, n))
            for r in nz:
                R[r, j] = rng.choice(units)
    def xentry():
        return rng.randint(-2, 2) + (1j * rng.randint(-2, 2) if (cplx or rng.random() < 0.3) else 0)
    Xp = np.zeros((n, k), dtype=complex)
    for _ in range(20):
        for i in range(n):
            for j in range(k):
                on_support = R[i, j] != 0
                if biorth:
                    allowed = not np.any(R[i, :] != 0)          # rows orthogonal to all columns of R
                elif sexp == 20:
                    allowed = on_support                          # stays within 1e-5 |R_ij| of R
                else:
                    allowed = True
                Xp[i, j] = xentry() if allowed and rng.random() < 0.8 else 0
        if np.any(Xp != 0):
            break
    if not np.any(Xp != 0):  # cannot happen for k < n, kept for safety
        biorth = False
        Xp[np.nonzero(R)[0][0], 0] = 1
    L = R + Xp / 2.0 ** sexp
    if not (np.any(R.imag) or np.any(L.imag)) and rng.random() < 0.7:
        R, L = R.real.copy(), L.real.copy()
    elif not np.any(R.imag) and rng.random() < 0.5:
        R = R.real.copy()
    m = rng.randint(1, 2)
    xc = rng.random() < 0.6
    small = lambda shape: rand_g(rng, shape, xc, -2, 2)
    case = dict(n=n, k=k, kind="near%d%s" % (sexp, "_biorth" if biorth else ""), R=R, L=L, m=m, sexp=sexp, Xp=Xp,
                X=small((n, m)), x=small((n,)), X2=small((m, n)),
                A=rand_g(rng, (n, n), rng.random() < 0.5, -1, 1, density=0.7),
                word="".join(rng.choice("THC") for _ in range(rng.randint(1, wmax))),
                sparse=rng.random() < 0.5, xdt="complex128" if xc else rng.choice(["float64", "complex128"]))
    for key in ("X", "x", "X2"):
        case[key] = cast(case[key], case["xdt"])
    case["A"] = cast(case["A"], "complex128" if np.any(case["A"].imag) else rng.choice(["float64", "complex128"]))
    return case


def gen_case(rng, nmax, wmax, idx):
    kind = ["none", "same", "copy", "biorth", "generic", "biorth", "otherdtype", "near20", "near30"][idx % 9]
    if kind.startswith("near"):
        return gen_near_case(rng, wmax, int(kind[4:]))
    n = rng.randint(1, nmax)
    k = rng.randint(0 if rng.random() < 0.1 else 1, max(1, min(3, n)))
    cplx = rng.random() < 0.65
    if kind == "biorth":
        U, Ui = unimodular(rng, n, cplx)
        R = U[:, :k]
        L = Ui[:k, :].conj().T
        if np.array_equal(L, R):
            kind = "copy"
    else:
        R = rand_g(rng, (n, k), cplx)
        L = None
        if kind == "generic":
            L = rand_g(rng, (n, k), cplx or rng.random() < 0.3)
            if np.array_equal(L, R):
                kind = "copy"
    rdt = "complex128" if np.any(R.imag) else rng.choice(["float64", "float64", "int64", "complex128"])
    R = cast(R, rdt)
    if kind == "none":
        Larg = None
    elif kind == "same":
        Larg = R
    elif kind == "copy":
        Larg = R.copy()
    elif kind == "otherdtype":
        # equal values, different dtype: the Hermitian shortcut drops L's dtype
        alt = [d for d in (["complex128", "float64", "int64"] if not np.iscomplexobj(R) else ["complex128"]) if d != rdt]
        Larg = cast(np.array(R, dtype=complex), rng.choice(alt)) if alt else R.copy()
    else:
        ldt = "complex128" if np.any(L.imag) else rng.choice(["float64", "int64", "complex128"])
        Larg = cast(L, ldt)
    m = rng.randint(1, 3)
    xc = rng.random() < 0.6
    case = dict(
        n=n, k=k, kind=kind, R=R, L=Larg, m=m,
        X=rand_g(rng, (n, m), xc), x=rand_g(rng, (n,), xc), X2=rand_g(rng, (m, n), xc),
        A=rand_g(rng, (n, n), rng.random() < 0.6, density=0.6),
        word="".join(rng.choice("THC") for _ in range(rng.randint(1, wmax))),
        sparse=rng.random() < 0.5,
        xdt=rng.choice(["float64", "complex128"]) if not xc else "complex128",
    )
    for key in ("X", "x", "X2"):
        case[key] = cast(case[key], case["xdt"])
    case["A"] = cast(case["A"], "complex128" if np.any(case["A"].imag) else rng.choice(["float64", "complex128"]))
    return case


def jsonable(case):
    def enc(a):
        if a is None:
            return None
        re, im = np.real(a).astype(float), np.imag(a).astype(float)
        if np.all(re == np.round(re)) and np.all(im == np.round(im)):
            return dict(dtype=str(a.dtype), re=re.astype(int).tolist(), im=im.astype(int).tolist())
        return dict(dtype=str(a.dtype), re=re.tolist(), im=im.tolist())  # dyadic floats survive JSON exactly
    out = {k: v for k, v in case.items() if not isinstance(v, np.ndarray) and k != "L"}
    if case.get("sexp"):
        out["Xp"] = enc(case["Xp"])
    for key in ("R", "X", "x", "X2", "A"):
        out[key] = enc(case[key])
    out["L"] = enc(case["L"])
    out["L_is_R"] = case["L"] is case["R"]
    return out


def from_json(j):
    def dec(e):
        if e is None:
            return None
        a = np.array(e["re"], dtype=float) + 1j * np.array(e["im"], dtype=float)
        return cast(a.astype(complex), e["dtype"])
    case = dict(j)
    for key in ("R", "L", "X", "x", "X2", "A") + (("Xp",) if j.get("sexp") else ()):
        case[key] = dec(j[key])
    if j.get("L_is_R"):
        case["L"] = case["R"]
    return case


# ---------------------------------------------------------------------------
# one case: run the implementation, produce Coq terms "model = observed"


def walk(P, word):
    objs = [P]
    for c in word:
        P = P.T if c == "T" else (P.H if c == "H" else P.conjugate())
        objs.append(P)
    return objs


def canon_ids(objs):
    out = []
    for o in objs:
        for j, q in enumerate(objs):
            if q is o:
                out.append(j)
                break
    return out


def dtag(dt):
    return "DComplex" if np.dtype(dt).kind == "c" else "DReal"


def case_terms(case):
    """Returns list of (label, coq_term or None, impl_observation) - term None means an
    immediate disagreement (non-integer output or exception)."""
    n, k, m = case["n"], case["k"], case["m"]
    R, L = case["R"], case["L"]
    out = []
    cR = cmat(gints(R) if k else [[] for _ in range(n)])
    Leff = R if L is None else L
    S = 2 ** case["sexp"] if case.get("sexp") else None
    if S:
        gR, gX = gints(np.asarray(R, dtype=complex)), gints(case["Xp"])
        cL = cmat([[(S * a + xa, S * b + xb) for (a, b), (xa, xb) in zip(rr, xr)] for rr, xr in zip(gR, gX)])  # L' = S L
    else:
        cL = cmat(gints(Leff) if k else [[] for _ in range(n)])
    cLopt = copt(None if L is None else cL)
    X, x, X2, A = case["X"], case["x"], case["X2"], case["A"]
    cX, cx = cmat(gints(X)), cmat(gints(x))
    cX2T = cmat(gints(X2.T))

    def obs(label, fn, model, operand=None, deg=1):
        try:
            with warnings.catch_warnings():
                warnings.simplefilter("ignore")
                v = fn()
        except Exception as e:  # the model never raises on well-shaped input
            out.append((label, None, "%s: %s" % (type(e).__name__, e)))
            return None
        if isinstance(v, (bool, np.bool_)):
            out.append((label, "bool_eqb (%s) %s" % (model, "true" if v else "false"), bool(v)))
            return v
        if isinstance(v, str):
            out.append((label, "dtype_eqb (%s) %s" % (model, v), v))
            return v
        if isinstance(v, list):
            out.append((label, "nats_eqb (%s) %s" % (model, cnats(v)), v))
            return v
        if S:
            # scaled family: S * result - (S - 1) * operand (first order in 1/S), S^2 * result for P A P
            g = scaled_ints(v, S, (S - 1) * np.asarray(operand, dtype=complex)) if deg == 1 else scaled_ints(v, S * S)
        else:
            g = gints(v)
        if g is None:
            out.append((label, None, "output is not the exact value (not in the exact domain) %r" % (np.asarray(v).tolist(),)))
            return v
        out.append((label, "zeq (%s) %s" % (model, cmat(g)), np.asarray(v).tolist().__repr__()[:300]))
        return v

    P = ComplementProjector(R) if L is None else ComplementProjector(R, L)
    zap = lambda w, cols, arg: "zword_apply %d %d %d %s %s %s %s" % (n, k, cols, cR, cLopt, cword(w), arg)
    zapl = lambda w, cols, arg: "zword_apply_left %d %d %d %s %s %s %s" % (n, k, cols, cR, cLopt, cword(w), arg)
    # ---- bare projector
    obs("P@X", lambda: P @ X, zap("", m, cX), X)
    obs("P@x", lambda: P @ x, zap("", 1, cx), x)
    obs("P.matvec(x)", lambda: P.matvec(x), zap("", 1, cx), x)
    obs("P.matmat(X)", lambda: P.matmat(X), zap("", m, cX), X)
    obs("P.rmatvec(x)", lambda: P.rmatvec(x), zapl("", 1, cx), x)
    obs("P.rmatmat(X)", lambda: P.rmatmat(X), zapl("", m, cX), X)
    obs("X2@P", lambda: X2 @ P, "ztr %d %d (%s)" % (n, m, zap("T", m, cX2T)), X2)
    obs("x@P", lambda: x @ P, zap("T", 1, cx), x)
    obs("P.H@X", lambda: P.H @ X, zap("H", m, cX), X)
    obs("P.T@X", lambda: P.T @ X, zap("T", m, cX), X)
    obs("P.dot(X)", lambda: P.dot(X), zap("", m, cX), X)
    obs("P.shape", lambda: [int(s) for s in P.shape], "[%d; %d]" % (n, n))
    hm = "zword_herm %s %s %s" % (cR, cLopt, cword(""))
    obs("P._hermitian", lambda: bool(P._hermitian), hm)
    obs("P.dtype", lambda: dtag(P.dtype), "proj_dtype %s %s (%s)" % (dtag(R.dtype), dtag(Leff.dtype), hm))
    # ---- a fresh projector walked along a word
    w = case["word"]
    P2 = ComplementProjector(R) if L is None else ComplementProjector(R, L)
    holder = {}

    def do_walk():
        holder["objs"] = walk(P2, w)
        return canon_ids(holder["objs"])

    obs("identity pattern along " + w, do_walk, "canon (ztrace %s %s %s)" % (cR, cLopt, cword(w)))
    if "objs" in holder:
        Q = holder["objs"][-1]
        obs("word@X", lambda: Q @ X, zap(w, m, cX), X)
        obs("word.rmatmat(X)", lambda: Q.rmatmat(X), zapl(w, m, cX), X)
        obs("X2@word", lambda: X2 @ Q, "ztr %d %d (%s)" % (n, m, zap(w + "T", m, cX2T)), X2)
        obs("word._hermitian", lambda: bool(Q._hermitian), "zword_herm %s %s %s" % (cR, cLopt, cword(w)))
        obs("word.shape", lambda: [int(s) for s in Q.shape], "[%d; %d]" % (n, n))
        obs("word.dtype", lambda: dtag(Q.dtype), "proj_dtype %s %s (%s)" % (dtag(R.dtype), dtag(Leff.dtype), hm))
        # involutions on the object reached
        obs("word.H.H is word", lambda: Q.H.H is Q, "true")
        obs("word.C.C is word", lambda: Q.conjugate().conjugate() is Q, "true")
        for j, mid in enumerate(holder["objs"][:-1]):
            if j < 3:
                obs("obj%d@x" % j, lambda mid=mid: mid @ x, zap(w[:j], 1, cx), x)
    # ---- composites
    cA = cmat(gints(A))
    Aop = aslinearoperator(sp.csr_array(A) if case["sparse"] else A)
    P3 = ComplementProjector(R) if L is None else ComplementProjector(R, L)
    try:
        PAP = P3 @ Aop @ P3
    except Exception as e:
        out.append(("P@A@P", None, "%s: %s" % (type(e).__name__, e)))
        return out
    if S and case["sexp"] > 20:
        return out  # second order in 2^-30 is not representable in binary64: composites are left to the dense oracle
    if S:
        pap = "zPAPs (%d)%%Z %d %d %s %s %s" % (S, n, k, cR, cL, cA)
        papH = "zPAPs_H (%d)%%Z %d %d %s %s %s" % (S, n, k, cR, cL, cA)
    else:
        pap = "zPAP %d %d %s %s %s" % (n, k, cR, cL, cA)
        papH = "zPAP_H %d %d %s %s %s" % (n, k, cR, cL, cA)
    obs("PAP@X", lambda: PAP @ X, "zmatmat (%s) %d %s" % (pap, m, cX), deg=2)
    obs("PAP@x", lambda: PAP @ x, "zmatmat (%s) 1 %s" % (pap, cx), deg=2)
    obs("PAP.rmatmat(X)", lambda: PAP.rmatmat(X), "zrmatmat (%s) %d %s" % (pap, m, cX), deg=2)
    obs("PAP.H@X", lambda: PAP.H @ X, "zmatmat (%s) %d %s" % (papH, m, cX), deg=2)
    obs("PAP.T@X", lambda: PAP.T @ X, "zmatmat (zop_tr (%s)) %d %s" % (pap, m, cX), deg=2)
    obs("X2@PAP", lambda: X2 @ PAP, "zrdot %d (zop_tr (%s)) %d %s" % (n, pap, m, cmat(gints(X2))), deg=2)
    obs("x@PAP", lambda: x @ PAP, "zmatmat (zop_tr (%s)) 1 %s" % (pap, cx), deg=2)
    return out


def features(case):
    return (case["kind"], case["n"], case["k"], np.iscomplexobj(case["R"]), len(case["word"]), case["sparse"])


def tie_projector(ctx, ncases=None):
    rng = ctx.rng
    ncases = ncases or ctx.n(70, 1500)
    nmax, wmax = ctx.n(6, 10), ctx.n(6, 12)
    cases, terms, owners, immediate = [], [], [], []
    for i in range(ncases):
        c = gen_case(rng, nmax, wmax, i)
        if i == 0:  # the identity-hijack witness of Props/C17.v, replayed on the implementation
            c = gen_case(rng, 3, 3, 4)
            c.update(n=3, k=1, kind="generic", m=1,
                     R=np.array([[1], [2j], [0]], dtype=complex), L=np.array([[1], [0], [1j]], dtype=complex),
                     word="CHTTHCTCHTT")
            xr = rand_g(rng, (3,), True)
            c.update(X=xr.reshape(3, 1), x=xr, X2=xr.reshape(1, 3), A=rand_g(rng, (3, 3), True))
        cases.append(c)
        for label, term, ob in case_terms(c):
            if term is None:
                immediate.append(dict(what="implementation failed or left the exact domain: " + label, input=jsonable(c), model="exact Gaussian-integer result", impl=str(ob)[:400]))
            else:
                terms.append(term)
                owners.append((i, label, ob))
    bad = core.coq_eval_cases("k_projector", HEADER, terms, shard=ctx.n(250, 400), jobs=ctx.n(8, 16)) if terms else []
    dis = list(immediate)
    for b in bad:
        i, label, ob = owners[b]
        dis.append(dict(what="model and implementation differ on " + label, input=jsonable(cases[i]), model=terms[b][:600], impl=str(ob)[:400]))
    dist = {}
    for c in cases:
        dist[c["kind"]] = dist.get(c["kind"], 0) + 1
    nontriv = len({features(c) for c in cases if c["k"] > 0 and c["n"] > 1})
    return dict(
        cases=len(cases),
        checks=len(terms),
        nontrivial=nontriv,
        rule="distinct (kind, n, k, complex?, word length, sparse?) with k > 0 and n > 1; every case yields ~35 exact comparisons evaluated in Coq",
        samples=[jsonable(c) for c in cases[1:3]],
        distribution=dict(kinds=dist, complex=sum(bool(np.iscomplexobj(c["R"])) for c in cases), nmax=nmax, wordmax=wmax, coq_terms=len(terms)),
        disagreements=dis[:20],
    )
