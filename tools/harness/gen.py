"""Generators of exact block-diagonalization problems (JSON-able case dicts).

case = dict(
  sub      : list[int]         subspace index of every basis state (blocks 0..nb-1, every block non-empty)
  nparam   : int
  N        : int               maximal total order to look at
  H        : {"n1,n2,..": enc(matrix)}  full matrices (original basis), Gaussian rationals as ["p/q","r/s"]
  hermitian: bool
  fully    : None | [block,...] | {"block": 0/1 mask rows (True = eliminate)}
  fmt      : "sympy" | "dense" | "sparse"
)
H[0..0] is diagonal (energies), block diagonal by construction.
"""

from fractions import Fraction as Fr
from . import gq
from .gq import G


def key(n):
    return ",".join(str(x) for x in n)


def unkey(s):
    return tuple(int(x) for x in s.split(",")) if s else ()


def rand_entry(rng, cplx, dyadic):
    if dyadic:
        den = rng.choice([1, 1, 2, 4])
        f = lambda: Fr(rng.randint(-4, 4), den)
    else:
        f = lambda: Fr(rng.randint(-3, 3), rng.randint(1, 3))
    return G(f(), f() if cplx else 0)


def rand_matrix(rng, n, herm=True, cplx=True, dyadic=False, density=1.0):
    M = gq.zeros(n)
    for i in range(n):
        for j in range(n):
            if herm and j < i:
                continue
            if rng.random() > density:
                continue
            e = rand_entry(rng, cplx and not (herm and i == j), dyadic)
            M[i][j] = e
            if herm:
                M[j][i] = e.conj()
    return M


def rand_sub(rng, nb, max_size):
    sizes = [rng.randint(1, max_size) for _ in range(nb)]
    sub = [b for b, s in enumerate(sizes) for _ in range(s)]
    if rng.random() < 0.5:
        rng.shuffle(sub)
    return sub


def rand_energies(rng, sub, exactfloat=False, degenerate_inside=True, cplx_energies=False):
    """Energies: distinct across blocks; possibly degenerate inside a block."""
    nb = max(sub) + 1
    # assign every block a disjoint pool of levels
    allv = [0, 1, 2] if exactfloat else list(range(-6, 7))
    if exactfloat and nb > 3:
        raise ValueError("exact-float family supports at most 3 blocks")
    rng.shuffle(allv)
    pools = {b: [] for b in range(nb)}
    for k, v in enumerate(allv[: 3 * nb]):
        pools[k % nb].append(v)
    while True:
        E = []
        for s in sub:
            v = rng.choice(pools[s]) if degenerate_inside else pools[s][0]
            E.append(G(Fr(v), Fr(rng.randint(-2, 2)) if cplx_energies else 0))
        # the library rejects an unperturbed Hamiltonian whose diagonal blocks all vanish
        if any(not e.is_zero() for e in E):
            break
    if cplx_energies:
        # keep blocks disjoint: real parts already disjoint across blocks
        pass
    return E


def diag_matrix(E):
    n = len(E)
    M = gq.zeros(n)
    for i, e in enumerate(E):
        M[i][i] = e
    return M


def rand_mask(rng, E_block, symmetric=True):
    """random elimination mask inside one block: True only where energies differ."""
    n = len(E_block)
    M = [[0] * n for _ in range(n)]
    for i in range(n):
        for j in range(n):
            if i == j or (symmetric and j < i):
                continue
            if E_block[i] == E_block[j]:
                continue
            if rng.random() < 0.6:
                M[i][j] = 1
                if symmetric:
                    M[j][i] = 1
    return M


def offset_case(rng, *, hermitian=True, fmt=None, max_params=2, N=3, mode=None, off=None):
    """One block whose levels have a large common offset and unit spacings (all float operations stay
    exact: differences are +-1, +-2). Exercises tolerance handling that is absolute in the library:
    a relative tolerance would treat these levels as degenerate."""
    fmt = fmt or rng.choice(["dense", "sparse", "dense", "sympy"])
    n = rng.randint(2, 4)
    # 99999.5: unit gaps straddle 1e5, the window where a relative closeness test with rtol = 1e-5 taken from ONE of the
    # two levels (numpy.isclose) is not symmetric
    off = rng.choice([2 ** 20, 2 ** 24, 2 ** 30, Fr(199999, 2)]) if off is None else off
    levels = [rng.choice([0, 1, 2]) for _ in range(n)]
    if len(set(levels)) == 1:
        levels[0] = (levels[0] + 1) % 3
    E = [G(Fr(off + v)) for v in levels]
    nparam = rng.randint(1, max_params)
    sub = [0] * n
    mode = rng.random() if mode is None else mode
    if mode < 0.4:
        fully = None
    elif mode < 0.7:
        fully = [0]
    else:
        fully = {"0": rand_mask(rng, E, symmetric=hermitian)}
    H = {key((0,) * nparam): gq.enc(diag_matrix(E))}
    cplx = rng.random() < 0.5
    for o in [o for o in gq.orders_upto(nparam, 2) if sum(o) >= 1]:
        if sum(o) == 1 or rng.random() < 0.25:
            H[key(o)] = gq.enc(rand_matrix(rng, n, herm=hermitian, cplx=cplx, dyadic=(fmt != "sympy"), density=1.0))
    return dict(sub=sub, nparam=nparam, N=N, H=H, hermitian=hermitian, fully=fully, fmt=fmt)


def degenerate_case(rng, *, hermitian=True, fmt="dense", pattern=(1, 0, 0), max_params=2, N=3, extra_block=False, default_full=False):
    """A fully diagonalised block (tuple form, or the single-block default) whose UNSORTED diagonal has a degenerate
    level: pattern (1,0,0) -> sort permutation is a 3-cycle, (0,1,0) / (1,0,1,0) -> degenerate members not adjacent."""
    lv = list(pattern)
    sub = [0] * len(lv)
    if extra_block and not default_full:
        rest = sorted({0, 1, 2} - set(lv))
        if rest:
            sub += [1] * rng.randint(1, 2)
            lv += [rest[0]] * (len(sub) - len(lv))
    E = [G(Fr(v)) for v in lv]
    nparam = rng.randint(1, max_params)
    H = {key((0,) * nparam): gq.enc(diag_matrix(E))}
    cplx = rng.random() < 0.5
    n = len(sub)
    for o in [o for o in gq.orders_upto(nparam, 2) if sum(o) >= 1]:
        if sum(o) == 1 or rng.random() < 0.25:
            H[key(o)] = gq.enc(rand_matrix(rng, n, herm=hermitian, cplx=cplx, dyadic=(fmt != "sympy"), density=1.0))
    return dict(sub=sub, nparam=nparam, N=N, H=H, hermitian=hermitian, fully=(None if default_full else [0]), fmt=fmt)


NSPECIAL = 22


def special_case(rng, k, *, hermitian=True, N=3, max_params=2):
    """The k-th of NSPECIAL structured families that every run must contain (each one was needed to expose a
    seeded change; random_case reaches them only with moderate probability)."""
    k = k % NSPECIAL
    if k == 0:
        return offset_case(rng, hermitian=hermitian, fmt="dense", max_params=max_params, N=N, mode=0.5)    # tuple
    if k == 1:
        return offset_case(rng, hermitian=hermitian, fmt="dense", max_params=max_params, N=N, mode=0.1)    # default
    if k == 2:
        return offset_case(rng, hermitian=hermitian, fmt="sparse", max_params=max_params, N=N, mode=0.9)   # mask
    if k == 3:
        return mask_case(rng, hermitian=hermitian, max_params=max_params, N=N)
    if k == 4:
        return degenerate_case(rng, hermitian=hermitian, fmt="dense", pattern=(2, 0, 0, 1), max_params=max_params, N=N, default_full=True)
    if k == 5:
        return degenerate_case(rng, hermitian=hermitian, fmt="sparse", pattern=(1, 0, 0), max_params=max_params, N=N, extra_block=True)
    if k == 6:
        return degenerate_case(rng, hermitian=hermitian, fmt="dense", pattern=(0, 1, 0), max_params=max_params, N=N, extra_block=True)
    if k == 7:
        return degenerate_case(rng, hermitian=hermitian, fmt="sympy", pattern=(1, 0, 1, 0), max_params=1, N=N, default_full=True)
    if k == 20:
        return two_full_blocks_case(rng, hermitian=hermitian, fmt="sympy", max_params=max_params, N=N)
    if k == 21:
        return two_full_blocks_case(rng, hermitian=hermitian, fmt="dense", max_params=max_params, N=N)
    if k == 18:
        return mask_degenerate_case(rng, hermitian=hermitian, fmt="sympy", max_params=max_params, N=N)
    if k == 19:
        return mask_degenerate_case(rng, hermitian=hermitian, fmt="dense", max_params=max_params, N=N)
    if k == 16:
        return scaled_case(rng, hermitian=hermitian, N=N, max_params=max_params, power=-30)
    if k == 17:
        return scaled_case(rng, hermitian=hermitian, N=N, max_params=max_params, power=-27)
    if k == 12:
        return coupled_late_case(rng, hermitian=hermitian, fmt="dense", N=max(N, 4))
    if k == 13:
        return coupled_late_case(rng, hermitian=hermitian, N=max(N, 4), expr=True)
    if k in (14, 15):
        # sympy Matrix presentation (Taylor path) with two parameters and higher-order (mixed) terms
        for _ in range(50):
            c = random_case(rng, hermitian=hermitian, fmt="sympy", max_blocks=3, max_size=2, max_params=2, min_params=2, N=N,
                            offset_prob=0.0, allow_mask=(k == 15))
            if any(sum(unkey(o)) >= 2 and min(unkey(o)) >= 1 for o in c["H"]):
                c["present"] = "expr"
                return c
        c["present"] = "expr"
        return c
    if k == 10:
        return offset_case(rng, hermitian=hermitian, fmt="dense", max_params=max_params, N=N, mode=0.5, off=Fr(199999, 2))
    if k == 11:
        return offset_case(rng, hermitian=hermitian, fmt="sparse", max_params=max_params, N=N, mode=0.1, off=Fr(199999, 2))
    if k == 8:
        return degenerate_case(rng, hermitian=hermitian, fmt="sparse", pattern=(0, 2, 0), max_params=max_params, N=N, default_full=True)
    return degenerate_case(rng, hermitian=hermitian, fmt="dense", pattern=(2, 1, 1), max_params=max_params, N=N, extra_block=True)


def mask_case(rng, *, hermitian=True, max_params=2, N=3):
    """Selective mask on a NON-leading block of three distinct levels, eliminating a single pair (the kept
    pattern is then not transitive: commuting_blocks must be False for exactly that block); exact (sympy)."""
    nb = rng.randint(2, 3)
    bstar = rng.randint(1, nb - 1)
    sizes = [rng.randint(1, 2) for _ in range(nb)]
    sizes[bstar] = 3
    sub = [b for b, sz in enumerate(sizes) for _ in range(sz)]
    E = []
    for b, sz in enumerate(sizes):
        base = 20 * b
        lv = [base + 3 * t for t in range(sz)] if b == bstar else [base + rng.choice([0, 0, 5]) for _ in range(sz)]
        E += [G(Fr(v)) for v in lv]
    m = [[0] * 3 for _ in range(3)]
    x, y = rng.choice([(0, 1), (0, 2), (1, 2)])
    m[x][y] = 1
    if hermitian or rng.random() < 0.5:
        m[y][x] = 1
    fully = {str(bstar): m}
    if rng.random() < 0.3 and bstar != nb - 1:
        fully[str(nb - 1)] = [[0] * sizes[nb - 1] for _ in range(sizes[nb - 1])]
    nparam = rng.randint(1, max_params)
    H = {key((0,) * nparam): gq.enc(diag_matrix(E))}
    n = len(sub)
    for o in [o for o in gq.orders_upto(nparam, 2) if sum(o) >= 1]:
        if sum(o) == 1 or rng.random() < 0.25:
            H[key(o)] = gq.enc(rand_matrix(rng, n, herm=hermitian, cplx=rng.random() < 0.6, dyadic=False, density=1.0))
    return dict(sub=sub, nparam=nparam, N=N, H=H, hermitian=hermitian, fully=fully, fmt="sympy")


def random_case(rng, *, hermitian=True, fmt=None, max_blocks=3, max_size=3, max_params=2, N=3,
                allow_fully=True, allow_mask=True, cplx=None, offset_prob=0.12, min_params=1):
    if rng.random() < offset_prob:
        return offset_case(rng, hermitian=hermitian, fmt=fmt, max_params=max_params, N=N)
    if fmt in (None, "sympy") and allow_mask and max_blocks >= 2 and max_size >= 3 and rng.random() < offset_prob:
        return mask_case(rng, hermitian=hermitian, max_params=max_params, N=N)
    fmt = fmt or rng.choice(["sympy", "sympy", "dense", "sparse"])
    exactfloat = fmt != "sympy"
    nb = rng.randint(1, min(max_blocks, 3) if exactfloat else max_blocks)
    sub = rand_sub(rng, nb, max_size)
    if len(sub) == 1 and nb == 1:
        sub = [0, 0]
    if nb >= 2 and max_size >= 3 and rng.random() < 0.4:
        # a non-leading block with three levels (needed for non-transitive kept patterns inside a masked block)
        bstar = rng.randint(1, nb - 1)
        sizes = [sum(1 for x in sub if x == b) for b in range(nb)]
        sizes[bstar] = 3
        sub = [b for b, sz in enumerate(sizes) for _ in range(sz)]
        if rng.random() < 0.5:
            rng.shuffle(sub)
    nparam = rng.randint(min(min_params, max_params), max_params)
    cplx = rng.random() < 0.6 if cplx is None else cplx
    fully = None
    mode = rng.random()
    # in non-Hermitian mode a third of the inputs are Hermitian (the two modes must then coincide)
    herm_mats = hermitian or rng.random() < 0.3
    # energies: degenerate inside blocks only if that block is not fully diagonalized / masked appropriately
    E = rand_energies(rng, sub, exactfloat=exactfloat, degenerate_inside=True,
                      cplx_energies=(not herm_mats and not exactfloat and rng.random() < 0.3))
    blocks = sorted(set(sub))
    if nb == 1 or (allow_fully and mode < 0.35):
        # full diagonalization of some blocks (tuple form)
        if nb == 1:
            fully = [0] if rng.random() < 0.5 else None  # None => library default (0,)
        else:
            k = rng.randint(1, nb)
            pool = blocks[1:] if (nb >= 2 and rng.random() < 0.5) else blocks  # often NOT a prefix 0..k-1
            fully = sorted(rng.sample(pool, min(k, len(pool))))
        # make the fully diagonalised blocks non-trivial where the level pool allows it: distinct energies
        if fully and not exactfloat:
            for b in fully:
                idx = [i for i in range(len(sub)) if sub[i] == b]
                vals = sorted({int(E[i].re) for i in range(len(sub)) if sub[i] == b})
                lo = min(vals)
                cand = [lo + 13 * t for t in range(len(idx))]  # distinct, far from the other blocks' pools (|v| <= 6)
                if len(idx) >= 2 and rng.random() < 0.7:
                    for i, v in zip(idx, cand):
                        E[i] = G(Fr(v + 100 * (b + 1)), E[i].im)
        if exactfloat:
            # unsorted diagonal with a degenerate level: (hi, lo, lo) - the sort permutation is a 3-cycle
            for b in (fully if fully else [0]):
                idx = [i for i in range(len(sub)) if sub[i] == b]
                vals = sorted({E[i].re for i in idx})
                if len(idx) >= 3 and len(vals) >= 2 and rng.random() < 0.6:
                    E[idx[0]], E[idx[1]], E[idx[2]] = G(vals[-1], E[idx[0]].im), G(vals[0], E[idx[1]].im), G(vals[0], E[idx[2]].im)
    elif allow_mask and mode < 0.6:
        fully = {}
        pool = blocks[1:] if (nb >= 2 and rng.random() < 0.5) else blocks   # often NOT the leading blocks
        for b in rng.sample(pool, rng.randint(1, len(pool))):
            idx = [i for i in range(len(sub)) if sub[i] == b]
            if not exactfloat and len(idx) >= 2 and rng.random() < 0.7:
                # distinct levels inside the masked block, far from the other blocks' pools
                lo = min(int(E[i].re) for i in idx)
                for t, i in enumerate(idx):
                    E[i] = G(Fr(lo + 13 * t + 100 * (b + 1)), E[i].im)
            Eb = [E[i] for i in idx]
            m = rand_mask(rng, Eb, symmetric=herm_mats)
            if len(idx) >= 3 and rng.random() < 0.5:
                # eliminate exactly one pair: the kept pattern is then not transitive
                m = [[0] * len(idx) for _ in idx]
                cand = [(x, y) for x in range(len(idx)) for y in range(x + 1, len(idx)) if Eb[x] != Eb[y]]
                if cand:
                    x, y = rng.choice(cand)
                    m[x][y] = 1
                    if herm_mats or rng.random() < 0.5:
                        m[y][x] = 1
            fully[str(b)] = m
    H = {key((0,) * nparam): gq.enc(diag_matrix(E))}
    n = len(sub)
    orders = [o for o in gq.orders_upto(nparam, 2) if sum(o) >= 1]
    # always include each first-order perturbation, sometimes higher-order terms
    for o in orders:
        if sum(o) == 1 or rng.random() < 0.25:
            H[key(o)] = gq.enc(rand_matrix(rng, n, herm=herm_mats, cplx=cplx, dyadic=exactfloat,
                                           density=rng.choice([1.0, 0.7, 0.4])))
    case = dict(sub=sub, nparam=nparam, N=N, H=H, hermitian=hermitian, fully=fully, fmt=fmt)
    if fmt == "sympy" and rng.random() < 0.3:
        case["present"] = "expr"   # given as ONE sympy Matrix in the perturbative symbols (Taylor path), see implrun.run
    return case


def scaled_case(rng, *, hermitian=True, N=3, max_params=2, power=-30):
    """An exact-float (dense or sparse) problem whose whole Hamiltonian is multiplied by 2**power: every entry is far
    above the library's default atol = 1e-12 but below numpy's default absolute tolerance 1e-8 (exact arithmetic: the
    factor is a power of two)."""
    c = None
    for _ in range(50):
        c = random_case(rng, hermitian=hermitian, fmt=rng.choice(["dense", "sparse"]), max_blocks=3, max_size=2,
                        max_params=max_params, N=N, offset_prob=0.0, allow_mask=True)
        if len(c["sub"]) >= 2:
            break
    f = Fr(2) ** power
    c["H"] = {k: gq.enc([[x * G(f) for x in row] for row in gq.dec(M)]) for k, M in c["H"].items()}
    return c


def mask_degenerate_case(rng, *, hermitian=True, fmt="sympy", max_params=2, N=3):
    """A masked block with a degenerate level (a, a, b) whose two degenerate partners are treated DIFFERENTLY by the
    mask: only the pair (0, 2) is eliminated, (1, 2) is kept (the mask must not be extended to whole eigenspaces)."""
    exactfloat = fmt != "sympy"
    extra = rng.random() < 0.5
    sub = [0, 0, 0] + ([1] if extra else [])
    lv = [0, 0, 1] + ([2] if extra else [])
    perm = list(range(3))
    rng.shuffle(perm)                      # position of the three states of block 0 among themselves
    E = [None] * len(sub)
    for a_, p_ in enumerate(perm):
        E[p_] = G(Fr(lv[a_]))
    if extra:
        E[3] = G(Fr(2))
    m = [[0] * 3 for _ in range(3)]
    x, y = perm[0], perm[2]
    m[x][y] = 1
    if hermitian or rng.random() < 0.5:
        m[y][x] = 1
    nparam = rng.randint(1, max_params)
    H = {key((0,) * nparam): gq.enc(diag_matrix(E))}
    cplx = rng.random() < 0.5
    n = len(sub)
    for o in [o for o in gq.orders_upto(nparam, 2) if sum(o) >= 1]:
        if sum(o) == 1 or rng.random() < 0.25:
            H[key(o)] = gq.enc(rand_matrix(rng, n, herm=hermitian, cplx=cplx, dyadic=exactfloat, density=1.0))
    return dict(sub=sub, nparam=nparam, N=N, H=H, hermitian=hermitian, fully={"0": m}, fmt=fmt)


def two_full_blocks_case(rng, *, hermitian=True, fmt="sympy", max_params=2, N=3):
    """Two fully diagonalised blocks of EQUAL size with DIFFERENT degeneracy patterns (a degenerate pair and two distinct
    levels), one parameter: len(sub) + nparam is odd, so implrun.build_fully lists the blocks as (1, 0)."""
    exactfloat = fmt != "sympy"
    sub = [0, 0, 1, 1] if rng.random() < 0.5 else [1, 1, 0, 0]
    lv = [0, 0, 1, 2] if exactfloat else [1, 1, 3, 5]
    E = [G(Fr(v)) for v in lv]
    nparam = 1
    H = {key((0,) * nparam): gq.enc(diag_matrix(E))}
    cplx = rng.random() < 0.5
    for o in [o for o in gq.orders_upto(nparam, 2) if sum(o) >= 1]:
        if sum(o) == 1 or rng.random() < 0.25:
            H[key(o)] = gq.enc(rand_matrix(rng, 4, herm=hermitian, cplx=cplx, dyadic=exactfloat, density=1.0))
    return dict(sub=sub, nparam=nparam, N=N, H=H, hermitian=hermitian, fully=[0, 1], fmt=fmt)


def coupled_late_case(rng, *, hermitian=True, fmt=None, N=4, expr=False):
    """Three blocks of which the third is coupled to the others ONLY by a second-order term of the input (the
    first-order term couples blocks 0 and 1 only): every shortcut that is valid for two coupled blocks is wrong here."""
    fmt = "sympy" if expr else (fmt or rng.choice(["sympy", "dense", "sparse"]))
    exactfloat = fmt != "sympy"
    sizes = [rng.randint(1, 2), 1, 1]
    sub = [b for b, sz in enumerate(sizes) for _ in range(sz)]
    E = [G(Fr(v)) for v in ([0] * sizes[0] + [1, 2])]
    n = len(sub)
    cplx = rng.random() < 0.5
    H1 = rand_matrix(rng, n, herm=hermitian, cplx=cplx, dyadic=exactfloat, density=1.0)
    for i in range(n):
        for j in range(n):
            if (sub[i] == 2) != (sub[j] == 2):
                H1[i][j] = G(Fr(0))
    H2 = rand_matrix(rng, n, herm=hermitian, cplx=cplx, dyadic=exactfloat, density=1.0)
    H = {key((0,)): gq.enc(diag_matrix(E)), key((1,)): gq.enc(H1), key((2,)): gq.enc(H2)}
    case = dict(sub=sub, nparam=1, N=N, H=H, hermitian=hermitian, fully=None, fmt=fmt)
    if expr:
        case["present"] = "expr"
    return case


def case_signature(case):
    nb = max(case["sub"]) + 1
    f = case["fully"]
    return dict(blocks=nb, dim=len(case["sub"]), nparam=case["nparam"], fmt=case["fmt"],
                hermitian=case["hermitian"],
                mode=("plain" if f is None and nb > 1 else "default-full" if f is None else "tuple" if isinstance(f, list) else "mask"),
                terms=len(case["H"]))
