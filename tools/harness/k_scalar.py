"""C16 (clause C16_scalar): the second-quantised Sylvester solver `solve_scalar`.

tie_scalar(ctx)    : Coq model PV.NOF.SolveScalar.solve_scalar vs pymablock.second_quantization.solve_scalar
                     on generated (Y, H_ii, H_jj, diagonal); term dictionaries compared after evaluating the
                     coefficients on a grid of occupations (semantically: a missing key is the zero coefficient,
                     because `_cancel_binary_operator_numbers` drops terms by a syntactic zero test).
oracle_scalar(ctx) : implementation only: residual  H_ii X - X H_jj - Y  (for diagonal=True: minus the part of Y
                     the code does not solve, its zero-shift term) evaluated exactly on Fock basis states with the
                     independent actions of oracles/o_nof_matrix.
Both also run MATRIX-valued cases through the real `solve_sylvester_2nd_quant(eigs)(Y, index)` (2x2 / 3x3
blocks, diagonal and off-diagonal block indices, distinct and IDENTICAL operator-valued levels inside a block,
non-Hermitian matrix elements): every entry is compared with the model's `solve_entry` (which fixes which
entries may use the Hermitian half-computation) and its residual H_A[i] X_ij - X_ij H_B[j] = Y_ij is checked
on Fock states.
"""

import multiprocessing
from fractions import Fraction as Fr

from vlib import core
from harness import nof_common as nc

from pymablock.second_quantization import solve_scalar, solve_sylvester_2nd_quant  # noqa: E402  (nof_common put core.REPO on sys.path)

sympy = nc.sympy


# ---------------------------------------------------------------------------
# generation


def rand_h(rng, modes):
    """A number-conserving H_0 element: sum_i w_i N_i (+ one quadratic term) + const, rational w_i chosen
    incommensurate enough that energy denominators rarely vanish."""
    ws = [Fr(rng.choice([1, 2, 3, 5, 7]), rng.choice([1, 2, 3])) for _ in modes]
    t = ["const", str(Fr(rng.choice([0, 1, -1, 2]), rng.choice([1, 2]))), "0"]
    for i, w in enumerate(ws):
        if rng.random() < 0.85:
            t = ["add", t, ["mul", ["const", str(w), "0"], ["num", i]]]
    if rng.random() < 0.35:
        i, j = rng.randrange(len(modes)), rng.randrange(len(modes))
        t = ["add", t, ["mul", ["const", str(Fr(1, rng.choice([4, 5, 7]))), "0"], ["mul", ["num", i], ["num", j]]]]
    return t


def gen_case(rng):
    modes = nc.rand_modes(rng, 1, 3)
    diagonal = rng.random() < 0.35
    hi = rand_h(rng, modes)
    hj = hi if diagonal else (rand_h(rng, modes) if rng.random() < 0.7 else hi)
    y = nc.rand_sum(rng, modes, 3, 3)
    if diagonal:
        y = ["add", y, ["adj", y]]  # Hermitian right-hand side, as the algorithm guarantees on the diagonal
    return dict(modes=modes, y=y, hi=hi, hj=hj, diagonal=diagonal, grid=nc.rand_grid(rng, modes, 5))


WITNESSES = [
    dict(modes=["B"], y=["add", ["op", 0, 0], ["op", 0, 1]], hi=["num", 0], hj=["num", 0], diagonal=True, grid=[[0], [1], [3]]),
    dict(modes=["B", "F"], y=["mul", ["op", 0, 1], ["op", 1, 0]], hi=["add", ["num", 0], ["mul", ["const", "3", "0"], ["num", 1]]],
         hj=["mul", ["const", "2", "0"], ["num", 0]], diagonal=False, grid=[[0, 0], [2, 1], [1, 0]]),
]


def run_impl(case):
    ops = nc.make_ops(case["modes"])
    Y = nc.build_impl(case["y"], ops)
    Hi = nc.NumberOrderedForm.from_expr(nc.to_sympy(case["hi"], ops))
    Hj = nc.NumberOrderedForm.from_expr(nc.to_sympy(case["hj"], ops))
    X = solve_scalar(Y, Hi, Hj, diagonal=case["diagonal"])
    if not isinstance(X, nc.NumberOrderedForm):
        X = nc.NumberOrderedForm.from_expr(sympy.sympify(X), operators=ops)
    return X, Y, ops


def _impl_worker(case):
    try:
        X, Y, ops = run_impl(case)
        obs = nc.observe(X, ops, case["grid"])
        return dict(ok=True, obs=[(list(k), v) for k, v in obs.items()], empty=not Y.args[1])
    except Exception as e:  # noqa: BLE001
        return dict(ok=False, err="%s: %s" % (type(e).__name__, str(e)[:300]))


def coq_cexpr(t):
    k = t[0]
    if k == "num":
        return "(CNum %d)" % t[1]
    if k == "const":
        re, im = nc.gconst(t)
        return "(CConst %s)" % nc.cg(re, im)
    if k == "add":
        return "(CAdd %s %s)" % (coq_cexpr(t[1]), coq_cexpr(t[2]))
    if k == "mul":
        return "(CMul %s %s)" % (coq_cexpr(t[1]), coq_cexpr(t[2]))
    if k == "neg":
        return "(CNeg %s)" % coq_cexpr(t[1])
    raise ValueError("not a number-conserving expression: %s" % k)


COQ_HEADER = nc.COQ_HEADER + "Require Import PV.NOF.SolveScalar.\n"


def coq_case(case, obs):
    return "check_scalar %s %s %s %s %s %s %s" % (
        nc.coq_sig(case["modes"]),
        nc.coq_tree(case["y"]),
        coq_cexpr(case["hi"]),
        coq_cexpr(case["hj"]),
        "true" if case["diagonal"] else "false",
        nc.clist([nc.coq_occ(p) for p in case["grid"]]),
        nc.coq_obs(obs),
    )


def case_str(c):
    return "modes=%s diagonal=%s Y=%s H_ii=%s H_jj=%s" % (
        "".join(c["modes"]), c["diagonal"], nc.tree_str(c["y"], c["modes"]), nc.tree_str(c["hi"], c["modes"]), nc.tree_str(c["hj"], c["modes"]))


def tie_scalar(ctx, ncases=None):
    n = ncases or ctx.n(80, 1200)
    cases = [dict(w) for w in WITNESSES] + [gen_case(ctx.rng) for _ in range(n)]
    with multiprocessing.Pool(8 if ctx.quick else 16) as pool:
        res = pool.map(_impl_worker, cases, chunksize=1)
    terms, kept, disagreements = [], [], []
    for c, r in zip(cases, res):
        if not r["ok"]:
            disagreements.append(dict(what="solve_scalar raised: " + case_str(c), input=c, impl=r["err"], model="Ok"))
            continue
        obs = {tuple(k): [None if v is None else tuple(v) for v in vals] for k, vals in r["obs"]}
        terms.append(coq_case(c, obs))
        kept.append((c, r))
    # matrix-valued right-hand sides through solve_sylvester_2nd_quant
    mcases = matrix_cases(ctx.rng, ctx.n(30, 500))
    with multiprocessing.Pool(8 if ctx.quick else 16) as pool:
        mres = pool.map(_matrix_worker, mcases, chunksize=1)
    mkept = []
    nscalar = len(terms)
    for c, r in zip(mcases, mres):
        if not r["ok"]:
            disagreements.append(dict(what="solve_sylvester_2nd_quant raised: " + matrix_str(c), input=dict(kind="matrix", case=c), impl=r["err"], model="Ok"))
            continue
        for ij, t in matrix_terms(c, r):
            terms.append(t)
            mkept.append((c, ij, r))
    bad = core.coq_eval_cases("k_scalar", COQ_HEADER, terms, shard=max(10, len(terms) // 8 + 1), jobs=8 if ctx.quick else 16)
    for i in bad:
        if i >= nscalar:
            c, ij, r = mkept[i - nscalar]
            disagreements.append(dict(what="call %d, entry %s of solve_sylvester_2nd_quant differs from the model's solve_entry: %s" % (ij[0], list(ij[1:]), matrix_str(c)),
                                      input=dict(kind="matrix", case=c), impl=r["obs"][ij[0]][ij[1]][ij[2]], model="check_entry = false"))
            continue
        c, r = kept[i]
        disagreements.append(dict(what="model solve_scalar differs from the implementation: " + case_str(c), input=c, impl=r["obs"], model="check_scalar = false"))
    distinct = {core.canon([c["modes"], c["y"], c["hi"], c["hj"], c["diagonal"]]) for c, r in kept if len(r["obs"]) >= 1}
    mdistinct = {core.canon(c) for c, _, _ in mkept if matrix_nontrivial(c)}
    return dict(
        cases=len(kept) + len({core.canon(c) for c, _, _ in mkept}),
        nontrivial=len(distinct) + len(mdistinct),
        rule="distinct (modes, Y, H_ii, H_jj, diagonal) whose solution has at least one term; plus distinct matrix-valued "
        "cases whose diagonal block has two identical operator-valued levels",
        samples=[case_str(c) for c, _ in kept[:4]],
        distribution=dict(diagonal=sum(1 for c, _ in kept if c["diagonal"]), offdiagonal=sum(1 for c, _ in kept if not c["diagonal"]),
                          terms_in_solution=sum(len(r["obs"]) for _, r in kept), matrix_entries=len(mkept),
                          matrix_cases_diagonal_block=len({core.canon(c) for c, _, _ in mkept if any(cl["index"][0] == cl["index"][1] for cl in case_calls(c))}),
                          solver_sequences=len({core.canon(c) for c, _, _ in mkept if "calls" in c}),
                          matrix_cases_identical_levels=len(mdistinct)),
        disagreements=disagreements,
    )


def replay_case(case):
    """accepts a scalar case, or the failure input dict(kind="scalar"|"matrix", case=...)"""
    if "case" in case and "kind" in case:
        if case["kind"] == "matrix":
            return replay_matrix(case["case"])
        case = case["case"]
    print(case_str(case))
    r = _impl_worker(case)
    if not r["ok"]:
        print("implementation raised:", r["err"])
        return True
    obs = {tuple(k): [None if v is None else tuple(v) for v in vals] for k, vals in r["obs"]}
    bad = core.coq_eval_cases("k_scalar_replay", COQ_HEADER, [coq_case(case, obs)])
    print("model agrees" if not bad else "model DISAGREES")
    return bool(bad) or bool(residual_failures(case))


# ---------------------------------------------------------------------------
# oracle: residual on Fock states


def residual_failures(case):
    """H_ii X - X H_jj - Y' on basis states, exact; Y' = Y (off-diagonal) or Y minus its zero-shift term (diagonal)."""
    from oracles import o_nof_matrix as om

    X, Y, ops = run_impl(case)
    modes = case["modes"]
    Hi = nc.NumberOrderedForm.from_expr(nc.to_sympy(case["hi"], ops), operators=ops)
    Hj = nc.NumberOrderedForm.from_expr(nc.to_sympy(case["hj"], ops), operators=ops)
    if case["diagonal"]:
        zero = tuple([0] * len(modes))
        Yp = nc.NumberOrderedForm(ops, {k: v for k, v in nc.expand_to(Y, ops).terms.items() if tuple(int(p) for p in k) != zero}, validate=False)
    else:
        Yp = Y
    deg = 2 + max([sum(abs(int(p)) for p in k) for k, _ in nc.expand_to(Y, ops).args[1]] + [0])
    rng = __import__("random").Random(core.canon(case))
    states = om.rand_states(rng, modes, 5)
    top = max([max([abs(v) for v in s] + [0]) for s in states] + [0]) + 2 * deg + 2
    sp = om.Space(modes, top, top)
    aX, aY, aHi, aHj = (om.NofActor(z, ops) for z in (X, Yp, Hi, Hj))

    def act(actor, vec):
        out = {}
        for st, c in vec.items():
            r = actor.action(sp, st)
            if r is None:
                return None  # a coefficient is undefined here (vanishing energy denominator)
            for st2, c2 in r.items():
                om.v_add_to(out, st2, om.g_mul(c, c2))
        return om.v_clean(out)

    fails = []
    for st in states:
        v0 = {tuple(st): om.G1}
        xv, hv, yv = act(aX, v0), act(aHj, v0), act(aY, v0)
        if xv is None or hv is None or yv is None:
            continue  # outside the property's precondition (non-zero shifted denominators) on this state
        hx, xh = act(aHi, xv), act(aX, hv)
        if hx is None or xh is None:
            continue
        res = om.v_clean(om.v_sum(om.v_sum(hx, xh, -1), yv, -1))
        if sp.edge_hit:
            raise RuntimeError("truncation edge reached")
        if res:
            fails.append(dict(what="solve_scalar residual H_ii X - X H_jj - Y != 0 on state %s: %s ; %s" % (st, om.v_str(res), case_str(case)),
                              input=dict(kind="scalar", case=case)))
            break
    return fails


def _oracle_worker(case):
    try:
        return residual_failures(case)
    except Exception as e:  # noqa: BLE001
        return [dict(what="oracle_scalar crashed on %s: %s: %s" % (case_str(case), type(e).__name__, str(e)[:200]), input=dict(kind="scalar", case=case), crash=True)]


def oracle_scalar(ctx, ncases=None):
    n = ncases or ctx.n(40, 800)
    cases = [dict(w) for w in WITNESSES] + [gen_case(ctx.rng) for _ in range(n)]
    with multiprocessing.Pool(8 if ctx.quick else 16) as pool:
        res = pool.map(_oracle_worker, cases, chunksize=1)
    failures = [f for r in res for f in r]
    mcases = matrix_cases(ctx.rng, ctx.n(30, 500))
    with multiprocessing.Pool(8 if ctx.quick else 16) as pool:
        mres = pool.map(_matrix_oracle_worker, mcases, chunksize=1)
    failures += [f for r in mres for f in r]
    return dict(
        evaluations=len(cases) + sum(len(cl["Y"]) * len(cl["Y"][0]) for c in mcases for cl in case_calls(c)),
        nontrivial=len({core.canon(c) for c in cases}) + len({core.canon(c) for c in mcases if matrix_nontrivial(c)}),
        rule="distinct generated (modes, Y, H_ii, H_jj, diagonal) plus distinct matrix-valued cases with two identical levels in a "
        "diagonal block; residual checked exactly, entry by entry, on the vacuum and >= 5 basis states",
        samples=[case_str(c) for c in cases[2:5]],
        failures=failures,
    )


# ---------------------------------------------------------------------------
# matrix-valued right-hand sides through solve_sylvester_2nd_quant


def rand_shift_term(rng, modes):
    """coefficient * f(N) * (operators on distinct modes): a term whose net shift is non-zero, so that it is
    never number conserving (number-conserving terms between identical levels are kept by the masks of
    block_diagonalize and never reach the solver)."""
    k = rng.randint(1, min(2, len(modes)))
    idx = rng.sample(range(len(modes)), k)
    t = None
    for i in idx:
        o = ["op", i, rng.randint(0, 1)]
        if modes[i] in "BL" and rng.random() < 0.25:
            o = ["pow", o, 2]
        t = o if t is None else ["mul", t, o]
    if rng.random() < 0.35:
        f = nc.rand_numfun(rng, modes, 0)
        t = ["mul", f, t] if rng.random() < 0.5 else ["mul", t, f]
    if rng.random() < 0.6:
        t = ["mul", nc.rand_const(rng), t]
    return t


def rand_entry(rng, modes, conserving_ok):
    n = rng.randint(1, 2)
    t = rand_shift_term(rng, modes)
    for _ in range(n - 1):
        t = ["add", t, rand_shift_term(rng, modes)]
    if conserving_ok and rng.random() < 0.25:
        t = ["add", t, nc.rand_numfun(rng, modes, 0)]
    return t


def gen_matrix_case(rng, force=None):
    """eigs = blocks of operator-valued levels; Y for the block index (bi, bj)."""
    modes = nc.rand_modes(rng, 1, 2)
    nblocks = rng.randint(1, 2)
    eigs = []
    for _ in range(nblocks):
        size = rng.choice([2, 2, 3, 1])
        levels = [rand_h(rng, modes)]
        for _ in range(size - 1):
            levels.append(rng.choice(levels) if rng.random() < 0.45 else rand_h(rng, modes))
        rng.shuffle(levels)
        eigs.append(levels)
    same = force if force is not None else (rng.random() < 0.6 or nblocks == 1)
    if nblocks == 1:
        same = True
    bi = rng.randrange(nblocks)
    bj = bi if same else (bi + 1) % nblocks
    return dict(modes=modes, eigs=eigs, index=[bi, bj], Y=rand_Y(rng, modes, eigs, bi, bj), grid=nc.rand_grid(rng, modes, 4))


def rand_Y(rng, modes, eigs, bi, bj):
    A, B = eigs[bi], eigs[bj]
    Y = [[None] * len(B) for _ in A]
    for i in range(len(A)):
        for j in range(len(B)):
            if bi == bj:
                if i == j:
                    w = rand_entry(rng, modes, False)
                    Y[i][j] = ["add", w, ["adj", w]]
                elif i > j:
                    Y[i][j] = rand_entry(rng, modes, A[i] != B[j])
                    Y[j][i] = ["adj", Y[i][j]]  # the right-hand side of a diagonal block is a Hermitian MATRIX
            else:
                Y[i][j] = rand_entry(rng, modes, A[i] != B[j])
    return Y


def gen_sequence_case(rng):
    """ONE solver object of solve_sylvester_2nd_quant used for several block pairs in sequence (3 blocks with different
    operator-valued levels; the pairs (0,1), (0,2), (1,2), (1,0), ... and diagonal blocks are requested in a random
    order, some twice with a different right-hand side): the result of a call must not depend on the history."""
    modes = nc.rand_modes(rng, 1, 2)
    eigs = []
    for _ in range(3):
        eigs.append([rand_h(rng, modes) for _ in range(rng.choice([1, 1, 2]))])
    pairs = [(a, b) for a in range(3) for b in range(3)]
    rng.shuffle(pairs)
    idx = pairs[: rng.randint(3, 5)]
    if rng.random() < 0.5:
        idx.append(rng.choice(idx))
    calls = [dict(index=[a, b], Y=rand_Y(rng, modes, eigs, a, b)) for a, b in idx]
    return dict(modes=modes, eigs=eigs, calls=calls, grid=nc.rand_grid(rng, modes, 4))


def case_calls(case):
    return case["calls"] if "calls" in case else [dict(index=case["index"], Y=case["Y"])]


def call_view(case, call):
    return dict(modes=case["modes"], eigs=case["eigs"], index=call["index"], Y=call["Y"], grid=case["grid"])


MATRIX_WITNESSES = [
    # two identical levels N + 1/4 in one block joined by a non-Hermitian element (a + a†/5 in [1,0])
    dict(modes=["B"], eigs=[[["add", ["num", 0], ["const", "1/4", "0"]], ["add", ["num", 0], ["const", "1/4", "0"]]]], index=[0, 0],
         Y=[[["add", ["op", 0, 0], ["op", 0, 1]], ["adj", ["add", ["op", 0, 0], ["mul", ["const", "1/5", "0"], ["op", 0, 1]]]]],
            [["add", ["op", 0, 0], ["mul", ["const", "1/5", "0"], ["op", 0, 1]]], ["mul", ["const", "-1/2", "0"], ["add", ["op", 0, 0], ["op", 0, 1]]]]],
         grid=[[0], [1], [2], [4]]),
]


def _lvl(c):
    return ["add", ["num", 0], ["const", c, "0"]]


MATRIX_WITNESSES.append(  # three 1x1 blocks N + c_b: every block pair uses the in-block entry [0,0]
    dict(modes=["B"], eigs=[[_lvl("0")], [_lvl("5/7")], [_lvl("17/11")]],
         calls=[dict(index=[0, 1], Y=[[["add", ["op", 0, 0], ["mul", ["const", "1/3", "0"], ["op", 0, 1]]]]]),
                dict(index=[0, 2], Y=[[["add", ["op", 0, 0], ["mul", ["const", "2", "0"], ["op", 0, 1]]]]]),
                dict(index=[1, 2], Y=[[["sub", ["op", 0, 1], ["op", 0, 0]]]]),
                dict(index=[1, 0], Y=[[["add", ["op", 0, 1], ["mul", ["const", "1/3", "0"], ["op", 0, 0]]]]])],
         grid=[[0], [1], [2], [4]]))


def matrix_str(c):
    m = c["modes"]
    return "modes=%s eigs=%s calls=%s" % (
        "".join(m), [[nc.tree_str(h, m) for h in blk] for blk in c["eigs"]],
        [(tuple(cl["index"]), [[nc.tree_str(e, m) for e in row] for row in cl["Y"]]) for cl in case_calls(c)])


def run_impl_matrix(case):
    """-> ([(X entries as NumberOrderedForms over ops, Y entries likewise) per call], ops); ONE solver object"""
    ops = nc.make_ops(case["modes"])
    eigs = tuple(tuple(nc.to_sympy(h, ops) for h in blk) for blk in case["eigs"])
    solver = solve_sylvester_2nd_quant(eigs)
    res = []
    for call in case_calls(case):
        Ynof = [[nc.build_impl(e, ops) for e in row] for row in call["Y"]]
        X = solver(sympy.Matrix(Ynof), tuple(call["index"]))
        out = []
        for i in range(X.rows):
            row = []
            for j in range(X.cols):
                x = X[i, j]
                if not isinstance(x, nc.NumberOrderedForm):
                    x = nc.NumberOrderedForm.from_expr(sympy.sympify(x), operators=ops)
                row.append(nc.expand_to(x, ops))
            out.append(row)
        res.append((out, Ynof))
    return res, ops


def _matrix_worker(case):
    try:
        res, ops = run_impl_matrix(case)
        return dict(ok=True, obs=[[[[(list(k), v) for k, v in nc.observe(x, ops, case["grid"]).items()] for x in row] for row in X] for X, _ in res])
    except Exception as e:  # noqa: BLE001
        return dict(ok=False, err="%s: %s" % (type(e).__name__, str(e)[:300]))


def coq_entry(case, i, j, obs):
    bi, bj = case["index"]
    same = bi == bj
    tij = case["Y"][i][j]
    tji = case["Y"][j][i] if same else ["const", "0", "0"]
    return "check_entry %s %s %d %d %s %s %s %s %s %s" % (
        nc.coq_sig(case["modes"]), "true" if same else "false", i, j, nc.coq_tree(tij), nc.coq_tree(tji),
        coq_cexpr(case["eigs"][bi][i]), coq_cexpr(case["eigs"][bj][j]),
        nc.clist([nc.coq_occ(p) for p in case["grid"]]), nc.coq_obs(obs))


def matrix_terms(case, r):
    out = []
    for c, (call, cobs) in enumerate(zip(case_calls(case), r["obs"])):
        view = call_view(case, call)
        for i, row in enumerate(cobs):
            for j, ob in enumerate(row):
                obs = {tuple(k): [None if v is None else tuple(v) for v in vals] for k, vals in ob}
                out.append(((c, i, j), coq_entry(view, i, j, obs)))
    return out


def matrix_nontrivial(case):
    """a diagonal block with two identical levels and a non-Hermitian element between them"""
    if "calls" in case:  # one solver, several block pairs
        return len({tuple(c["index"]) for c in case["calls"]}) >= 2
    bi, bj = case["index"]
    if bi != bj:
        return False
    lv = case["eigs"][bi]
    return any(lv[i] == lv[j] for i in range(len(lv)) for j in range(i))


def _act(om, actor, sp, vec):
    out = {}
    for st, c in vec.items():
        r = actor.action(sp, st)
        if r is None:
            return None
        for st2, c2 in r.items():
            om.v_add_to(out, st2, om.g_mul(c, c2))
    return om.v_clean(out)


def matrix_residual_failures(case):
    """entry-wise  H_A[i] X_ij - X_ij H_B[j] - Y_ij  on Fock states (exact); the right-hand sides contain no
    number-conserving term on the matrix diagonal or between identical levels, so every entry is one that the
    block_diagonalize wiring eliminates."""
    import random as _r

    from oracles import o_nof_matrix as om

    res, ops = run_impl_matrix(case)
    modes = case["modes"]
    rng = _r.Random(core.canon(case))
    states = om.rand_states(rng, modes, 5)
    fails = []
    for cidx, (call, (X, Ynof)) in enumerate(zip(case_calls(case), res)):
      bi, bj = call["index"]
      for i, row in enumerate(X):
        for j, x in enumerate(row):
            y = nc.expand_to(Ynof[i][j], ops) if isinstance(Ynof[i][j], nc.NumberOrderedForm) else nc.NumberOrderedForm.from_expr(Ynof[i][j], operators=ops)
            Hi = nc.NumberOrderedForm.from_expr(nc.to_sympy(case["eigs"][bi][i], ops), operators=ops)
            Hj = nc.NumberOrderedForm.from_expr(nc.to_sympy(case["eigs"][bj][j], ops), operators=ops)
            deg = 2 + max([sum(abs(int(p)) for p in k) for k, _ in y.args[1]] + [0])
            top = max([max([abs(v) for v in s] + [0]) for s in states] + [0]) + 2 * deg + 2
            sp = om.Space(modes, top, top)
            aX, aY, aHi, aHj = (om.NofActor(z, ops) for z in (x, y, Hi, Hj))
            for st in states:
                v0 = {tuple(st): om.G1}
                xv, hv, yv = _act(om, aX, sp, v0), _act(om, aHj, sp, v0), _act(om, aY, sp, v0)
                if xv is None or hv is None or yv is None:
                    continue
                hx, xh = _act(om, aHi, sp, xv), _act(om, aX, sp, hv)
                if hx is None or xh is None:
                    continue
                res_v = om.v_clean(om.v_sum(om.v_sum(hx, xh, -1), yv, -1))
                if sp.edge_hit:
                    raise RuntimeError("truncation edge reached")
                if res_v:
                    fails.append(dict(
                        what="solve_sylvester_2nd_quant: call %d (block pair %s): residual H_A[%d] X - X H_B[%d] - Y != 0 for entry [%d,%d] on state %s: %s ; %s"
                        % (cidx, tuple(call["index"]), i, j, i, j, st, om.v_str(res_v), matrix_str(case)),
                        input=dict(kind="matrix", case=case)))
                    break
            if fails:
                return fails
    return fails


def _matrix_oracle_worker(case):
    try:
        return matrix_residual_failures(case)
    except Exception as e:  # noqa: BLE001
        return [dict(what="oracle_scalar (matrix) crashed on %s: %s: %s" % (matrix_str(case), type(e).__name__, str(e)[:200]),
                     input=dict(kind="matrix", case=case), crash=True)]


def matrix_cases(rng, n):
    return [dict(w) for w in MATRIX_WITNESSES] + [gen_sequence_case(rng) if k % 3 == 2 else gen_matrix_case(rng) for k in range(n)]


def replay_matrix(case):
    print(matrix_str(case))
    r = _matrix_worker(case)
    if not r["ok"]:
        print("implementation raised:", r["err"])
        return True
    ts = matrix_terms(case, r)
    bad = core.coq_eval_cases("k_scalar_replay", COQ_HEADER, [t for _, t in ts])
    for b in bad:
        print("call %d entry %s differs from the model's solve_entry" % (ts[b][0][0], list(ts[b][0][1:])))
    fails = matrix_residual_failures(case)
    for f in fails:
        print(f["what"])
    if not bad and not fails:
        print("model agrees, residual vanishes")
    return bool(bad) or bool(fails)
