"""C16 (clause C16_scalar): the second-quantised Sylvester solver `solve_scalar`.

tie_scalar(ctx)    : Coq model PV.NOF.SolveScalar.solve_scalar vs pymablock.second_quantization.solve_scalar
                     on generated (Y, H_ii, H_jj, diagonal); term dictionaries compared after evaluating the
                     coefficients on a grid of occupations (semantically: a missing key is the zero coefficient,
                     because `_cancel_binary_operator_numbers` drops terms by a syntactic zero test).
oracle_scalar(ctx) : implementation only: residual  H_ii X - X H_jj - Y  (for diagonal=True: minus the part of Y
                     the code does not solve, its zero-shift term) evaluated exactly on Fock basis states with the
                     independent actions of oracles/o_nof_matrix.
"""

import multiprocessing
from fractions import Fraction as Fr

from vlib import core
from harness import nof_common as nc

from pymablock.second_quantization import solve_scalar  # noqa: E402  (nof_common put core.REPO on sys.path)

sympy = nc.sympy


# ---------------------------------------------------------------------------
# generation


def rand_h(rng, modes):
    """A number-conserving H_0 element: sum_i w_i N_i (+ one quadratic term) + const, rational w_i chosen
    incommensurate enough that energy denominators rarely vanish."""
    ws = [Fr(rng.choice([1, 2, 3, 5, 7]), rng.choice([1, 2, 3])) for _ in modes]
    t = ["const", str(Fr(rng.choice([0, 1, -1, 2]), rng.choice([1, 2]))), "0"]
    for i, w in enumerate(ws):
        if rng.random() < 0.85:
            t = ["add", t, ["mul", ["const", str(w), "0"], ["num", i]]]
    if rng.random() < 0.35:
        i, j = rng.randrange(len(modes)), rng.randrange(len(modes))
        t = ["add", t, ["mul", ["const", str(Fr(1, rng.choice([4, 5, 7]))), "0"], ["mul", ["num", i], ["num", j]]]]
    return t


def gen_case(rng):
    modes = nc.rand_modes(rng, 1, 3)
    diagonal = rng.random() < 0.35
    hi = rand_h(rng, modes)
    hj = hi if diagonal else (rand_h(rng, modes) if rng.random() < 0.7 else hi)
    y = nc.rand_sum(rng, modes, 3, 3)
    if diagonal:
        y = ["add", y, ["adj", y]]  # Hermitian right-hand side, as the algorithm guarantees on the diagonal
    return dict(modes=modes, y=y, hi=hi, hj=hj, diagonal=diagonal, grid=nc.rand_grid(rng, modes, 5))


WITNESSES = [
    dict(modes=["B"], y=["add", ["op", 0, 0], ["op", 0, 1]], hi=["num", 0], hj=["num", 0], diagonal=True, grid=[[0], [1], [3]]),
    dict(modes=["B", "F"], y=["mul", ["op", 0, 1], ["op", 1, 0]], hi=["add", ["num", 0], ["mul", ["const", "3", "0"], ["num", 1]]],
         hj=["mul", ["const", "2", "0"], ["num", 0]], diagonal=False, grid=[[0, 0], [2, 1], [1, 0]]),
]


def run_impl(case):
    ops = nc.make_ops(case["modes"])
    Y = nc.build_impl(case["y"], ops)
    Hi = nc.NumberOrderedForm.from_expr(nc.to_sympy(case["hi"], ops))
    Hj = nc.NumberOrderedForm.from_expr(nc.to_sympy(case["hj"], ops))
    X = solve_scalar(Y, Hi, Hj, diagonal=case["diagonal"])
    if not isinstance(X, nc.NumberOrderedForm):
        X = nc.NumberOrderedForm.from_expr(sympy.sympify(X), operators=ops)
    return X, Y, ops


def _impl_worker(case):
    try:
        X, Y, ops = run_impl(case)
        obs = nc.observe(X, ops, case["grid"])
        return dict(ok=True, obs=[(list(k), v) for k, v in obs.items()], empty=not Y.args[1])
    except Exception as e:  # noqa: BLE001
        return dict(ok=False, err="%s: %s" % (type(e).__name__, str(e)[:300]))


def coq_cexpr(t):
    k = t[0]
    if k == "num":
        return "(CNum %d)" % t[1]
    if k == "const":
        re, im = nc.gconst(t)
        return "(CConst %s)" % nc.cg(re, im)
    if k == "add":
        return "(CAdd %s %s)" % (coq_cexpr(t[1]), coq_cexpr(t[2]))
    if k == "mul":
        return "(CMul %s %s)" % (coq_cexpr(t[1]), coq_cexpr(t[2]))
    if k == "neg":
        return "(CNeg %s)" % coq_cexpr(t[1])
    raise ValueError("not a number-conserving expression: %s" % k)


COQ_HEADER = nc.COQ_HEADER + "Require Import PV.NOF.SolveScalar.\n"


def coq_case(case, obs):
    return "check_scalar %s %s %s %s %s %s %s" % (
        nc.coq_sig(case["modes"]),
        nc.coq_tree(case["y"]),
        coq_cexpr(case["hi"]),
        coq_cexpr(case["hj"]),
        "true" if case["diagonal"] else "false",
        nc.clist([nc.coq_occ(p) for p in case["grid"]]),
        nc.coq_obs(obs),
    )


def case_str(c):
    return "modes=%s diagonal=%s Y=%s H_ii=%s H_jj=%s" % (
        "".join(c["modes"]), c["diagonal"], nc.tree_str(c["y"], c["modes"]), nc.tree_str(c["hi"], c["modes"]), nc.tree_str(c["hj"], c["modes"]))


def tie_scalar(ctx, ncases=None):
    n = ncases or ctx.n(80, 1200)
    cases = [dict(w) for w in WITNESSES] + [gen_case(ctx.rng) for _ in range(n)]
    with multiprocessing.Pool(8 if ctx.quick else 16) as pool:
        res = pool.map(_impl_worker, cases, chunksize=1)
    terms, kept, disagreements = [], [], []
    for c, r in zip(cases, res):
        if not r["ok"]:
            disagreements.append(dict(what="solve_scalar raised: " + case_str(c), input=c, impl=r["err"], model="Ok"))
            continue
        obs = {tuple(k): [None if v is None else tuple(v) for v in vals] for k, vals in r["obs"]}
        terms.append(coq_case(c, obs))
        kept.append((c, r))
    bad = core.coq_eval_cases("k_scalar", COQ_HEADER, terms, shard=max(10, len(terms) // 8 + 1), jobs=8 if ctx.quick else 16)
    for i in bad:
        c, r = kept[i]
        disagreements.append(dict(what="model solve_scalar differs from the implementation: " + case_str(c), input=c, impl=r["obs"], model="check_scalar = false"))
    distinct = {core.canon([c["modes"], c["y"], c["hi"], c["hj"], c["diagonal"]]) for c, r in kept if len(r["obs"]) >= 1}
    return dict(
        cases=len(kept),
        nontrivial=len(distinct),
        rule="distinct (modes, Y, H_ii, H_jj, diagonal) whose solution has at least one term",
        samples=[case_str(c) for c, _ in kept[:4]],
        distribution=dict(diagonal=sum(1 for c, _ in kept if c["diagonal"]), offdiagonal=sum(1 for c, _ in kept if not c["diagonal"]),
                          terms_in_solution=sum(len(r["obs"]) for _, r in kept)),
        disagreements=disagreements,
    )


def replay_case(case):
    print(case_str(case))
    r = _impl_worker(case)
    if not r["ok"]:
        print("implementation raised:", r["err"])
        return True
    obs = {tuple(k): [None if v is None else tuple(v) for v in vals] for k, vals in r["obs"]}
    bad = core.coq_eval_cases("k_scalar_replay", COQ_HEADER, [coq_case(case, obs)])
    print("model agrees" if not bad else "model DISAGREES")
    return bool(bad) or bool(residual_failures(case))


# ---------------------------------------------------------------------------
# oracle: residual on Fock states


def residual_failures(case):
    """H_ii X - X H_jj - Y' on basis states, exact; Y' = Y (off-diagonal) or Y minus its zero-shift term (diagonal)."""
    from oracles import o_nof_matrix as om

    X, Y, ops = run_impl(case)
    modes = case["modes"]
    Hi = nc.NumberOrderedForm.from_expr(nc.to_sympy(case["hi"], ops), operators=ops)
    Hj = nc.NumberOrderedForm.from_expr(nc.to_sympy(case["hj"], ops), operators=ops)
    if case["diagonal"]:
        zero = tuple([0] * len(modes))
        Yp = nc.NumberOrderedForm(ops, {k: v for k, v in nc.expand_to(Y, ops).terms.items() if tuple(int(p) for p in k) != zero}, validate=False)
    else:
        Yp = Y
    deg = 2 + max([sum(abs(int(p)) for p in k) for k, _ in nc.expand_to(Y, ops).args[1]] + [0])
    rng = __import__("random").Random(core.canon(case))
    states = om.rand_states(rng, modes, 5)
    top = max([max([abs(v) for v in s] + [0]) for s in states] + [0]) + 2 * deg + 2
    sp = om.Space(modes, top, top)
    aX, aY, aHi, aHj = (om.NofActor(z, ops) for z in (X, Yp, Hi, Hj))

    def act(actor, vec):
        out = {}
        for st, c in vec.items():
            r = actor.action(sp, st)
            if r is None:
                return None  # a coefficient is undefined here (vanishing energy denominator)
            for st2, c2 in r.items():
                om.v_add_to(out, st2, om.g_mul(c, c2))
        return om.v_clean(out)

    fails = []
    for st in states:
        v0 = {tuple(st): om.G1}
        xv, hv, yv = act(aX, v0), act(aHj, v0), act(aY, v0)
        if xv is None or hv is None or yv is None:
            continue  # outside the property's precondition (non-zero shifted denominators) on this state
        hx, xh = act(aHi, xv), act(aX, hv)
        if hx is None or xh is None:
            continue
        res = om.v_clean(om.v_sum(om.v_sum(hx, xh, -1), yv, -1))
        if sp.edge_hit:
            raise RuntimeError("truncation edge reached")
        if res:
            fails.append(dict(what="solve_scalar residual H_ii X - X H_jj - Y != 0 on state %s: %s ; %s" % (st, om.v_str(res), case_str(case)),
                              input=dict(kind="scalar", case=case)))
            break
    return fails


def _oracle_worker(case):
    try:
        return residual_failures(case)
    except Exception as e:  # noqa: BLE001
        return [dict(what="oracle_scalar crashed on %s: %s: %s" % (case_str(case), type(e).__name__, str(e)[:200]), input=dict(kind="scalar", case=case), crash=True)]


def oracle_scalar(ctx, ncases=None):
    n = ncases or ctx.n(40, 800)
    cases = [dict(w) for w in WITNESSES] + [gen_case(ctx.rng) for _ in range(n)]
    with multiprocessing.Pool(8 if ctx.quick else 16) as pool:
        res = pool.map(_oracle_worker, cases, chunksize=1)
    failures = [f for r in res for f in r]
    return dict(
        evaluations=len(cases),
        nontrivial=len({core.canon(c) for c in cases}),
        rule="distinct generated (modes, Y, H_ii, H_jj, diagonal); residual checked exactly on the vacuum and >= 5 basis states",
        samples=[case_str(c) for c in cases[2:5]],
        failures=failures,
    )
