"""Exact Gaussian-rational matrices (own code, shares nothing with pymablock).

A scalar is a pair (re, im) of Fractions wrapped in class G; a matrix is a list of rows.
Everything is JSON-serialisable through enc/dec ("p/q" strings).
"""

from fractions import Fraction as Fr
import itertools


class G:
    __slots__ = ("re", "im")

    def __init__(self, re=0, im=0):
        self.re = Fr(re)
        self.im = Fr(im)

    def __add__(s, o):
        o = g(o)
        return G(s.re + o.re, s.im + o.im)

    __radd__ = __add__

    def __sub__(s, o):
        o = g(o)
        return G(s.re - o.re, s.im - o.im)

    def __rsub__(s, o):
        return g(o) - s

    def __neg__(s):
        return G(-s.re, -s.im)

    def __mul__(s, o):
        o = g(o)
        return G(s.re * o.re - s.im * o.im, s.re * o.im + s.im * o.re)

    __rmul__ = __mul__

    def conj(s):
        return G(s.re, -s.im)

    def inv(s):
        d = s.re * s.re + s.im * s.im
        return G(s.re / d, -s.im / d)

    def __truediv__(s, o):
        return s * g(o).inv()

    def __eq__(s, o):
        o = g(o)
        return s.re == o.re and s.im == o.im

    def __hash__(s):
        return hash((s.re, s.im))

    def is_zero(s):
        return s.re == 0 and s.im == 0

    def __repr__(s):
        return "G(%s,%s)" % (s.re, s.im)

    def abs2(s):
        return s.re * s.re + s.im * s.im


def g(x):
    return x if isinstance(x, G) else G(x)


def enc_s(x):
    x = g(x)
    return [str(x.re), str(x.im)]


def dec_s(p):
    return G(Fr(p[0]), Fr(p[1]))


def enc(M):
    return [[enc_s(x) for x in r] for r in M]


def dec(M):
    return [[dec_s(x) for x in r] for r in M]


def zeros(n, m=None):
    m = n if m is None else m
    return [[G() for _ in range(m)] for _ in range(n)]


def eye(n):
    return [[G(1 if i == j else 0) for j in range(n)] for i in range(n)]


def shape(A):
    return (len(A), len(A[0]) if A else 0)


def add(A, B):
    return [[a + b for a, b in zip(ra, rb)] for ra, rb in zip(A, B)]


def sub(A, B):
    return [[a - b for a, b in zip(ra, rb)] for ra, rb in zip(A, B)]


def neg(A):
    return [[-a for a in r] for r in A]


def scal(c, A):
    c = g(c)
    return [[c * a for a in r] for r in A]


def mul(A, B):
    n, k = shape(A)
    k2, m = shape(B)
    assert k == k2, (shape(A), shape(B))
    Bt = list(zip(*B)) if B else []
    out = []
    for i in range(n):
        row = []
        Ai = A[i]
        for j in range(m):
            s_re = Fr(0)
            s_im = Fr(0)
            col = Bt[j]
            for t in range(k):
                a = Ai[t]
                b = col[t]
                if (a.re == 0 and a.im == 0) or (b.re == 0 and b.im == 0):
                    continue
                s_re += a.re * b.re - a.im * b.im
                s_im += a.re * b.im + a.im * b.re
            row.append(G(s_re, s_im))
        out.append(row)
    return out


def adj(A):
    n, m = shape(A)
    return [[A[i][j].conj() for i in range(n)] for j in range(m)]


def transpose(A):
    n, m = shape(A)
    return [[A[i][j] for i in range(n)] for j in range(m)]


def conj(A):
    return [[a.conj() for a in r] for r in A]


def is_zero(A):
    return all(a.is_zero() for r in A for a in r)


def eq(A, B):
    return shape(A) == shape(B) and all(a == b for ra, rb in zip(A, B) for a, b in zip(ra, rb))


def hadamard(A, M):
    """entrywise product with a 0/1 (or G) mask"""
    return [[a * g(m) for a, m in zip(ra, rm)] for ra, rm in zip(A, M)]


def maxabs2(A):
    return max([a.abs2() for r in A for a in r] or [Fr(0)])


def block(A, rows, cols):
    return [[A[i][j] for j in cols] for i in rows]


def orders_upto(nparam, N):
    return [o for o in itertools.product(range(N + 1), repeat=nparam) if sum(o) <= N]


def splits(n):
    return [tuple(a) for a in itertools.product(*[range(x + 1) for x in n])]


def msub(n, a):
    return tuple(x - y for x, y in zip(n, a))


class Series:
    """dict multi-order -> matrix; absent = zero. dim fixed."""

    def __init__(self, dim, nparam, data=None):
        self.dim = dim
        self.nparam = nparam
        self.d = dict(data or {})

    def get(self, n):
        v = self.d.get(tuple(n))
        return zeros(self.dim) if v is None else v

    def has(self, n):
        v = self.d.get(tuple(n))
        return v is not None and not is_zero(v)


def cauchy(fs, n):
    """Cauchy product of a list of Series at multi-order n (exact, dense)."""
    if len(fs) == 1:
        return fs[0].get(n)
    dim = fs[0].dim
    tot = zeros(dim)
    for a in splits(n):
        if not fs[0].has(a):
            continue
        rest = cauchy(fs[1:], msub(n, a))
        if is_zero(rest):
            continue
        tot = add(tot, mul(fs[0].get(a), rest))
    return tot
