"""Correspondence harness + implementation oracle for C11 (exception safety).

Model level (tie_faults): `series_computation` on the shipped algorithms and generated programs
with the three kinds of user callbacks instrumented - eval of the input series, the counted
scope functions (the Sylvester solver of the shipped algorithms), the `operator`.  For a
schedule the callback invocations of the clean run are counted; then for every invocation
index k (all of them for small runs, a sample otherwise) and each exception class
(Exception subclass, RuntimeError, KeyboardInterrupt) the run is repeated with a fault at k,
followed by the same schedule again.  Checked on the implementation: the exception reaches
the caller, no PENDING object remains in the _data of ANY series of either dictionary or of
the inputs after any request, all values returned after the fault equal the clean ones.
Compared with the Coq model (DSL/Exec.v with the same fault plan): the whole sequence of
observations, absence of Pending entries, and the final number of callback invocations.

Implementation level (oracle_faults_bd): the same through block_diagonalize with a Hamiltonian
BlockSeries (user eval) and a custom solve_sylvester(Y, index) (block_diagonalize has no `operator`
argument: operator faults are injected at the series_computation level above); internal
series reached through H_tilde.eval.__globals__.
"""
import sys

from vlib import core

sys.path.insert(0, str(core.REPO))
from harness import k_seriescomp as KS  # noqa: E402
from harness import proggen as PG  # noqa: E402

HEADER = KS.HEADER
CLASSES = ["Boom", "RuntimeError", "KeyboardInterrupt"]
COUNTED = ["f_lmul", "f_scale", "g_mul"]


class Boom(Exception):
    pass


def exc_of(name):
    return {"Boom": Boom, "RuntimeError": RuntimeError, "KeyboardInterrupt": KeyboardInterrupt}[name]


class Counter:
    def __init__(self, faults):
        self.n = 0
        self.faults = dict(faults)  # invocation index -> class name

    def tick(self):
        k = self.n
        self.n += 1
        if k in self.faults:
            raise exc_of(self.faults[k])("injected fault at callback %d" % k)


def build_instrumented(p, fn, w, faults):
    cnt = Counter(faults)

    def wrap(name, f):
        if name in COUNTED or name == "solve_sylvester":
            def g(*a):
                cnt.tick()
                return f(*a)
            return g
        return f

    def op(a, b):
        cnt.tick()
        return a * b

    w = dict(w)
    extra = dict(w.get("extra_scope", {}))
    if p.get("shipped"):
        extra.update(KS.shipped_scope(w))
        extra["solve_sylvester"] = wrap("solve_sylvester", PG.scope_functions()["f_lmul"])
    w["extra_scope"] = extra
    series, lin, inputs = KS.build(p, fn, w, wrap_fn=wrap, eval_hook=lambda x, idx: cnt.tick(), operator=op)
    return series, lin, inputs, cnt


def pending_anywhere(series, lin, inputs):
    from pymablock.series import PENDING

    for d in (series, lin, inputs):
        for s in d.values():
            if any(v is PENDING for v in s._data.values()):
                return True
    return False


def run_schedule(p, fn, w, faults, sched):
    """-> (observations, calls0, calls_end, pending_seen) or None if the definition itself raised"""
    try:
        series, lin, inputs, cnt = build_instrumented(p, fn, w, faults)
    except BaseException:  # noqa: BLE001  fault during definition: nothing to observe
        return None
    calls0 = cnt.n
    obs, pend = [], False
    for r in sched:
        obs.append(KS.observe(series, r))
        pend = pend or pending_anywhere(series, lin, inputs)
    return obs, calls0, cnt.n, pend


def tie_faults(ctx):
    rng = ctx.rng
    cases = []
    ship = KS.shipped_programs()
    n_ship, n_gen = ctx.n(6, 40), ctx.n(14, 120)
    for k in range(n_ship):
        p = ship[k % 2]
        w = KS.shipped_world(rng, p["name"], max_order=2)
        w["np"] = 1
        w["env"] = PG.rand_inputs(rng, ["H"], w["nb"], 1, max_order=2, density=1.0)
        cases.append((p, p["fn"], w))
    for k in range(n_gen):
        p = PG.random_program(rng, idx=20000 + k)
        cases.append((p, PG.load_function(p), KS.random_world(rng, p, max_order=2)))
    max_points = ctx.n(12, 60)
    terms, owners, disagreements, failures = [], [], [], []
    injections = nontrivial = 0
    dist = {c: 0 for c in CLASSES}
    for p, fn, w in cases:
        clean_build = build_instrumented(p, fn, w, {})
        names = sorted(clean_build[0].keys())
        outs = [n for n in p["outputs"] if n in names] or names
        sched = [("tab", rng.choice(outs if rng.random() < 0.7 else names),
                  (rng.randrange(w["nb"]), rng.randrange(w["nb"])) + tuple(rng.choice(KS.all_orders(w["np"], 2))))
                 for _ in range(3)]
        clean = run_schedule(p, fn, w, {}, sched + sched)
        if clean is None:
            continue
        cobs, calls0, cend, _ = clean
        points = list(range(calls0, cend))
        if len(points) > max_points:
            points = sorted(rng.sample(points, max_points))
        plans = [[(k, c)] for k in points for c in [rng.choice(CLASSES)] + ([rng.choice(CLASSES)] if ctx.tier != "quick" else [])]
        # double faults
        for _ in range(min(4, len(points))):
            a, b = sorted(rng.sample(points, 2)) if len(points) >= 2 else (points[0], points[0] + 1)
            plans.append([(a, rng.choice(CLASSES)), (b, rng.choice(CLASSES))])
        js = KS.rename_solver(p["json"]) if p.get("shipped") else p["json"]
        alg = PG.coq_alg(js)
        for plan in plans:
            r = run_schedule(p, fn, w, dict(plan), sched + sched + sched)
            if r is None:
                continue
            obs, c0, cn, pend = r
            injections += 1
            for _, c in plan:
                dist[c] += 1
            raised = [o for o in obs if isinstance(o, tuple) and o[0] == "exn" and o[1] in CLASSES]
            if raised:
                nontrivial += 1
            inp = dict(source=p["source"], shipped=p["name"] if p.get("shipped") else None, world=PG.world_to_json(w),
                       schedule=[[r0[0], r0[1], list(r0[2])] for r0 in sched], plan=[list(x) for x in plan])
            if pend:
                failures.append(dict(what="PENDING marker left in a cache after an injected fault", input=inp))
            # after the last fault has fired, the third repetition must reproduce the clean values
            n = len(sched)
            last = obs[2 * n:]
            fired_all = cn > max(k for k, _ in plan)
            if fired_all and not any(isinstance(o, tuple) and o[0] == "exn" and o[1] in CLASSES for o in last):
                if last != cobs[:n] and not any(isinstance(o, tuple) and o[0] == "exn" for o in cobs[:n]):
                    failures.append(dict(what="values after an injected fault differ from the undisturbed computation",
                                         input=inp, observed=[str(o) for o in last], clean=[str(o) for o in cobs[:n]]))
            cfg = KS.world_cfg(p, w, counted=["f_lmul" if p.get("shipped") else x for x in (["f_lmul"] if p.get("shipped") else COUNTED)],
                               faults=[(k, c) for k, c in plan])
            reqs = "[" + "; ".join(PG.creq(*r0) for r0 in sched + sched + sched) + "]"
            exp = "[" + "; ".join(PG.cobs(o) for o in obs) + "]"
            terms.append("check_faulty %d %s %s %d %s %s %d" % (KS.EXEC_FUEL, alg, cfg, c0, reqs, exp, cn))
            owners.append(inp)
    bad = core.coq_eval_cases("k_faults", HEADER, terms, shard=10, timeout=1500, jobs=16)
    for i in bad:
        disagreements.append(dict(what="fault injection: observations / pending / callback count differ from the Coq model", input=owners[i]))
    for f in failures:
        disagreements.append(dict(what="(implementation) " + f["what"], input=f["input"]))
    PG.cleanup()
    return dict(cases=injections, nontrivial=nontrivial,
                rule="fault plans whose injected exception reached the caller (single and double faults, 3 exception classes)",
                samples=owners[:1], distribution=dist, disagreements=disagreements, impl_failures=failures)


# ------------------------------------------------------------------ block_diagonalize level (implementation only)


def bd_problem(rng):
    import numpy as np

    n0, n1 = rng.choice([(1, 2), (2, 2), (2, 3)])
    E = [np.array(sorted(rng.sample(range(0, 6), n0)), dtype=float), np.array(sorted(rng.sample(range(8, 16), n1)), dtype=float)]
    N = n0 + n1
    a = np.array([[rng.randint(-3, 3) for _ in range(N)] for _ in range(N)], dtype=float)
    h1 = a + a.T
    b = np.array([[rng.randint(-2, 2) for _ in range(N)] for _ in range(N)], dtype=float)
    h2 = b + b.T
    return dict(E=[e.tolist() for e in E], h1=h1.tolist(), h2=h2.tolist(), sizes=[n0, n1], solver1=rng.random() < 0.35)


def bd_build(prob, faults):
    import numpy as np
    from pymablock import block_diagonalize
    from pymablock.block_diagonalization import solve_sylvester_diagonal
    from pymablock.series import BlockSeries, zero

    cnt = Counter(faults)
    E = [np.array(e) for e in prob["E"]]
    h1, h2 = np.array(prob["h1"]), np.array(prob["h2"])
    n0, n1 = prob["sizes"]
    sl = [slice(0, n0), slice(n0, n0 + n1)]
    base = solve_sylvester_diagonal(tuple(E))

    def solver(Y, index):
        cnt.tick()
        return base(Y, index)

    def ev(*idx):
        cnt.tick()
        i, j, n = idx
        if n == 0:
            return np.diag(E[i]) if i == j else zero
        if n == 1:
            return h1[sl[i], sl[j]]
        if n == 2:
            return h2[sl[i], sl[j]]
        return zero

    def solver_one_arg(Y):
        # the deprecated one-argument signature: wrapped by _preprocess_sylvester (two blocks, Hermitian)
        cnt.tick()
        return base(Y, (0, 1))

    H = BlockSeries(eval=ev, shape=(2, 2), n_infinite=1, name="H")
    import warnings

    with warnings.catch_warnings():
        warnings.simplefilter("ignore")
        out = block_diagonalize(H, solve_sylvester=solver_one_arg if prob.get("solver1") else solver)
    return out, H, cnt


def _dec_index(ix):
    """JSON-able index -> what the user writes: int | ["s", stop] (slice :stop) | ["l", [ints]] (list index)"""
    return tuple(slice(None, x[1]) if (isinstance(x, list) and x[0] == "s") else (list(x[1]) if isinstance(x, list) else x) for x in ix)


def _bd_val(v):
    import numpy as np
    from pymablock.series import one, zero

    if v is zero:
        return "zero"
    if v is one:
        return "one"
    if isinstance(v, np.ma.MaskedArray):
        return [_bd_val(x) for x in v.filled(zero).reshape(-1)]
    if isinstance(v, np.ndarray) and v.dtype == object:
        return [_bd_val(x) for x in v.reshape(-1)]
    return np.array(v).tolist()


def bd_values(out, reqs, cnt=None):
    """requests (series number, index) -> list of (value | ('exn', class), callbacks before, after)"""
    res = []
    for (s, ix) in reqs:
        before = cnt.n if cnt is not None else 0
        try:
            v = _bd_val(out[s][_dec_index(ix)])
        except BaseException as e:  # noqa: BLE001
            v = ("exn", PG.exn_class(e))
        res.append((v, before, cnt.n if cnt is not None else 0))
    return res


def bd_pending(out, H):
    from pymablock.series import PENDING

    g = out[0].eval.__globals__
    for d in (g["series"], g["linear_operator_series"]):
        for s in d.values():
            if any(v is PENDING for v in s._data.values()):
                return True
    if any(any(v is PENDING for v in o._data.values()) for o in out):
        return True
    return any(v is PENDING for v in H._data.values())


def bd_check(prob, reqs, plan):
    """-> failure description or None.  reqs: (series number, index) where the index may contain slices,
    negative integers and lists (non-canonical user-facing requests)"""
    reqs = [(r[0], list(r[1])) for r in reqs]
    try:
        out0, H0, c0 = bd_build(prob, {})
    except BaseException:  # noqa: BLE001
        return None
    clean = [v for v, _, _ in bd_values(out0, reqs)]
    try:
        out, H, cnt = bd_build(prob, dict(plan))
    except BaseException:  # noqa: BLE001
        return None
    first = bd_values(out, reqs, cnt)
    for (v, before, after), (s, ix) in zip(first, reqs):
        fired = [c for k, c in plan if before <= k < after]
        if fired:
            if not (isinstance(v, tuple) and v[0] == "exn"):
                return "an injected %s during request %s did not reach the caller" % (fired[0], (s, ix))
            if v[1] != fired[0]:
                return "request %s: the caller received %s instead of the injected %s" % ((s, ix), v[1], fired[0])
    if bd_pending(out, H):
        return "PENDING marker left behind after an injected fault"
    bd_values(out, reqs, cnt)
    if bd_pending(out, H):
        return "PENDING marker left behind after an injected fault"
    third = [v for v, _, _ in bd_values(out, reqs, cnt)]
    if cnt.n > max(k for k, _ in plan) and not any(isinstance(o, tuple) and o[1] in CLASSES for o in third) and third != clean:
        return "values after an injected fault differ from the undisturbed computation"
    return None


def bd_requests(rng):
    """three user-facing requests on H_tilde / U / U† (2x2 blocks, one parameter): plain, slice, negative, list"""
    reqs = []
    for _ in range(3):
        s = rng.randrange(3)
        i, j = rng.randrange(2), rng.randrange(2)
        kind = rng.choice(["plain", "slice", "negative", "list", "slice", "list"])
        if kind == "plain":
            ix = [i, j, rng.randrange(4)]
        elif kind == "slice":
            ix = [i, j, ["s", rng.randint(2, 4)]]
        elif kind == "negative":
            ix = [i - 2, j - 2 if rng.random() < 0.7 else j, rng.randrange(1, 4)]
        else:
            ix = [i, j, ["l", sorted(rng.sample(range(4), 2))]]
        reqs.append((s, ix))
    return reqs


def oracle_faults_bd(ctx):
    rng = ctx.rng
    evaluations = nontrivial = 0
    failures, samples = [], []
    kinds = {}
    for _ in range(ctx.n(10, 50)):
        prob = bd_problem(rng)
        reqs = bd_requests(rng)
        out0, H0, c0 = bd_build(prob, {})
        start = c0.n
        bd_values(out0, reqs)
        total = c0.n
        points = list(range(start, total))
        if len(points) > ctx.n(20, 120):
            points = sorted(rng.sample(points, ctx.n(20, 120)))
        plans = [[(k, rng.choice(CLASSES))] for k in points]
        plans += [[(a, rng.choice(CLASSES)), (a + rng.randint(1, 5), rng.choice(CLASSES))] for a in points[:: max(1, len(points) // 5)]]
        for _, ix in reqs:
            k = "slice" if any(isinstance(x, list) and x[0] == "s" for x in ix) else "list" if any(isinstance(x, list) for x in ix) else "negative" if any(x < 0 for x in ix) else "plain"
            kinds[k] = kinds.get(k, 0) + 1
        for plan in plans:
            evaluations += 1
            nontrivial += 1
            what = bd_check(prob, reqs, plan)
            if what:
                failures.append(dict(what=what, input=dict(level="block_diagonalize", problem=prob, requests=[[r[0], r[1]] for r in reqs], plan=[list(x) for x in plan])))
                break
        if len(samples) < 1:
            samples.append(dict(problem=prob, requests=reqs, callbacks=total - start))
    return dict(evaluations=evaluations, nontrivial=nontrivial,
                rule="block_diagonalize fault plans (callback index x exception class), single and double; user-facing requests: %s" % kinds,
                samples=samples, failures=failures)


# ------------------------------------------------------------------ errors raised by the library itself


def le_problem(rng):
    """H_0 with a level shared by two DIFFERENT blocks: solve_sylvester_diagonal refuses that block pair with
    ValueError("The subspaces must not share eigenvalues.") on every request that needs it"""
    nb = rng.choice([2, 2, 3])
    sizes = [rng.randint(1, 2) for _ in range(nb)]
    pool = rng.sample(range(1, 30), sum(sizes))  # non-zero levels: an all-zero H_0 diagonal is rejected at definition
    E, k = [], 0
    for sz in sizes:
        E.append(sorted(pool[k:k + sz])); k += sz
    b1, b2 = sorted(rng.sample(range(nb), 2))
    E[b2][rng.randrange(len(E[b2]))] = E[b1][rng.randrange(len(E[b1]))]  # the shared level
    if len(set(E[b2])) < len(E[b2]):
        E[b2] = sorted(E[b2])
    N = sum(sizes)
    a = [[rng.randint(-3, 3) for _ in range(N)] for _ in range(N)]
    h1 = [[a[i][j] + a[j][i] for j in range(N)] for i in range(N)]
    a = [[rng.randint(-2, 2) for _ in range(N)] for _ in range(N)]
    h2 = [[a[i][j] + a[j][i] for j in range(N)] for i in range(N)]
    return dict(nb=nb, sizes=sizes, E=E, h1=h1, h2=h2, pair=[b1, b2],
                fmt=rng.choice(["dense", "sparse", "sympy"]), own_solver=rng.random() < 0.4)


def le_build(prob):
    import warnings
    import numpy as np
    import scipy.sparse as sp
    import sympy
    from pymablock import block_diagonalize
    from pymablock.block_diagonalization import solve_sylvester_diagonal

    flatE = [e for blk in prob["E"] for e in blk]
    sub = [b for b, sz in enumerate(prob["sizes"]) for _ in range(sz)]
    mats = [np.diag(np.array(flatE, dtype=float)), np.array(prob["h1"], dtype=float), np.array(prob["h2"], dtype=float)]
    kw = dict(subspace_indices=sub)
    if prob["fmt"] == "sparse":
        mats = [sp.csr_array(m) for m in mats]
    elif prob["fmt"] == "sympy":
        mats = [sympy.Matrix(m).applyfunc(sympy.nsimplify) for m in mats]
    H = {(k,): m for k, m in enumerate(mats)}  # one parameter: H_0 + x H_1 + x^2 H_2
    if prob["own_solver"] and prob["fmt"] != "sympy":
        kw["solve_sylvester"] = solve_sylvester_diagonal(tuple(np.array(blk, dtype=float) for blk in prob["E"]))
    with warnings.catch_warnings():
        warnings.simplefilter("ignore")
        return block_diagonalize(H, **kw)


def le_outcome(out, req):
    import warnings
    from harness import k_schedules as KSCH

    s, ix = req
    with warnings.catch_warnings():
        warnings.simplefilter("ignore")
        try:
            return KSCH._canon(out[s][tuple(ix)])
        except BaseException as e:  # noqa: BLE001
            return ("exn", PG.exn_class(e) if PG.exn_class(e) in PG.EXN_COQ else type(e).__name__)


def le_check(prob, reqs):
    """every outcome (value or exception class) of a schedule equals the outcome of the same request in a fresh
    computation; no PENDING marker is left behind"""
    try:
        out = le_build(prob)
    except (ValueError, NotImplementedError):
        return None  # the problem itself is rejected at definition: nothing to compare
    for k, req in enumerate(reqs):
        got = le_outcome(out, req)
        fresh = le_outcome(le_build(prob), req)
        if got != fresh:
            def show(o):
                return o[1] if (isinstance(o, tuple) and o[0] == "exn") else "a value"
            return "request %d %s: %s, but a fresh computation gives %s (after the library refused an earlier request)" % (
                k, (OUTS3[req[0]], req[1]), show(got), show(fresh))
        g = out[0].eval.__globals__
        from pymablock.series import PENDING

        if any(v is PENDING for d in (g["series"], g["linear_operator_series"]) for srs in d.values() for v in srs._data.values()):
            return "PENDING marker left behind after the library raised an error"
    return None


OUTS3 = ("H_tilde", "U", "U†")


def oracle_library_errors(ctx):
    rng = ctx.rng
    evaluations = nontrivial = 0
    failures, samples = [], []
    dist = {}
    for _ in range(ctx.n(14, 150)):
        prob = le_problem(rng)
        b1, b2 = prob["pair"]
        nb = prob["nb"]
        first = (rng.choice([1, 2, 0]), [b1, b2, rng.choice([1, 2])])
        others = [(rng.randrange(3), [rng.randrange(nb), rng.randrange(nb), rng.randrange(3)]) for _ in range(3)]
        reqs = [first, first, (0, [b1, b1, 2]), others[0], (1, [b1, b2, 1]), others[1], first, others[2]]
        evaluations += 1
        nontrivial += 1
        key = "%s/%dblocks/%s" % (prob["fmt"], nb, "own" if prob["own_solver"] and prob["fmt"] != "sympy" else "default")
        dist[key] = dist.get(key, 0) + 1
        what = le_check(prob, reqs)
        if what:
            failures.append(dict(what=what, input=dict(level="library_errors", problem=prob, requests=[[r[0], r[1]] for r in reqs])))
        if len(samples) < 1:
            samples.append(dict(problem=prob, requests=reqs))
    return dict(evaluations=evaluations, nontrivial=nontrivial,
                rule="H_0 with a level shared by two blocks (ValueError raised by solve_sylvester_diagonal itself); %s" % dist,
                samples=samples, failures=failures)


def replay_input(inp):
    if inp.get("level") == "library_errors":
        return le_check(inp["problem"], [(r[0], r[1]) for r in inp["requests"]])
    if inp.get("level") == "block_diagonalize":
        return bd_check(inp["problem"], [(r[0], r[1]) for r in inp["requests"]], [tuple(x) for x in inp["plan"]])
    w = PG.world_from_json(inp["world"])
    if inp.get("shipped"):
        p = [q for q in KS.shipped_programs() if q["name"] == inp["shipped"]][0]
        fn = p["fn"]
    else:
        p = PG.program_from_source(inp["source"])
        fn = PG.load_function(p)
    sched = [(r[0], r[1], tuple(r[2])) for r in inp["schedule"]]
    clean = run_schedule(p, fn, w, {}, sched)
    r = run_schedule(p, fn, w, {k: c for k, c in inp["plan"]}, sched + sched + sched)
    if r is None or clean is None:
        return None
    obs, c0, cn, pend = r
    if pend:
        return "PENDING marker left in a cache after an injected fault"
    n = len(sched)
    if cn > max(k for k, _ in inp["plan"]) and obs[2 * n:] != clean[0] and not any(isinstance(o, tuple) and o[0] == "exn" for o in obs[2 * n:] + clean[0]):
        return "values after an injected fault differ from the undisturbed computation"
    return None
