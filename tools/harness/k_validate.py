"""Correspondence for the validation model (C20): PV.Front.Validate vs block_diagonalize.

A *vcase* (JSON-able) = a gen.random_case problem + how it is passed to block_diagonalize
(designation by indices / eigenvectors, container format, custom solver, ...) + a list of
damages.  `observe(vcase)` runs the real code: definition, then every element of H_tilde, U,
U† of total order 0, 1, 2 and reports the first exception (class, 'def' | order) or acceptance.
`abstract(vcase)` computes - from the constructed input only - the record PV.Front.Validate.call
and the schedule of uses; Coq evaluates `life` on it (core.coq_eval_cases).
"""
import sys, warnings, itertools, copy
from fractions import Fraction as Fr
from vlib import core

sys.path.insert(0, str(core.REPO))
import numpy as np  # noqa: E402
import sympy  # noqa: E402
import scipy.sparse as sp  # noqa: E402
from . import gq, gen, implrun  # noqa: E402
from .gq import G  # noqa: E402

HEADER = """Require Import List Bool Arith.
Require Import PV.Front.Validate.
Import ListNotations.
Fixpoint lb (a b : list nat) : bool :=
  match a, b with [] , [] => true | x :: r, y :: s => (x =? y) && lb r s | _, _ => false end.
"""

LISTED = ("ValueError", "TypeError", "NotImplementedError")

# ---------------------------------------------------------------------------
# helpers on cases


def zkey(case):
    return gen.key((0,) * case["nparam"])


def blocks_of(case):
    sub = case["sub"]
    nb = max(sub) + 1
    return [[k for k, s in enumerate(sub) if s == b] for b in range(nb)]


def energies(case):
    H0 = gq.dec(case["H"][zkey(case)])
    return [H0[k][k] for k in range(len(case["sub"]))]


def set_entry(case, key, i, j, val, herm=True):
    M = gq.dec(case["H"][key])
    M[i][j] = gq.g(val)
    if herm and i != j:
        M[j][i] = gq.g(val).conj()
    case["H"][key] = gq.enc(M)


def block_is_zero(M, rows, cols):
    return all(M[i][j].is_zero() for i in rows for j in cols)


def orders_of_total(nparam, n):
    return [o for o in itertools.product(range(n + 1), repeat=nparam) if sum(o) == n]


# ---------------------------------------------------------------------------
# generation


def base_case(rng, fmt=None, min_blocks=1, hermitian=True, need_big_block=False):
    for _ in range(200):
        c = gen.random_case(rng, hermitian=hermitian, fmt=fmt, max_blocks=3, max_size=3, max_params=2, N=2)
        bl = blocks_of(c)
        if len(bl) < min_blocks:
            continue
        if need_big_block and max(len(b) for b in bl) < 2:
            continue
        return c
    raise RuntimeError("generator cannot satisfy the request")


DAMAGES = ["h0_offdiag", "h0_undecided", "shared1", "shared2", "mask_equal", "biorth", "mask_asym",
           "nonherm_term", "solver_fd", "vecs_and_indices", "herm_pairs", "legacy_nonherm",
           "fd_array_blocks", "solver_single", "unsupported_type", "cross_overlap", "cross_overlap_lr"]


# structural damages: one per rejection branch of the front end that needs a special container,
# malformed (right, left) entries or the implicit mode (incomplete eigenvectors)
STRUCT = dict(
    keys_noncommutative=dict(container="mono_noncomm"),
    keys_not_monomial=dict(container="mono_notmono"),
    symbols_missing=dict(container="expr_missing", fmt="sympy"),
    mask_not_array=dict(listmask=True),
    blocked_and_indices=dict(container="blocks", keep_indices=True),
    blocks_nonsquare=dict(container="series_nonsquare"),
    ragged0=dict(container="blocks_ragged0", min_blocks=2),
    ragged1=dict(container="blocks_ragged1"),
    invalid_operator=dict(container="series_objects"),
    pair_len3=dict(vec="len3", herm=False),
    pair_shape_dim=dict(vec="shape_dim", herm=False),
    pair_shape_count=dict(vec="shape_count", herm=False),
    implicit_blocked=dict(implicit=True, container="blocks", numeric=True),
    implicit_symbolic=dict(implicit=True, fmt="sympy"),
    implicit_nonherm_kpm=dict(implicit=True, herm=False, kw=dict(direct_solver=False), numeric=True),
    implicit_dim=dict(implicit=True, vec="extra_row", numeric=True),
    implicit_types=dict(implicit=True, vec="sparse", numeric=True),
    implicit_fd=dict(implicit=True, numeric=True, herm=True, fd_last=True),
    zero_diagonal=dict(zero_h0=True),
    atol_gap=dict(gap=True, numeric=True, kw=dict(atol=2.0 ** -18), min_blocks=2),   # user atol > a cross-block gap
    legacy_three_blocks=dict(legacy=3, herm=True),       # lazily: wrapper only defined for two blocks
)
# accepted inputs that exercise further branches (some with a warning the oracle insists on)
NOTES = dict(
    mono_ok=dict(container="mono"),
    blocks_ok=dict(container="blocks"),
    h0_block_nondiagonal=dict(nondiag=True),                     # UserWarning "Cannot confirm ... diagonal"
    implicit_ok=dict(implicit=True, numeric=True, herm=True,     # DeprecationWarning for atol / eps
                     kw=dict(solver_options=dict(atol=1e-10, eps=0.05))),
    tiny_scale=dict(scale=True, numeric=True),                   # H * 2**-k: all levels below numpy's default atol
    near_gap_default_atol=dict(gap=True, numeric=True, min_blocks=2),   # the same gap with the default atol: fine
    single_block_nodesignation=dict(single=True),                # neither indices nor eigenvectors: one block
    fd_bare_array_single=dict(single=True, fd_array=True),       # bare mask array with a single block
    legacy_ok=dict(legacy=2, herm=True),                         # one-argument solver, two blocks: deprecated
)
EXPECT_WARNING = dict(h0_block_nondiagonal="UserWarning", implicit_ok="DeprecationWarning", h0_undecided="UserWarning",
                      legacy_ok="DeprecationWarning")


def make_struct_vcase(rng, name, fmt):
    spec = dict(STRUCT.get(name) or NOTES[name])
    fmt = spec.get("fmt") or fmt
    if spec.get("numeric") and fmt == "sympy":
        fmt = rng.choice(["dense", "sparse"])
    herm = spec.get("herm")
    if herm is None:
        herm = rng.random() < 0.8
    min_blocks = max(spec.get("min_blocks", 1), 2 if spec.get("implicit") else 1)
    c = None
    for _ in range(300):
        c = copy.deepcopy(base_case(rng, fmt=fmt, min_blocks=max(min_blocks, spec.get("legacy", 1)), hermitian=herm,
                                    need_big_block=bool(spec.get("nondiag") or spec.get("listmask"))))
        nbc = max(c["sub"]) + 1
        if spec.get("legacy") and nbc != spec["legacy"]:
            continue
        if spec.get("single") and nbc != 1:
            continue
        break
    else:
        return None
    bl = blocks_of(c)
    nb = len(bl)
    v = dict(case=c, designation="indices", container=spec.get("container", "dict"), solver=None, damages=[],
             fd_override=None, extra_indices=False, pairs=False, implicit=bool(spec.get("implicit")),
             vec=spec.get("vec"), kw=spec.get("kw") or {}, note=name if name in NOTES else None)
    if v["container"].startswith("blocks") or v["container"].startswith("series_"):
        v["designation"] = "indices" if spec.get("keep_indices") else "none"
    if spec.get("vec") or spec.get("implicit"):
        v["designation"] = "eigvecs"
    if spec.get("implicit"):
        c["fully"] = [nb - 1] if spec.get("fd_last") else None
    if spec.get("vec") in ("len3", "shape_dim", "shape_count"):
        c["fully"] = None
    if v["container"] in ("series_nonsquare", "series_objects", "blocks_ragged0", "blocks_ragged1"):
        c["fully"] = None
    if v["container"] in ("expr_missing", "mono", "mono_noncomm", "mono_notmono") and unused_params(v):
        return None
    if spec.get("listmask"):
        p = rng.choice([b for b in range(nb) if len(bl[b]) >= 2])
        n0 = len(bl[p])
        v["fd_override"] = dict(listmask={str(p): [[0] * n0 for _ in range(n0)]})
        c["fully"] = None
    if spec.get("nondiag"):
        p = rng.choice([b for b in range(nb) if len(bl[b]) >= 2])
        a, b = bl[p][0], bl[p][1]
        set_entry(c, zkey(c), a, b, G(Fr(1, 2)), herm=True)
        if not c["hermitian"]:
            set_entry(c, zkey(c), b, a, G(Fr(1, 2)), herm=False)
        c["fully"] = None if isinstance(c["fully"], dict) else c["fully"]
    if spec.get("zero_h0"):
        c["H"][zkey(c)] = gq.enc(gq.zeros(len(c["sub"])))
        c["fully"] = None
    if spec.get("scale"):
        sc = Fr(1, 2 ** rng.randint(27, 34))
        c["H"] = {k: gq.enc(gq.scal(sc, gq.dec(M))) for k, M in c["H"].items()}
    if spec.get("gap"):
        # two states of different blocks 2**-20 apart, at a level (2**-10) where numpy's relative
        # tolerance does not reach: shared iff the user's atol exceeds the gap; coupled at first order
        p_, q_ = sorted(rng.sample(range(nb), 2))
        a, b = rng.choice(bl[p_]), rng.choice(bl[q_])
        set_entry(c, zkey(c), a, a, G(Fr(1, 2 ** 10)))
        set_entry(c, zkey(c), b, b, G(Fr(1, 2 ** 10) + Fr(1, 2 ** 20)))
        k1 = gen.key(orders_of_total(c["nparam"], 1)[0])
        set_entry(c, k1, a, b, G(1), herm=c["hermitian"])
        if not c["hermitian"]:
            set_entry(c, k1, b, a, G(1), herm=False)
        c["fully"] = None
        v["gap_pair"] = [p_, q_]
    if spec.get("single"):
        v["designation"] = "none"
        c["fully"] = None
        if spec.get("fd_array"):
            E = energies(c)
            v["fd_override"] = dict(array=gen.rand_mask(rng, [E[k] for k in bl[0]], symmetric=c["hermitian"]))
    if spec.get("legacy"):
        v["solver"] = "one"
        c["fully"] = None
        if spec["legacy"] == 3:
            # make sure the pair (0, 2) is coupled at first order: its Sylvester equation is requested
            k1 = gen.key(orders_of_total(c["nparam"], 1)[0])
            set_entry(c, k1, bl[0][0], bl[2][0], G(1), herm=True)
    if name in STRUCT:
        v["damages"].append(dict(kind=name))
    return v


OFFDIAG_SIGNS = ["neg", "imag", "mixed", "pos"]


def make_offdiag_vcase(rng, fmt, nb_want, herm, container, sign):
    """"H_0 not block diagonal" with a prescribed sign structure of the offending block: only negative
    real entries (a -t hopping), only purely imaginary entries of both signs, mixed signs, positive."""
    c = None
    for _ in range(400):
        c = copy.deepcopy(gen.random_case(rng, hermitian=herm, fmt=fmt, max_blocks=3, max_size=3, max_params=2, N=2))
        if max(c["sub"]) + 1 == nb_want:
            break
    else:
        return None
    if container == "list":
        c["H"] = {k: M for k, M in c["H"].items() if sum(gen.unkey(k)) <= 1}
    bl = blocks_of(c)
    p, q = sorted(rng.sample(range(nb_want), 2))
    cells = [(a, b) for a in bl[p] for b in bl[q]]
    rng.shuffle(cells)
    cells = cells[:rng.randint(1, min(3, len(cells)))]
    mag = lambda: Fr(rng.choice([1, 2, 3]), rng.choice([1, 2, 4]))  # noqa: E731
    for k, (a, b) in enumerate(cells):
        if sign == "neg":
            x = G(-mag())
        elif sign == "pos":
            x = G(mag())
        elif sign == "imag":
            x = G(0, mag() * (1 if k % 2 == 0 else -1))
        else:
            x = G(mag() * (1 if k % 2 == 0 else -1), mag() * rng.choice([-1, 0, 1])) if len(cells) > 1 else G(-mag(), mag())
        # the partner (b, a) is the conjugate: for hermitian=False both blocks (p,q) and (q,p) are scanned
        set_entry(c, zkey(c), a, b, x, herm=True)
    v = dict(case=c, designation="indices", container=container, solver=None, damages=[dict(kind="h0_offdiag", p=p, q=q, sign=sign)],
             fd_override=None, extra_indices=False, pairs=False, implicit=False, vec=None, kw={}, note=None)
    return v


def offdiag_grid(rng):
    """in EVERY run: sparse values with all sign structures x 2 / 3 blocks x Hermitian or not x list / dict
    input (32 cases); dense and sympy values with all sign structures, the other factors cycled (16 each)."""
    out = []
    combos = [(nb, herm, cont) for nb in (2, 3) for herm in (True, False) for cont in ("list", "dict")]
    for sign in OFFDIAG_SIGNS:
        for nb, herm, cont in combos:
            out.append(("sparse", nb, herm, cont, sign))
    for fmt in ("dense", "sympy"):
        for k, sign in enumerate(OFFDIAG_SIGNS * 4):
            nb, herm, cont = combos[(k + k // 4) % len(combos)]
            out.append((fmt, nb, herm, cont, sign))
    vs = []
    for fmt, nb, herm, cont, sign in out:
        v = make_offdiag_vcase(rng, fmt, nb, herm, cont, sign)
        if v is not None:
            vs.append(v)
    return vs


def make_vcase(rng, damages, fmt=None):
    """build a vcase carrying the given damages (list of names)."""
    if len(damages) == 1 and (damages[0] in STRUCT or damages[0] in NOTES):
        return make_struct_vcase(rng, damages[0], fmt)
    hermitian = True
    if "legacy_nonherm" in damages or "cross_overlap_lr" in damages:
        hermitian = False
    elif not damages and rng.random() < 0.3:
        hermitian = False
    need_pair = any(d in damages for d in ("h0_offdiag", "h0_undecided", "shared1", "shared2", "cross_overlap", "cross_overlap_lr"))
    need_big = any(d in damages for d in ("mask_equal", "mask_asym"))
    if "nonherm_term" in damages or "h0_undecided" in damages:
        fmt = "sympy"
    if "solver_single" in damages:
        c = None
        for _ in range(500):
            c = gen.random_case(rng, hermitian=hermitian, fmt=fmt, max_blocks=1, max_size=3, max_params=2, N=2)
            break
    else:
        c = base_case(rng, fmt=fmt, min_blocks=2 if (need_pair or "fd_array_blocks" in damages or "legacy_nonherm" in damages) else 1,
                      hermitian=hermitian, need_big_block=need_big)
    c = copy.deepcopy(c)
    v = dict(case=c, designation="indices", container="dict", solver=None, damages=[], fd_override=None,
             extra_indices=False, pairs=False, implicit=False, vec=None, kw={}, note=None)
    bl = blocks_of(c)
    nb = len(bl)
    if not damages and rng.random() < 0.35:
        v["designation"] = "eigvecs"
    if not damages and nb == 2 and c["fully"] is None and rng.random() < 0.15:
        v["solver"] = "two"
    for d in damages:
        rec = dict(kind=d)
        if d in ("h0_offdiag", "h0_undecided", "shared1", "shared2"):
            p, q = sorted(rng.sample(range(nb), 2))
            rec.update(p=p, q=q)
            a, b = rng.choice(bl[p]), rng.choice(bl[q])
            if d == "h0_offdiag":
                set_entry(c, zkey(c), a, b, G(Fr(rng.choice([1, 2, -1]), rng.choice([1, 2])) if c["fmt"] == "sympy" else Fr(rng.choice([1, -1, 2]), rng.choice([1, 2, 4]))), herm=True)
            elif d == "h0_undecided":
                rec.update(a=a, b=b)
            else:
                E = energies(c)
                set_entry(c, zkey(c), b, b, E[a])
                ords1 = orders_of_total(c["nparam"], 1)
                if d == "shared1":
                    k = gen.key(rng.choice(ords1))
                    M = gq.dec(c["H"][k])
                    if block_is_zero(M, bl[p], bl[q]):
                        set_entry(c, k, a, b, G(1), herm=c["hermitian"])
                        if not c["hermitian"]:
                            set_entry(c, k, b, a, G(1), herm=False)
                else:
                    # decouple block p at first order, couple p-q directly at second order
                    for o in ords1:
                        k = gen.key(o)
                        M = gq.dec(c["H"][k])
                        for i in bl[p]:
                            for j in range(len(c["sub"])):
                                if j not in bl[p]:
                                    M[i][j] = G(0)
                                    M[j][i] = G(0)
                        c["H"][k] = gq.enc(M)
                    o2 = rng.choice(orders_of_total(c["nparam"], 2))
                    k2 = gen.key(o2)
                    if k2 not in c["H"]:
                        c["H"][k2] = gq.enc(gq.zeros(len(c["sub"])))
                    set_entry(c, k2, a, b, G(1), herm=c["hermitian"])
                    if not c["hermitian"]:
                        set_entry(c, k2, b, a, G(1), herm=False)
        elif d in ("mask_equal", "mask_asym"):
            p = rng.choice([b for b in range(nb) if len(bl[b]) >= 2])
            rec.update(p=p)
            a, b = rng.sample(range(len(bl[p])), 2)
            f = c["fully"] if isinstance(c["fully"], dict) else {}
            m = f.get(str(p)) or [[0] * len(bl[p]) for _ in bl[p]]
            E = energies(c)
            if d == "mask_equal":
                set_entry(c, zkey(c), bl[p][b], bl[p][b], E[bl[p][a]])
                E = energies(c)
                m[a][b] = m[b][a] = 1
            else:
                # make the two energies differ, eliminate one orientation only
                if E[bl[p][a]] == E[bl[p][b]]:
                    others = [x for x in ([G(0), G(1), G(2)] if c["fmt"] != "sympy" else [G(k) for k in range(-6, 7)])
                              if all(x != E[s] for blk in range(nb) if blk != p for s in bl[blk])]
                    cand = [x for x in others if x != E[bl[p][a]]]
                    if not cand:
                        return None
                    set_entry(c, zkey(c), bl[p][b], bl[p][b], rng.choice(cand))
                    E = energies(c)
                m[a][b], m[b][a] = 1, 0
            # masks must stay consistent with the (possibly changed) energies elsewhere
            for x in range(len(bl[p])):
                for y in range(len(bl[p])):
                    if (x, y) not in ((a, b), (b, a)) and E[bl[p][x]] == E[bl[p][y]]:
                        m[x][y] = 0
            f[str(p)] = m
            c["fully"] = f
            # other masks: drop entries that became degenerate
            for kb, mm in f.items():
                if int(kb) == p:
                    continue
                blk = bl[int(kb)]
                for x in range(len(blk)):
                    for y in range(len(blk)):
                        if E[blk[x]] == E[blk[y]]:
                            mm[x][y] = 0
        elif d == "biorth":
            v["designation"] = "eigvecs"
            p = rng.randrange(nb)
            rec.update(p=p, how=rng.choice(["scale", "tilt"]))
        elif d in ("cross_overlap", "cross_overlap_lr"):
            # every subspace (bi)orthonormal within itself, two different subspaces overlap, and
            # nothing else is wrong: L_i^† H_0 R_j = 0 for i != j, diagonal blocks stay diagonal,
            # no shared energies
            v["designation"] = "eigvecs"
            c["fully"] = None
            p, q = rng.sample(range(nb), 2)
            a = rng.choice(bl[p])
            if d == "cross_overlap":
                # v_a = (3 e_a + 4 e_b)/5 in block p, v_b = (4 e_a + 3 e_b)/5 in block q, E_b = -E_a:
                # <v_b|H_0|v_a> = 12/25 (E_a + E_b) = 0, projected energies -+ 7 E_a / 25
                b = rng.choice(bl[q])
                e = G(rng.choice([1, 2, 3]))
                set_entry(c, zkey(c), a, a, e)
                set_entry(c, zkey(c), b, b, -e)
                rec.update(p=p, q=q, a=a, b=b)
            else:
                # L_p gets an admixture of a zero-energy state z of block q: L_p^† R_q != 0 but
                # L_p^† H_0 R_q = E_z / 2 = 0
                z = rng.choice(bl[q])
                set_entry(c, zkey(c), z, z, G(0), herm=False)
                E = energies(c)
                if any(E[s].is_zero() for blk in range(nb) if blk != q for s in bl[blk]):
                    return None
                if all(E[s].is_zero() for s in range(len(c["sub"]))):
                    return None
                rec.update(p=p, q=q, a=a, z=z)
        elif d == "nonherm_term":
            v["container"] = "expr"
            n = rng.choice([0, 1, 1, 2])
            cands = [o for o in orders_of_total(c["nparam"], n)]
            o = rng.choice(cands)
            k = gen.key(o)
            if k not in c["H"]:
                c["H"][k] = gq.enc(gq.zeros(len(c["sub"])))
            dim = len(c["sub"])
            if n == 0:
                # keep H_0 block diagonal: damage inside a block of size >= 2 if any, else skip
                big = [b for b in bl if len(b) >= 2]
                if not big:
                    return None
                blk = rng.choice(big)
                i, j = blk[0], blk[1]
            else:
                if dim < 2:
                    return None
                i, j = rng.sample(range(dim), 2)
            M = gq.dec(c["H"][k])
            M[i][j] = M[j][i].conj() + G(1)
            c["H"][k] = gq.enc(M)
            rec.update(order=list(o))
        elif d == "solver_fd":
            v["solver"] = "two"
            if not c["fully"]:
                c["fully"] = [0]
        elif d == "vecs_and_indices":
            v["designation"] = "eigvecs"
            v["extra_indices"] = True
        elif d == "herm_pairs":
            v["designation"] = "eigvecs"
            v["pairs"] = True
        elif d == "legacy_nonherm":
            v["solver"] = "one"
            c["fully"] = None
        elif d == "fd_array_blocks":
            n0 = len(bl[0])
            v["fd_override"] = dict(array=[[0] * n0 for _ in range(n0)])
        elif d == "solver_single":
            v["solver"] = "two"
            c["fully"] = None
        elif d == "unsupported_type":
            v["container"] = "unsupported"
        v["damages"].append(rec)
    if v["container"] == "dict" and not damages and rng.random() < 0.2 and all(sum(gen.unkey(k)) <= 1 for k in c["H"]):
        v["container"] = "list"
    if v["container"] == "dict" and c["fmt"] == "sympy" and not damages and rng.random() < 0.2:
        v["container"] = "expr"
    if v["solver"] and c["fully"] and not any(d in damages for d in ("solver_fd",)):
        v["solver"] = None
    return v


# ---------------------------------------------------------------------------
# building the real call


def eigvec_matrices(v):
    """exact (right, left) bases per block: identity columns, then the planted damages."""
    c = v["case"]
    bl = blocks_of(c)
    dim = len(c["sub"])
    Rs, Ls = [], []
    for b, idx in enumerate(bl):
        M = [[G(1 if r == k else 0) for k in idx] for r in range(dim)]
        L = None
        for d in v["damages"]:
            if d["kind"] == "biorth" and d["p"] == b:
                if d["how"] == "scale" or dim < 2:
                    for r in range(dim):
                        M[r][0] = M[r][0] * 2
                else:
                    other = next(r for r in range(dim) if r != idx[0])
                    M[other][0] = M[other][0] + G(1)
            if d["kind"] == "cross_overlap" and b in (d["p"], d["q"]):
                col = idx.index(d["a"] if b == d["p"] else d["b"])
                ca, cb_ = (Fr(3, 5), Fr(4, 5)) if b == d["p"] else (Fr(4, 5), Fr(3, 5))
                for r in range(dim):
                    M[r][col] = G(ca if r == d["a"] else cb_ if r == d["b"] else 0)
            if d["kind"] == "cross_overlap_lr" and b == d["p"]:
                L = [row[:] for row in M]
                L[d["z"]][idx.index(d["a"])] = G(Fr(1, 2))
        Rs.append(M)
        Ls.append(L if L is not None else M)
    if v.get("implicit"):
        Rs, Ls = Rs[:-1], Ls[:-1]      # the last block is left implicit
    if v.get("vec") == "extra_row":
        Rs = [M + [[G(0)] * len(M[0])] for M in Rs]
        Ls = Rs
    return Rs, Ls


def uses_lr(v):
    return any(d["kind"] == "cross_overlap_lr" for d in v["damages"])


def build_call(v):
    """returns (hamiltonian, kwargs)."""
    c = v["case"]
    fmt = c["fmt"]
    H = implrun.build_input(c)
    for d in v["damages"]:
        if d["kind"] == "h0_undecided":
            zk = (0,) * c["nparam"]
            M = H[zk].as_mutable()
            s = sympy.Symbol("q_undecided")
            M[d["a"], d["b"]] = s
            M[d["b"], d["a"]] = sympy.conjugate(s) if c["hermitian"] else s
            H[zk] = sympy.ImmutableMatrix(M) if False else sympy.Matrix(M)
    kw = dict(hermitian=c["hermitian"])
    if v["designation"] == "indices" or v["extra_indices"]:
        kw["subspace_indices"] = list(c["sub"])
    if v["designation"] == "eigvecs":
        Rs, Ls = eigvec_matrices(v)
        cv = implrun.to_sympy if fmt == "sympy" else (lambda M: implrun.to_numpy(M, real_if_possible=False) if uses_lr(v) else implrun.to_numpy(M))
        vecs = [cv(M) for M in Rs]
        if v.get("vec") == "sparse":
            vecs = [sp.csr_array(x) for x in vecs]
        elif v.get("vec") == "len3":
            vecs = [(vecs[0], vecs[0], vecs[0])] + vecs[1:]
        elif v.get("vec") == "shape_dim":
            L0 = np.vstack([vecs[0], np.zeros((1, vecs[0].shape[1]))]) if fmt != "sympy" else vecs[0].col_join(sympy.zeros(1, vecs[0].shape[1]))
            vecs = [(vecs[0], L0)] + vecs[1:]
        elif v.get("vec") == "shape_count":
            L0 = np.hstack([vecs[0], vecs[0][:, :1]]) if fmt != "sympy" else vecs[0].row_join(vecs[0][:, :1])
            vecs = [(vecs[0], L0)] + vecs[1:]
        if uses_lr(v):
            vecs = [(cv(R), cv(L)) for R, L in zip(Rs, Ls)]
        elif v["pairs"]:
            vecs = [(vecs[0], vecs[0])] + vecs[1:]
        kw["subspace_eigenvectors"] = vecs
    kw.update(copy.deepcopy(v.get("kw") or {}))
    if v["fd_override"] is not None and "listmask" in v["fd_override"]:
        kw["fully_diagonalize"] = {int(k): m for k, m in v["fd_override"]["listmask"].items()}   # lists, not arrays
    elif v["fd_override"] is not None:
        kw["fully_diagonalize"] = np.array(v["fd_override"]["array"], dtype=bool)
    else:
        kw["fully_diagonalize"] = implrun.build_fully(c)
    if v["solver"] == "diag_user":
        # a solver the user builds with the library's own factory, from the exact H_0 levels
        from pymablock.block_diagonalization import solve_sylvester_diagonal
        E = energies(c)
        bl_ = blocks_of(c)
        if fmt == "sympy":
            eigs = tuple(np.array([implrun.to_sympy([[E[k]]])[0, 0] for k in blk], dtype=object) for blk in bl_)
        else:
            eigs = tuple(implrun.to_numpy([[E[k] for k in blk]], real_if_possible=all(E[k].im == 0 for k in blk))[0] for blk in bl_)
        kw["solve_sylvester"] = solve_sylvester_diagonal(eigs)
    if v["solver"] == "two":
        kw["solve_sylvester"] = lambda Y, index: Y
    elif v["solver"] == "one":
        kw["solve_sylvester"] = lambda Y: Y
    ham = dict(H)
    if v["container"] == "list":
        n = c["nparam"]
        ham = [H[(0,) * n]] + [H[tuple(int(a == b) for b in range(n))] for a in range(n)]
    elif v["container"] == "expr":
        syms = sympy.symbols("x0:%d" % c["nparam"], real=True)
        expr = sympy.zeros(len(c["sub"]))
        for o, M in H.items():
            mono = sympy.Integer(1)
            for s, e in zip(syms, o):
                mono = mono * s ** e
            expr = expr + mono * M
        ham = sympy.Matrix(expr)
        kw["symbols"] = list(syms)
    elif v["container"] == "unsupported":
        ham = 3.5
    elif v["container"] == "expr_missing":
        syms = list(sympy.symbols("x0:%d" % (c["nparam"] + 1), real=True))
        expr = sympy.zeros(len(c["sub"]))
        for o, M in H.items():
            mono = sympy.Integer(1)
            for s_, e in zip(syms, o):
                mono = mono * s_ ** e
            expr = expr + mono * M
        ham = sympy.Matrix(expr)
        kw["symbols"] = syms            # the last symbol does not occur in the Hamiltonian
    elif v["container"].startswith("mono"):
        syms = list(sympy.symbols("x0:%d" % c["nparam"], real=True))
        if v["container"] == "mono_noncomm":
            syms[0] = sympy.Symbol("x0", commutative=False)
        ham = {}
        for o, M in H.items():
            key = sympy.Integer(1)
            for s_, e in zip(syms, o):
                key = key * s_ ** e
            if v["container"] == "mono_notmono" and sum(o) == 1 and o[0] == 1:
                key = 2 * key           # a numerical prefactor: not a monomial of the symbols
            ham[key] = M
    elif v["container"].startswith("blocks"):
        bl = blocks_of(c)
        nb = len(bl)
        conv = (lambda B: implrun.to_sympy(B)) if fmt == "sympy" else ((lambda B: sp.csr_array(implrun.to_numpy(B))) if fmt == "sparse" else implrun.to_numpy)
        ham = {}
        for k, M in c["H"].items():
            Md = gq.dec(M)
            ham[gen.unkey(k)] = [[conv(gq.block(Md, bl[i], bl[j])) for j in range(nb)] for i in range(nb)]
        zero = (0,) * c["nparam"]
        if v["container"] == "blocks_ragged0":
            ham[zero][-1] = ham[zero][-1][:-1]
        if v["container"] == "blocks_ragged1":
            o1 = sorted(o for o in ham if sum(o) == 1)[0]
            ham[o1] = ham[o1][:-1]
    elif v["container"] in ("series_nonsquare", "series_objects"):
        from pymablock.series import BlockSeries
        bl = blocks_of(c)
        nb = len(bl)
        zero = (0,) * c["nparam"]
        if v["container"] == "series_objects":
            ham = BlockSeries(data={(0, 0) + zero: object()}, shape=(1, 1), n_infinite=c["nparam"])
        else:
            H0 = gq.dec(c["H"][zkey(c)])
            data = {(i, i) + zero: implrun.to_numpy(gq.block(H0, bl[i], bl[i])) for i in range(nb)}
            ham = BlockSeries(data=data, shape=(nb, nb + 1), n_infinite=c["nparam"])
    if v["designation"] == "none":
        kw.pop("subspace_indices", None)
    return ham, kw


def exn_name(e):
    n = type(e).__name__
    return n if n in LISTED or n == "UnboundLocalError" else "Other:" + n


def observe(v, upto=2, check_finite=False):
    """returns dict(verdict='accept'|exception class, stage='def'|order|None, finite=bool)."""
    from pymablock import block_diagonalize
    c = v["case"]
    ham, kw = build_call(v)
    with warnings.catch_warnings(record=True) as wlist:
        warnings.simplefilter("always")
        try:
            res = block_diagonalize(ham, **kw)
        except Exception as e:  # noqa: BLE001
            return dict(verdict=exn_name(e), stage="def", msg=str(e)[:100])
        seen = sorted({w.category.__name__ for w in wlist})
        nb = res[0].shape[0]
        finite = True
        for n in range(upto + 1):
            for o in orders_of_total(c["nparam"], n):
                for S in res:
                    for i in range(nb):
                        for j in range(nb):
                            try:
                                val = S[(i, j) + tuple(o)]
                            except Exception as e:  # noqa: BLE001
                                # an input rejected at first use must be rejected EVERY time the
                                # quantity is needed: repeat the failing request, then ask for the
                                # other series at the same index and repeat once more
                                again = []
                                for S2 in (S,) + tuple(res) + (S,):
                                    try:
                                        S2[(i, j) + tuple(o)]
                                        again.append("value")
                                    except Exception as e2:  # noqa: BLE001
                                        again.append(exn_name(e2))
                                return dict(verdict=exn_name(e), stage=n, msg=str(e)[:100], warnings=seen,
                                            repeat=[again[0], again[-1]], element=[i, j] + list(o))
                            if check_finite:
                                finite = finite and value_finite(val)
    return dict(verdict="accept", stage=None, finite=finite, warnings=seen)


def value_finite(val):
    from pymablock.series import zero, one
    if val is zero or val is one:
        return True
    if sp.issparse(val):
        val = val.toarray()
    if isinstance(val, np.ndarray):
        return bool(np.all(np.isfinite(val)))
    if isinstance(val, sympy.MatrixBase):
        return not val.has(sympy.zoo, sympy.nan, sympy.oo)
    return True


# ---------------------------------------------------------------------------
# abstraction to the Coq record


def cb(b):
    return "true" if b else "false"


def fun2(entries, default):
    """entries: {(i,j): coq}  ->  fun i j => match ... end"""
    if not entries:
        return "(fun _ _ => %s)" % default
    arms = " ".join("| %d, %d => %s" % (i, j, val) for (i, j), val in sorted(entries.items()))
    return "(fun i j => match i, j with %s | _, _ => %s end)" % (arms, default)


def cmask(is_nd, sym, hits):
    return "(mkMask %s %s %s)" % (cb(is_nd), cb(sym), cb(hits))


def abstract(v):
    """returns (coq term of type call, coq schedule, dict summary)."""
    c = v["case"]
    bl = blocks_of(c)
    nb = len(bl)
    dim = len(c["sub"])
    herm = c["hermitian"]
    E = energies(c)
    H0 = gq.dec(c["H"][zkey(c)])
    cont = v["container"]
    fmt = dict(dict="FDictTuple", list="FList", expr="FSympyExpr", unsupported="FUnsupported", expr_missing="FSympyExpr",
               mono="FDictMonomial", mono_noncomm="FDictMonomial", mono_notmono="FDictMonomial",
               blocks="FDictTuple", blocks_ragged0="FDictTuple", blocks_ragged1="FDictTuple",
               series_nonsquare="FBlockSeries", series_objects="FBlockSeries")[cont]
    preblocked = cont.startswith("blocks") or cont.startswith("series_")
    keys = dict(mono_noncomm="KeysNonCommutative", mono_notmono="KeysNotMonomial").get(cont, "KeysOk")
    implicit = bool(v.get("implicit"))
    if cont == "series_objects":
        bl, nb, dim = [[0]], 1, 1
        H0 = [[G(1)]]
        E = [G(1)]
    arity = {None: "None", "two": "(Some 2)", "one": "(Some 1)"}[v["solver"]]
    # fully_diagonalize
    def mask_info(b, m):
        m = [[bool(x) for x in r] for r in m]
        n = len(m)
        sym = all(m[x][y] == m[y][x] for x in range(n) for y in range(n))
        hits = any(m[x][y] and E[bl[b][x]] == E[bl[b][y]] for x in range(n) for y in range(n)) if b < nb and len(bl[b]) == n else False
        return cmask(True, sym, hits)
    if v["fd_override"] is not None and "listmask" in v["fd_override"]:
        fd = "(FdDict [%s])" % "; ".join("(%d, %s)" % (int(k), cmask(False, True, False)) for k in v["fd_override"]["listmask"])
    elif v["fd_override"] is not None:
        arr = v["fd_override"]["array"]
        n_el = sum(len(r) for r in arr)
        truth = "None" if n_el > 1 else "(Some %s)" % cb(bool(arr[0][0]))
        fd = "(FdArray %s %s)" % (truth, mask_info(0, arr))
    elif c["fully"] is None:
        fd = "FdEmpty"
    elif isinstance(c["fully"], list):
        fd = "(FdTuple [%s])" % "; ".join(str(x) for x in c["fully"])
    else:
        fd = "(FdDict [%s])" % "; ".join("(%d, %s)" % (int(k), mask_info(int(k), m)) for k, m in c["fully"].items())
    # eigenvectors
    if v["designation"] == "eigvecs":
        Rs, Ls = eigvec_matrices(v)
        rows = len(Rs[0])
        R = [[x for M in Rs for x in (M[r])] for r in range(rows)]
        L = [[x for M in Ls for x in (M[r])] for r in range(rows)]
        ov = gq.mul(gq.adj(L), R)
        offs, o = [], 0
        for M in Rs:
            offs.append(range(o, o + len(M[0])))
            o += len(M[0])
        ne = len(Rs)
        within = all(gq.eq(gq.block(ov, offs[i], offs[i]), gq.eye(len(offs[i]))) for i in range(ne))
        cross = all(gq.is_zero(gq.block(ov, offs[i], offs[j])) for i in range(ne) for j in range(ne) if i != j)
        kind = "VecSympy" if c["fmt"] == "sympy" else "VecNumpy"
        vec = v.get("vec")
        ev = "(Some (mkEigvecs %s %s %s %s %s %s %s %s %s))" % (
            cb(v["pairs"] or uses_lr(v) or vec in ("len3", "shape_dim", "shape_count")), cb(vec != "len3"),
            cb(vec not in ("shape_dim", "shape_count")), kind, "Yes" if within else "No", "Yes" if cross else "No",
            cb(not implicit), cb(vec != "extra_row"), cb(c["fmt"] != "sympy" and vec != "sparse"))
        if not implicit:
            # what the later tests see: the projected zeroth order L^† H_0 R (block-ordered)
            H0 = gq.mul(gq.mul(gq.adj(L), H0), R)
            bl = [list(r) for r in offs]
            E = [H0[k][k] for k in range(len(H0))]
    else:
        ev = "None"
    indices = v["designation"] == "indices" or v["extra_indices"]
    if cont == "series_objects":
        indices = False
    # zeroth-order blocks
    und = {(d["a"], d["b"]) for d in v["damages"] if d["kind"] == "h0_undecided"}
    off = {}
    for i in range(nb):
        for j in range(nb):
            if i == j:
                continue
            if not block_is_zero(H0, bl[i], bl[j]):
                off[(i, j)] = "BNonzero"
            elif any((a in bl[i] and b in bl[j]) or (a in bl[j] and b in bl[i]) for a, b in und):
                off[(i, j)] = "BUndecided"
    dz = [block_is_zero(H0, bl[i], bl[i]) for i in range(nb)]
    if implicit:
        dz[-1] = False      # the implicit block is a LinearOperator, never the sentinel zero
        shares = None
    diag_zero = "(fun i => match i with %s | _ => false end)" % " ".join("| %d => %s" % (i, cb(z)) for i, z in enumerate(dz))
    # the solver's shared-eigenvalue test: == for sympy right-hand sides, else
    # |a - b| <= atol + 1e-5 |b| with the atol of the call (default 1e-12)
    from .k_sylvdiag import isclose_exact
    atol_call = (v.get("kw") or {}).get("atol", 1e-12)
    same = (lambda x, y: x == y) if c["fmt"] == "sympy" else (lambda x, y: isclose_exact(x, y, atol_call))
    shares = {}
    for i in range(nb - (1 if implicit else 0)):
        for j in range(nb - (1 if implicit else 0)):
            if i != j and any(same(E[a], E[b]) for a in bl[i] for b in bl[j]):
                shares[(i, j)] = "true"
    # Taylor coefficients (expression format): Hermitian or not
    bad_terms = []
    if v["container"] == "expr":
        for k, M in c["H"].items():
            M = gq.dec(M)
            if not gq.eq(M, gq.adj(M)):
                bad_terms.append(gen.unkey(k))
    th = "(fun n => %s)" % ("".join("if lb n [%s] then No else " % "; ".join(map(str, t)) for t in bad_terms) + "Yes")
    ragged = "(fun _ => false)"
    if cont == "blocks_ragged0":
        ragged = "(fun n => lb n [%s])" % "; ".join("0" for _ in range(c["nparam"]))
    if cont == "blocks_ragged1":
        o1 = sorted(gen.unkey(k) for k in c["H"] if sum(gen.unkey(k)) == 1)[0]
        ragged = "(fun n => lb n [%s])" % "; ".join(map(str, o1))
    direct = (v.get("kw") or {}).get("direct_solver", True)
    if cont == "series_nonsquare":
        indices = False
    term = "(mkCall %s %d %s %s %s %s %s %s %s %s %s %s %s %d %s %s false %s %s %s %s)" % (
        fmt, c["nparam"] + (1 if cont == "expr_missing" else 0),
        cb(cont == "expr_missing" or (cont == "expr" and bool(unused_params(v)))), keys, cb(herm), arity, cb(direct), fd,
        cb(preblocked), cb(cont != "series_nonsquare"), ev, cb(indices), cb(c["fmt"] == "sympy"), nb,
        fun2(off, "BZero"), diag_zero, fun2(shares, "false"), th, cb(cont == "series_objects"), ragged)
    # schedule of uses: by construction of the damages
    sched = {1: [], 2: []}
    for d in v["damages"]:
        if d["kind"] in ("shared1", "shared2"):
            first = 1 if d["kind"] == "shared1" else 2
            for n in (1, 2):
                if n >= first:
                    sched[n].append("UsePair %d %d" % (d["p"], d["q"]))
                    if not herm:
                        sched[n].append("UsePair %d %d" % (d["q"], d["p"]))
    if v.get("gap_pair"):
        p_, q_ = v["gap_pair"]
        for n in (1, 2):
            sched[n].append("UsePair %d %d" % (p_, q_))
            if not herm:
                sched[n].append("UsePair %d %d" % (q_, p_))
    if v["solver"] == "one" and any(d["kind"] == "legacy_three_blocks" for d in v["damages"]):
        for n in (1, 2):
            sched[n].append("UsePair 0 2")
    for n in (1, 2):
        for o in orders_of_total(c["nparam"], n):
            sched[n].append("UseTerm [%s]" % "; ".join(map(str, o)))
    cs = "[%s]" % "; ".join("(%d, [%s])" % (n, "; ".join(us)) for n, us in sorted(sched.items()))
    return term, cs


def unused_params(v):
    """parameters that occur in no non-zero term (the sympy-expression format rejects them)."""
    c = v["case"]
    used = set()
    for k, M in c["H"].items():
        if not gq.is_zero(gq.dec(M)):
            used |= {p for p, e in enumerate(gen.unkey(k)) if e}
    return [p for p in range(c["nparam"]) if p not in used]


def intrinsic_defect(v):
    """ill-posedness that the random base problem itself may carry (not a planted damage)."""
    c = v["case"]
    if gq.is_zero(gq.dec(c["H"][zkey(c)])) and v["container"] != "unsupported":
        return "zero_diagonal"
    if v["container"] == "expr" and unused_params(v):
        return "symbols_missing"
    return None


def expected_term(obs):
    if obs["verdict"] == "accept":
        return "(Accept, None)"
    if obs["stage"] == "def":
        return "(Reject %s AtDefinition, None)" % obs["verdict"]
    return "(Reject %s AtFirstUse, Some %d)" % (obs["verdict"], obs["stage"])


# ---------------------------------------------------------------------------
# the stream


def stream(rng, n):
    """yields vcases: ~1/3 well-posed, the rest one damage each (all classes, positions and
    value types cycled), some with two damages (to observe the order of the tests)."""
    combos = [["solver_fd", "mask_asym"], ["solver_fd", "h0_offdiag"], ["legacy_nonherm", "h0_offdiag"],
              ["unsupported_type", "solver_fd"], ["biorth", "vecs_and_indices"], ["h0_offdiag", "shared1"],
              ["mask_asym", "shared1"], ["fd_array_blocks", "h0_offdiag"], ["herm_pairs", "biorth"]]
    out = []
    fmts = ["sympy", "dense", "sparse"]
    grid = [(d, f) for d in DAMAGES + sorted(STRUCT) for f in fmts]
    rng.shuffle(grid)
    k = 0
    g = 0
    while len(out) < n:
        k += 1
        u = k % 10
        if u in (0, 1, 2):
            dm, fmt = [], rng.choice(fmts)
            if rng.random() < 0.35:
                dm = [rng.choice(sorted(NOTES))]
        elif u == 9:
            dm, fmt = rng.choice(combos), rng.choice(fmts)
        else:
            d, fmt = grid[g % len(grid)]
            g += 1
            dm = [d]
        try:
            v = make_vcase(rng, dm, fmt=fmt)
        except (ValueError, IndexError, RuntimeError):
            v = None
        if v is not None:
            out.append(v)
    return out + offdiag_grid(rng)


def summary(v):
    return "+".join(d["kind"] for d in v["damages"]) or ("wellposed:" + v["note"] if v.get("note") else "wellposed")


def tie_validate(ctx, ncases=None):
    n = ncases or ctx.n(220, 2000)
    vs = stream(ctx.rng, n)
    terms, obss, dist, disagreements = [], [], {}, []
    kept = []
    for v in vs:
        obs = observe(v)
        key = "%s/%s/%s" % (summary(v), v["case"]["fmt"], obs["verdict"] + ("@%s" % obs["stage"] if obs["stage"] is not None else ""))
        dist[key] = dist.get(key, 0) + 1
        if obs["verdict"].startswith("Other"):
            disagreements.append(dict(what="exception class outside the model: %s (%s)" % (obs["verdict"], obs.get("msg")), input=v, impl=obs, model=None))
            continue
        call, sched = abstract(v)
        terms.append("life_eqb (life %s %s) %s" % (call, sched, expected_term(obs)))
        obss.append(obs)
        kept.append(v)
    for v, obs in zip(kept, obss):
        if obs.get("repeat") and "value" in obs["repeat"]:
            # the model's lazy tests are stateless (on_first_use; C16_diagonal_shared_rejected: the
            # closure state is unchanged by a rejection): every repetition is rejected again
            disagreements.append(dict(what="model rejects every use (%s); the implementation returned a value when the failing request %s was repeated: %s"
                                      % (summary(v), obs.get("element"), obs["repeat"]), input=v, impl=obs, model="Reject at every use"))
    failing = core.coq_eval_cases("k_validate", HEADER, terms, shard=150)
    for idx in failing:
        disagreements.append(dict(what="validation model and block_diagonalize disagree (%s)" % summary(kept[idx]), input=kept[idx], impl=obss[idx],
                                  model="Coq term evaluates to false: " + terms[idx][:1800]))
    nt = {core.canon(v) for v in kept if v["damages"]}
    return dict(cases=len(kept), nontrivial=len(nt), rule="distinct damaged inputs (an ill-posed class embedded in a random valid problem); the rest are well-posed inputs that must be accepted",
                samples=[dict(input=kept[i], impl=obss[i]) for i in range(min(3, len(kept)))], distribution=dist, disagreements=disagreements)
