"""Correspondence harness + implementation oracle for C10 (history independence, no mutation).

Model level (tie_schedules): the shipped algorithms through series_computation (exact 2x2
rational blocks): for a small set of requests over H_tilde / U / U† every permutation, with
repetitions, is run on a fresh computation; the sequence of observations is compared with the
Coq evaluator (DSL/Exec.v) and every request must give the same value in every permutation.
Two computations built from the SAME input objects are interleaved as well (implementation).

Implementation level (oracle_schedules_bd): block_diagonalize (Hermitian with and without
masks, non-Hermitian; sympy and read-only numpy inputs from harness/gen.py): random schedules
with repetitions and slice requests versus fresh single-element computations; every input
array and every returned array is made read-only and deep-copied, and compared at the end.
"""
import copy
import itertools
import sys

from vlib import core

sys.path.insert(0, str(core.REPO))
from harness import k_seriescomp as KS  # noqa: E402
from harness import proggen as PG  # noqa: E402

HEADER = KS.HEADER
OUTS = ["H_tilde", "U", "U†"]


def tie_schedules(ctx):
    rng = ctx.rng
    ship = KS.shipped_programs()
    terms, owners, failures = [], [], []
    cases = nontrivial = 0
    for k in range(ctx.n(8, 80)):
        p = ship[k % 2]
        w = KS.shipped_world(rng, p["name"], max_order=2)
        w["extra_scope"] = KS.shipped_scope(w)
        w["extra_scope"]["solve_sylvester"] = PG.scope_functions()["f_lmul"]
        orders = KS.all_orders(w["np"], 2)
        reqs = [("tab", rng.choice(OUTS + (["X", "B"] if rng.random() < 0.3 else [])),
                 (rng.randrange(w["nb"]), rng.randrange(w["nb"])) + tuple(rng.choice(orders))) for _ in range(3)]
        perms = list(itertools.permutations(reqs))
        perms += [tuple(rng.choice(reqs) for _ in range(5)) for _ in range(2)]
        inp = dict(shipped=p["name"], world=PG.world_to_json(w), requests=[[r[0], r[1], list(r[2])] for r in reqs])
        ref = {}
        for r in reqs:
            series, _, _ = KS.build(p, p["fn"], w)
            ref[r] = KS.observe(series, r)
        js = KS.rename_solver(p["json"])
        alg, cfg = PG.coq_alg(js), KS.world_cfg(p, w)
        for sched in perms:
            series, _, _ = KS.build(p, p["fn"], w)
            obs = [KS.observe(series, r) for r in sched]
            cases += 1
            if any(sum(r[2][2:]) >= 2 for r in sched):
                nontrivial += 1
            for r, o in zip(sched, obs):
                if o != ref[r]:
                    failures.append(dict(what="value of %s%s depends on the request history" % (r[1], list(r[2])),
                                         input=dict(inp, schedule=[[x[0], x[1], list(x[2])] for x in sched])))
            terms.append("check_schedule %d %s %s 0 %s %s" % (KS.EXEC_FUEL, alg, cfg,
                         "[" + "; ".join(PG.creq(*r) for r in sched) + "]", "[" + "; ".join(PG.cobs(o) for o in obs) + "]"))
            owners.append(dict(inp, schedule=[[x[0], x[1], list(x[2])] for x in sched]))
        # slice / list requests on every series name (deletable intermediates and products included), interleaved
        # with scalar requests: every element equals the scalar request on a fresh computation, nothing raises
        sS, _, _ = KS.build(p, p["fn"], w)
        shape_hint = (w["nb"], w["nb"]) + (5,) * w["np"]
        for name, spec in KS.random_multi_requests(rng, sorted(sS.keys()), w["nb"], w["np"], 4):
            o, elems = KS.observe_multi(sS, name, spec, shape_hint)
            fresh, _, _ = KS.build(p, p["fn"], w)
            scal = [KS.observe(fresh, ("tab", name, e)) for e in elems]
            scal_exn = [x for x in scal if isinstance(x, tuple) and x and x[0] == "exn"]
            minp = dict(shipped=p["name"], source=None, world=PG.world_to_json(w), multi_request=[name, spec])
            cases += 1
            if o[0] == "exn" and not scal_exn:
                failures.append(dict(what="the multi-element request %s%s raised %s although every element can be requested one at a time" % (name, spec, o[1]), input=minp))
            elif o[0] != "exn" and not scal_exn and list(o[1]) != scal:
                failures.append(dict(what="the multi-element request %s%s differs from the scalar requests on a fresh computation" % (name, spec), input=minp))
            KS.observe(sS, rng.choice(reqs))
        # two computations sharing the same input objects, interleaved
        sA, _, inputs = KS.build(p, p["fn"], w)
        from pymablock.algorithm_parsing import series_computation

        scope = dict(PG.scope_functions(custom_diag=w["diag_custom"], with_offdiag=w["hasoff"]))
        scope.update(w["extra_scope"])
        sB, _ = series_computation(dict(inputs), p["fn"], scope=scope)
        for r in perms[1] + perms[2]:
            for s in (sA, sB):
                if KS.observe(s, r) != ref[r]:
                    failures.append(dict(what="value of %s%s differs between computations sharing their inputs" % (r[1], list(r[2])), input=inp))
    bad = core.coq_eval_cases("k_schedules", HEADER, terms, shard=12, timeout=1500, jobs=16)
    disagreements = [dict(what="observations of a request schedule differ from the Coq model", input=owners[i]) for i in bad]
    disagreements += [dict(what="(implementation) " + f["what"], input=f["input"]) for f in failures]
    return dict(cases=cases, nontrivial=nontrivial, rule="schedules (permutations / repetitions) containing a request at total order >= 2",
                samples=owners[:1], distribution={}, disagreements=disagreements, impl_failures=failures)


# ------------------------------------------------------------------ block_diagonalize level


def _freeze(v):
    import numpy as np

    if isinstance(v, np.ndarray):
        try:
            v.flags.writeable = False
        except ValueError:
            pass
    return v


def _canon(v):
    import numpy as np
    import sympy
    from pymablock.series import one, zero

    if v is zero or type(v).__name__ == "Zero":  # deep copies of the sentinels are new objects
        return "zero"
    if v is one or type(v).__name__ == "One":
        return "one"
    if isinstance(v, np.ma.MaskedArray):
        return [_canon(x) for x in v.filled(zero).reshape(-1)]
    if isinstance(v, sympy.MatrixBase):
        return ("M", v.shape, tuple(str(sympy.expand(sympy.nsimplify(x))) for x in v))
    if isinstance(v, np.ndarray) and v.dtype == object:
        return [_canon(x) for x in v.reshape(-1)]
    if hasattr(v, "toarray"):
        v = v.toarray()
    a = np.array(v)
    return ("A", a.shape, a.astype(complex).tobytes())


def bd_run(case):
    import warnings
    from harness import implrun
    from pymablock import block_diagonalize

    H = implrun.build_input(case)
    for v in H.values():
        _freeze(v)
    kw = dict(subspace_indices=case["sub"], fully_diagonalize=implrun.build_fully(case), hermitian=case["hermitian"])
    if case.get("solver1"):
        # third solver flavour: user solver with the deprecated ONE-argument signature (two blocks, Hermitian)
        import numpy as np
        from harness import gen, gq
        from pymablock.block_diagonalization import solve_sylvester_diagonal

        M = gq.dec(case["H"][gen.key((0,) * case["nparam"])])
        E = [float(M[k][k].re) for k in range(len(case["sub"]))]
        eigs = tuple(np.array([E[k] for k in range(len(E)) if case["sub"][k] == b]) for b in (0, 1))
        base = solve_sylvester_diagonal(eigs)
        kw["solve_sylvester"] = lambda Y: base(Y, (0, 1))
    with warnings.catch_warnings():
        warnings.simplefilter("ignore")
        res = block_diagonalize(dict(H), **kw)
    return H, dict(zip(OUTS, res))


def bd_check(case, sched):
    """sched: list of (name, index tuple possibly with slices encoded as ['s', stop])"""
    import warnings

    def dec(ix):
        return tuple(slice(None, x[1]) if isinstance(x, list) else x for x in ix)

    H, out = bd_run(case)
    Hcopy = {k: copy.deepcopy(v) for k, v in H.items()}
    returned = []
    with warnings.catch_warnings():
        warnings.simplefilter("ignore")
        for name, ix in sched:
            try:
                v = out[name][dec(ix)]
            except Exception as e:  # noqa: BLE001
                returned.append((name, ix, ("exn", PG.exn_class(e)), None, None))
                continue
            if hasattr(v, "reshape") and getattr(v, "dtype", None) == object:
                for x in v.reshape(-1):
                    _freeze(x)
            _freeze(v)
            returned.append((name, ix, _canon(v), v, copy.deepcopy(v)))
        # fresh computation for every request
        for name, ix, c, v, vc in returned:
            _, fresh = bd_run(case)
            try:
                f = _canon(fresh[name][dec(ix)])
            except Exception as e:  # noqa: BLE001
                f = ("exn", PG.exn_class(e))
            if f != c:
                return "value of %s%s differs from a fresh computation" % (name, ix)
        for name, ix, c, v, vc in returned:
            if v is not None and _canon(v) != _canon(vc):
                return "a value already returned (%s%s) was modified later" % (name, ix)
        for k in H:
            if _canon(H[k]) != _canon(Hcopy[k]):
                return "an input array was modified"
    return None


def oracle_schedules_bd(ctx):
    from harness import gen

    rng = ctx.rng
    evaluations = nontrivial = 0
    failures, samples = [], []
    for k in range(ctx.n(20, 300)):
        herm = rng.random() < 0.65
        case = gen.random_case(rng, hermitian=herm, fmt=rng.choice(["sympy", "dense"]), max_blocks=2, max_size=2, max_params=2, N=2)
        if k == 0:
            # always one THREE-block problem with the one-argument solver: the wrapped solver refuses every block
            # other than (0,1) with a ValueError, which has to be the same whatever the history
            for _ in range(200):
                case = gen.random_case(rng, hermitian=True, fmt="dense", max_blocks=3, max_size=2, max_params=1, N=2,
                                       allow_fully=False, allow_mask=False)
                if max(case["sub"]) == 2:
                    break
            herm = True
        nb = max(case["sub"]) + 1
        case["solver1"] = bool(herm and case["fmt"] == "dense" and case["fully"] is None and ((nb == 2 and rng.random() < 0.5) or (k == 0 and nb == 3)))
        npar = case["nparam"]
        orders = KS.all_orders(npar, 2)
        base = [(rng.choice(OUTS), (rng.randrange(nb), rng.randrange(nb)) + tuple(rng.choice(orders))) for _ in range(3)]
        sched = [rng.choice(base) for _ in range(5)]
        if npar == 1:
            sched.insert(rng.randrange(len(sched)), (rng.choice(OUTS), (rng.randrange(nb), rng.randrange(nb), ["s", 3])))
        sched = [(n, [x if isinstance(x, list) else int(x) for x in ix]) for n, ix in sched]
        evaluations += 1
        if any(not isinstance(x, list) and i >= 2 and x >= 2 for n, ix in sched for i, x in enumerate(ix)) or npar == 1:
            nontrivial += 1
        try:
            what = bd_check(case, sched)
        except (ValueError, NotImplementedError):
            continue  # ill-posed generated problem rejected by the front end
        if what:
            failures.append(dict(what=what, input=dict(level="block_diagonalize", case=case, schedule=sched)))
        if len(samples) < 1:
            samples.append(dict(case=case, schedule=sched))
    return dict(evaluations=evaluations, nontrivial=nontrivial,
                rule="block_diagonalize schedules with repetitions and a slice request or an order-2 request",
                samples=samples, failures=failures)


# ------------------------------------------------------------------ caller-built BlockSeries from a dict the caller keeps


def cd_problem(rng):
    """exact 2-block problem given as a dictionary (i, j, *orders) -> block, as a caller would keep it"""
    from fractions import Fraction as Fr

    npar = rng.choice([1, 1, 2])
    n0, n1 = rng.choice([(1, 1), (1, 2), (2, 2)])
    sizes = [n0, n1]
    E = [sorted(rng.sample(range(-4, 1), n0)), sorted(rng.sample(range(3, 9), n1))]

    def herm_full():
        N = n0 + n1
        a = [[Fr(rng.randint(-3, 3), rng.choice([1, 2, 3])) for _ in range(N)] for _ in range(N)]
        return [[a[i][j] + a[j][i] for j in range(N)] for i in range(N)]

    def blocks(order, full):
        off = [0, n0]
        out = {}
        for i in range(2):
            for j in range(2):
                out[",".join(map(str, (i, j) + order))] = [[str(full[off[i] + a][off[j] + b]) for b in range(sizes[j])] for a in range(sizes[i])]
        return out

    data = {}
    zero_o = (0,) * npar
    for i in range(2):
        data[",".join(map(str, (i, i) + zero_o))] = [[str(E[i][a]) if a == b else "0" for b in range(sizes[i])] for a in range(sizes[i])]
    for k in range(npar):
        data.update(blocks(tuple(1 if q == k else 0 for q in range(npar)), herm_full()))
    lazy = {}
    for o in ([(2,)] if npar == 1 else [(1, 1), (2, 0)]):
        if rng.random() < 0.8:
            lazy.update(blocks(o, herm_full()))
    return dict(npar=npar, sizes=sizes, data=data, lazy=lazy)


def _cd_dict(tab):
    import sympy

    return {tuple(int(x) for x in k.split(",")): sympy.Matrix([[sympy.Rational(x) for x in row] for row in v]) for k, v in tab.items()}


def _cd_series(prob, data, with_eval):
    from pymablock.series import BlockSeries, zero

    lazy = _cd_dict(prob["lazy"])

    def ev(*idx):
        return lazy.get(tuple(int(i) for i in idx), zero)

    return BlockSeries(eval=ev if with_eval else None, data=data, shape=(2, 2), n_infinite=prob["npar"])


def _cd_snapshot(d):
    return {k: _canon(v) for k, v in d.items()}


def _cd_get(outs, name, ix):
    import warnings

    with warnings.catch_warnings():
        warnings.simplefilter("ignore")
        try:
            return _canon(dict(zip(OUTS, outs))[name][tuple(slice(None, x[1]) if isinstance(x, list) else x for x in ix)])
        except Exception as e:  # noqa: BLE001
            return ("exn", PG.exn_class(e))


def cd_check(prob, sched):
    """sched: list of (computation number, name, index).  Computations: 0 = A (dict only), 1 = B (same dict object,
    plus an eval for further terms), 2 = C and 3 = D (two computations built from ONE BlockSeries object)"""
    import warnings
    from pymablock import block_diagonalize

    with warnings.catch_warnings():
        warnings.simplefilter("ignore")
        mine = _cd_dict(prob["data"])
        before = _cd_snapshot(mine)
        A = block_diagonalize(_cd_series(prob, mine, False))
        B = block_diagonalize(_cd_series(prob, mine, True))
        shared = _cd_series(prob, _cd_dict(prob["data"]), True)
        C = block_diagonalize(shared)
        D = block_diagonalize(shared)
        comps = [A, B, C, D]
        evalness = [False, True, True, True]
        if _cd_snapshot(mine) != before:
            return "defining the computation modified the caller's dictionary of Hamiltonian terms"
        for (c, name, ix) in sched:
            got = _cd_get(comps[c], name, ix)
            fresh = block_diagonalize(_cd_series(prob, _cd_dict(prob["data"]), evalness[c]))
            ref = _cd_get(fresh, name, ix)
            if got != ref:
                return "computation %d: value of %s%s differs from a fresh computation built from an independent copy of the dictionary" % (c, name, ix)
            after = _cd_snapshot(mine)
            if after != before:
                extra = sorted(set(after) - set(before))
                return "the caller's dictionary of Hamiltonian terms was modified by a request (%s)" % (("new keys %s" % extra[:3]) if extra else "values changed")
    return None


def oracle_caller_dict(ctx):
    rng = ctx.rng
    evaluations = nontrivial = 0
    failures, samples = [], []
    for _ in range(ctx.n(12, 150)):
        prob = cd_problem(rng)
        orders = KS.all_orders(prob["npar"], 2)
        sched = []
        for _ in range(7):
            ix = [rng.randrange(2), rng.randrange(2)] + list(rng.choice(orders))
            if prob["npar"] == 1 and rng.random() < 0.25:
                ix = ix[:2] + [["s", 3]]
            sched.append((rng.randrange(4), rng.choice(OUTS), ix))
        evaluations += 1
        nontrivial += 1
        try:
            what = cd_check(prob, sched)
        except (ValueError, NotImplementedError):
            continue
        if what:
            failures.append(dict(what=what, input=dict(level="caller_dict", problem=prob, schedule=[list(x) for x in sched])))
        if len(samples) < 1:
            samples.append(dict(problem=prob, schedule=sched))
    return dict(evaluations=evaluations, nontrivial=nontrivial,
                rule="Hamiltonians given as caller-built BlockSeries(data=<dict the caller keeps>): 4 computations (2 from one dict object, 2 from one BlockSeries object), interleaved requests up to order 2 incl. slices, each compared with a fresh computation; the caller's dict compared with its deep copy after every request",
                samples=samples, failures=failures)


# ------------------------------------------------------------------ user-built products over the outputs


def up_check(case, sched):
    """block_diagonalize, then products built by the user with the public cauchy_dot_product over the outputs
    (H_tilde, U, U†): "UdU" = U† @ U (hermitian=True), "UdU_plain" (hermitian=False), "UHU" = U @ H_tilde @ U†
    (3 factors, hermitian=True), "UHU_plain".  Requests over outputs and products are interleaved; every array
    ever returned is frozen and deep-copied and re-compared after EVERY later request; at the end every request is
    compared with a fresh computation."""
    import warnings
    from pymablock.series import cauchy_dot_product

    def build():
        H, out = bd_run(case)
        H_t, U, Ud = out["H_tilde"], out["U"], out["U†"]
        objs = dict(out)
        objs["UdU"] = cauchy_dot_product(Ud, U, hermitian=True)
        objs["UdU_plain"] = cauchy_dot_product(Ud, U, hermitian=False)
        objs["UHU"] = cauchy_dot_product(U, H_t, Ud, hermitian=True)
        objs["UHU_plain"] = cauchy_dot_product(U, H_t, Ud)
        return H, objs

    def get(objs, name, ix):
        try:
            return objs[name][tuple(ix)], None
        except Exception as e:  # noqa: BLE001
            return None, ("exn", PG.exn_class(e))

    with warnings.catch_warnings():
        warnings.simplefilter("ignore")
        H, objs = build()
        Hcopy = {k: copy.deepcopy(v) for k, v in H.items()}
        returned = []
        for name, ix in sched:
            v, err = get(objs, name, ix)
            if err is None:
                _freeze(v)
                returned.append((name, ix, _canon(v), v, copy.deepcopy(v)))
            else:
                returned.append((name, ix, err, None, None))
            for n0, i0, c0, v0, vc0 in returned:
                if v0 is not None and _canon(v0) != _canon(vc0):
                    return "a value already returned (%s%s) was modified by the later request %s%s" % (n0, i0, name, ix)
        for name, ix, c, v, vc in returned:
            _, fresh = build()
            fv, ferr = get(fresh, name, ix)
            f = _canon(fv) if ferr is None else ferr
            if f != c:
                return "value of %s%s differs from a fresh computation" % (name, ix)
        for k in H:
            if _canon(H[k]) != _canon(Hcopy[k]):
                return "an input array was modified"
    return None


def oracle_user_products(ctx):
    from harness import gen

    rng = ctx.rng
    evaluations = nontrivial = 0
    failures, samples = [], []
    names = OUTS + ["UdU", "UdU", "UdU_plain", "UHU", "UHU_plain"]
    for k in range(ctx.n(14, 200)):
        case = gen.random_case(rng, hermitian=True, fmt=rng.choice(["dense", "dense", "dense", "sympy"]), max_blocks=2, max_size=2,
                               max_params=2, N=2, allow_fully=False, allow_mask=False)
        nb = max(case["sub"]) + 1
        case["solver1"] = bool(nb == 2 and case["fmt"] == "dense" and rng.random() < 0.4)
        orders = KS.all_orders(case["nparam"], 2 if (case["nparam"] == 2 or case["fmt"] == "sympy") else 3)
        sched = []
        for _ in range(6):
            name = rng.choice(names)
            i = rng.randrange(nb)
            j = i if (name.startswith("U") and rng.random() < 0.7) else rng.randrange(nb)
            sched.append((name, [i, j] + [int(x) for x in rng.choice(orders)]))
        # outputs first at low order, then the products, then outputs again
        sched = [("U", [0, 0] + [int(x) for x in orders[-1]]), ("U†", [0, 0] + [int(x) for x in orders[-1]])] + sched
        evaluations += 1
        if any(sum(ix[2:]) >= 2 for _, ix in sched):
            nontrivial += 1
        try:
            what = up_check(case, sched)
        except (ValueError, NotImplementedError) as e:
            if "read-only" in str(e):
                what = "an evaluation tried to write into an array already handed to the caller (%s)" % e
            else:
                continue
        if what:
            failures.append(dict(what=what, input=dict(level="user_products", case=case, schedule=[list(x) for x in sched])))
        if len(samples) < 1:
            samples.append(dict(case=case, schedule=sched))
    return dict(evaluations=evaluations, nontrivial=nontrivial,
                rule="block_diagonalize + user-built cauchy_dot_product over the outputs (hermitian and not, 2 and 3 factors) with a request at total order >= 2",
                samples=samples, failures=failures)


# ------------------------------------------------------------------ second-quantised problems with an elimination mask


def sqm_problem(rng):
    """scalar second-quantised Hamiltonian, two perturbative parameters, partial elimination mask
    (`fully_diagonalize`) that may contain an operator absent from H_0"""
    return dict(wb=rng.choice([2, 3, 5]), wa=rng.choice([None, None, 7]),
                t1=rng.choice(["b2", "xb", "b2"]), t2=rng.choice(["hopNaNb", "hop", "hopNaNb"]),
                mask=rng.choice(["hop", "hop", "hop_b2"]), c1=rng.choice(["1", "1/2", "2/3"]), c2=rng.choice(["1", "3/2", "1/3"]))


def sqm_build(prob):
    import warnings
    import sympy
    from sympy.physics.quantum import Dagger
    from sympy.physics.quantum.boson import BosonOp
    from pymablock import block_diagonalize
    from pymablock.number_ordered_form import NumberOperator

    a, b = BosonOp("a"), BosonOp("b")
    l1, l2 = sympy.symbols("lambda_1 lambda_2", positive=True)
    Nb = NumberOperator(b)
    hop = a * Dagger(b) + Dagger(a) * b
    t1 = {"b2": b**2 + Dagger(b) ** 2, "xb": b + Dagger(b)}[prob["t1"]]
    t2 = {"hopNaNb": hop + Dagger(a) * a * Nb, "hop": hop}[prob["t2"]]
    mask = {"hop": hop, "hop_b2": hop + b**2 + Dagger(b) ** 2}[prob["mask"]]
    H = prob["wb"] * Nb + (prob["wa"] * Dagger(a) * a if prob["wa"] else 0) \
        + sympy.Rational(prob["c1"]) * l1 * t1 + sympy.Rational(prob["c2"]) * l2 * t2
    with warnings.catch_warnings():
        warnings.simplefilter("ignore")
        return block_diagonalize(H, symbols=[l1, l2], fully_diagonalize=mask), H, mask


def sqm_same(x, y):
    import sympy
    from pymablock.number_ordered_form import NumberOrderedForm
    from pymablock.series import one, zero

    if x is zero or y is zero or x is one or y is one:
        if x is y:
            return True
        if x is one or y is one:
            return False
        x = sympy.S.Zero if x is zero else x
        y = sympy.S.Zero if y is zero else y
    d = NumberOrderedForm.from_expr(sympy.sympify(x) - sympy.sympify(y))
    return all(sympy.simplify(c) == 0 for c in d.terms.values())


SQM_ORDERS = ((1, 0), (0, 1), (1, 1))


def sqm_check(prob, pairs):
    """pairs: list of ((series, order), (series, order)) = (requested first, target)"""
    import sympy

    def get(outs, el):
        try:
            return outs[el[0]][(0, 0) + tuple(el[1])]
        except Exception as e:  # noqa: BLE001
            return ("exn", type(e).__name__)

    def eq(x, y):
        if isinstance(x, tuple) or isinstance(y, tuple):
            return x == y
        return sqm_same(x, y)

    outs0, H0, mask0 = sqm_build(prob)
    mask_before, H_before = sympy.srepr(mask0), sympy.srepr(H0)
    fresh = {}
    for first, target in pairs:
        for el in (first, target):
            key = (el[0], tuple(el[1]))
            if key not in fresh:
                fresh[key] = get(sqm_build(prob)[0], el)
        outs, H, mask = sqm_build(prob)
        handed = get(outs, first)
        value = get(outs, target)
        if not eq(value, fresh[(target[0], tuple(target[1]))]):
            return "%s%s requested after %s%s differs from a fresh computation" % (OUTS[target[0]], list(target[1]), OUTS[first[0]], list(first[1]))
        if not eq(handed, fresh[(first[0], tuple(first[1]))]) or not eq(get(outs, first), fresh[(first[0], tuple(first[1]))]):
            return "%s%s changed after requesting %s%s" % (OUTS[first[0]], list(first[1]), OUTS[target[0]], list(target[1]))
        if sympy.srepr(mask) != sympy.srepr(mask0) or sympy.srepr(H) != H_before:
            return "the caller's Hamiltonian / mask expressions were modified"
    if sympy.srepr(mask0) != mask_before:
        return "the caller's mask expression was modified"
    return None


def oracle_sq_masked(ctx):
    rng = ctx.rng
    evaluations = nontrivial = 0
    failures, samples = [], []
    elements = [(w, o) for w in range(3) for o in SQM_ORDERS]
    allpairs = [(f, t) for f in elements for t in elements if f != t]
    for k in range(ctx.n(3, 20)):
        prob = sqm_problem(rng)
        pairs = rng.sample(allpairs, ctx.n(10, 72))
        if k == 0:
            # always: the mask operator a does not occur in H_0, and a first-parameter request precedes a
            # second-parameter target (and the other way round)
            prob.update(wa=None, t2="hopNaNb", mask="hop")
            pairs = [((1, (1, 0)), (0, (0, 1))), ((0, (0, 1)), (2, (1, 0))), ((0, (1, 0)), (1, (0, 1))), ((2, (1, 1)), (0, (0, 1)))] + pairs
        evaluations += len(pairs)
        nontrivial += len(pairs)
        try:
            what = sqm_check(prob, pairs)
        except (ValueError, NotImplementedError) as e:
            samples.append(dict(problem=prob, rejected=str(e)[:120]))
            continue
        if what:
            failures.append(dict(what=what, input=dict(level="sq_masked", problem=prob,
                                                       pairs=[[[f[0], list(f[1])], [t[0], list(t[1])]] for f, t in pairs])))
        if len(samples) < 1:
            samples.append(dict(problem=prob, pairs=len(pairs)))
    return dict(evaluations=evaluations, nontrivial=nontrivial,
                rule="second-quantised scalar problems with a partial elimination mask, two parameters: ordered pairs (first request, target) over {H_tilde, U, U†} x {(1,0), (0,1), (1,1)} vs fresh single-request computations, exact symbolic comparison",
                samples=samples, failures=failures)


# ------------------------------------------------------------------ dict inputs must stay untouched (objects and content)

DI_FORMATS = ["coo_matrix", "csc_matrix", "csr_matrix", "dia_matrix", "coo_array", "csc_array", "csr_array", "dia_array",
              "dense", "sympy"]


def di_problem(rng, fmt):
    npar = rng.choice([1, 2, 3])
    n0, n1 = rng.choice([(1, 1), (1, 2), (2, 2)])
    E = sorted(rng.sample(range(0, 5), n0)) + sorted(rng.sample(range(7, 14), n1))
    N = n0 + n1
    terms = {}
    for k in range(npar):
        a = [[rng.randint(-2, 2) for _ in range(N)] for _ in range(N)]
        terms[",".join("1" if q == k else "0" for q in range(npar))] = [[a[i][j] + a[j][i] for j in range(N)] for i in range(N)]
    return dict(npar=npar, sizes=[n0, n1], E=E, terms=terms, fmt=fmt, pert_same_format=rng.random() < 0.5)


def di_build(prob):
    import numpy as np
    import scipy.sparse as sp
    import sympy

    def conv(m, fmt):
        m = np.array(m, dtype=float)
        if fmt == "dense":
            return m
        if fmt == "sympy":
            return sympy.Matrix(m).applyfunc(sympy.nsimplify)
        return getattr(sp, fmt)(m)

    npar = prob["npar"]
    d = {(0,) * npar: conv(np.diag(prob["E"]), prob["fmt"])}
    for k, v in prob["terms"].items():
        pf = prob["fmt"] if (prob["pert_same_format"] or prob["fmt"] == "sympy") else "dense"
        d[tuple(int(x) for x in k.split(","))] = conv(v, pf)
    return d


def di_snapshot(d):
    import numpy as np

    def content(v):
        if hasattr(v, "toarray"):
            return (type(v).__name__, getattr(v, "format", None), v.shape, np.asarray(v.toarray()).tobytes())
        return (type(v).__name__, None, tuple(v.shape), _canon(v))

    return [(k, id(v), content(v)) for k, v in d.items()]


def di_check(prob, reqs):
    import warnings
    from pymablock import block_diagonalize

    d = di_build(prob)
    keep = dict(d)  # keeps the value objects alive, so that ids identify them
    before = di_snapshot(d)

    def changed():
        after = di_snapshot(d)
        if [k for k, _, _ in after] != [k for k, _, _ in before]:
            return "the keys of the caller's dictionary changed"
        for (k, i0, c0), (_, i1, c1) in zip(before, after):
            if i0 != i1:
                return "the entry %s of the caller's dictionary was replaced by another object (%s -> %s)" % (k, c0[:2], c1[:2])
            if c0 != c1:
                return "the entry %s of the caller's dictionary was modified" % (k,)
        return None

    with warnings.catch_warnings():
        warnings.simplefilter("ignore")
        n0, n1 = prob["sizes"]
        out = block_diagonalize(d, subspace_indices=[0] * n0 + [1] * n1)
        what = changed()
        if what:
            return "defining the block diagonalization: " + what
        for (s, ix) in reqs:
            out[s][tuple(ix)]
            what = changed()
            if what:
                return "after requesting %s%s: %s" % (OUTS[s], list(ix), what)
    del keep
    return None


def oracle_dict_inputs(ctx):
    rng = ctx.rng
    evaluations = 0
    failures, samples = [], []
    for rep in range(ctx.n(1, 6)):
        for fmt in DI_FORMATS:
            prob = di_problem(rng, fmt)
            reqs = [(rng.randrange(3), [rng.randrange(2), rng.randrange(2)] + [rng.choice([0, 1, 2])] + [0] * (prob["npar"] - 1)) for _ in range(3)]
            evaluations += 1
            try:
                what = di_check(prob, reqs)
            except (ValueError, NotImplementedError, TypeError) as e:
                samples.append(dict(problem=prob["fmt"], rejected=str(e)[:100]))
                continue
            if what:
                failures.append(dict(what=what, input=dict(level="dict_inputs", problem=prob, requests=[[r[0], r[1]] for r in reqs])))
    return dict(evaluations=evaluations, nontrivial=evaluations,
                rule="Hamiltonian given as a dict with order-tuple keys (1-3 parameters), zeroth order in every scipy sparse format (matrix and array), dense and sympy: same keys, same value objects, same type/format/content after definition and after every request",
                samples=samples[:3], failures=failures)


def replay_input(inp):
    if inp.get("level") == "dict_inputs":
        return di_check(inp["problem"], [(r[0], r[1]) for r in inp["requests"]])
    if "multi_request" in inp:
        return KS.replay_multi(inp)
    if inp.get("level") == "sq_masked":
        return sqm_check(inp["problem"], [((f[0], tuple(f[1])), (t[0], tuple(t[1]))) for f, t in inp["pairs"]])
    if inp.get("level") == "user_products":
        try:
            return up_check(inp["case"], [(n, ix) for n, ix in inp["schedule"]])
        except ValueError as e:
            return "an evaluation tried to write into an array already handed to the caller (%s)" % e
    if inp.get("level") == "caller_dict":
        return cd_check(inp["problem"], [tuple(x) for x in inp["schedule"]])
    if inp.get("level") == "block_diagonalize":
        return bd_check(inp["case"], [(n, ix) for n, ix in inp["schedule"]])
    p = [q for q in KS.shipped_programs() if q["name"] == inp["shipped"]][0]
    w = PG.world_from_json(inp["world"])
    w["extra_scope"] = KS.shipped_scope(w)
    w["extra_scope"]["solve_sylvester"] = PG.scope_functions()["f_lmul"]
    sched = [(r[0], r[1], tuple(r[2])) for r in inp.get("schedule", inp["requests"])]
    series, _, _ = KS.build(p, p["fn"], w)
    for r in sched:
        fresh, _, _ = KS.build(p, p["fn"], w)
        if KS.observe(series, r) != KS.observe(fresh, r):
            return "value of %s%s depends on the request history" % (r[1], list(r[2]))
    return None
