"""Correspondence harness for C19: the Coq model of BlockSeries.__getitem__ / __contains__ / pop
(PySeries/GetItem.v on top of Cache.v and Index.v) versus the implementation.

A case = one or two base series (finite shapes () .. (3,3), 0-3 infinite dimensions) whose eval is a
logging table: distinct tagged integers, `zero` on a sparsity pattern, occasionally `one`, raising
elements (RuntimeError / ValueError / KeyboardInterrupt), self-referential and mutually recursive
elements; some elements pre-filled in `data=`; and a script of requests generated while running:
`series[item]` with integers (incl. negative finite ones), lists, slices, mixed, finite-only items
(views, which become new series that later requests may address), malformed items (wrong arity,
slice(None), negative orders, out of bounds, lists that do not broadcast), `in`, `pop`.
Compared: every observation (scalar / array shape + values + mask / view shape / exception class /
bool / popped value), the ordered eval call log and the final cache key sets."""
import sys
import itertools

from vlib import core

sys.path.insert(0, str(core.REPO))
import numpy as np  # noqa: E402

from .k_cauchydot import cz, cnat, clist, cidx, cexn  # noqa: E402
from .k_npindex import citem, py_item  # noqa: E402

HEADER = (
    "Require Import List ZArith Bool Arith.\nImport ListNotations.\n"
    "Require Import PV.PySeries.Sentinel PV.PySeries.Cache PV.PySeries.Index PV.PySeries.GetItem PV.PySeries.HarnessLib.\n"
)

RAISE = {"RuntimeError": RuntimeError, "ValueError": ValueError, "KeyboardInterrupt": KeyboardInterrupt}


def cx(v):
    """element: 'zero' | 'one' | int tag"""
    if v == "zero":
        return "SZero"
    if v == "one":
        return "SOne"
    return "(SVal %s)" % cz(v)


def cbval(v):
    return "(BElem %s)" % cx(v)


def caction(a):
    if a[0] == "val":
        return "(AVal %s)" % cx(a[1])
    if a[0] == "raise":
        return "(ARaise %s)" % cexn(a[1])
    return "(AGet %s %s)" % (cnat(a[1]), cidx(a[2]))


def cobs(o):
    k = o[0]
    if k == "scalar":
        return "(OScalar %s)" % cbval(o[1])
    if k == "array":
        return "(OArray %s %s %s)" % (
            clist(cnat(x) for x in o[1]),
            clist(cbval(v) for v in o[2]),
            clist("true" if m else "false" for m in o[3]),
        )
    if k == "view":
        return "(OView %s %s)" % (cnat(o[1]), clist(cnat(x) for x in o[2]))
    if k == "exc":
        return "(OExc %s)" % cexn(o[1])
    if k == "has":
        return "(OContains %s)" % ("true" if o[1] else "false")
    if k == "pop":
        return "(OPopped None)" if o[1] is None else "(OPopped (Some (Done %s)))" % cbval(o[1])
    raise ValueError(o)


def creq(q):
    if q[0] == "get":
        return "(QGet %s %s)" % (cnat(q[1]), citem(q[2]))
    return "(%s %s %s)" % ("QHas" if q[0] == "has" else "QPop", cnat(q[1]), cidx(q[2]))


# ---------------------------------------------------------------------------


def elem_from_impl(x):
    from pymablock.series import zero, one

    if x is zero:
        return "zero"
    if x is one:
        return "one"
    if isinstance(x, (int, np.integer)) and not isinstance(x, bool):
        return int(x)
    raise TypeError("unexpected element %r" % (x,))


def all_idx(shape, N):
    return [tuple(f) + tuple(o) for f in itertools.product(*(range(d) for d in shape)) for o in itertools.product(*(range(n + 1) for n in N))]


def gen_base(rng):
    shape = rng.choice([(), (1,), (2,), (3,), (2, 2), (2, 3), (3, 3), (1, 2), (3, 1), (2, 2), (2, 3, 2), (2, 2, 2)])
    ninf = rng.choice([0, 1, 1, 1, 2, 2, 3])
    if not shape and ninf == 0 and rng.random() < 0.7:
        ninf = 1
    if len(shape) == 3:
        ninf = min(ninf, 2)
    N = tuple(({0: 0, 1: 3, 2: 2, 3: 1}[ninf] if len(shape) < 3 else {0: 0, 1: 2, 2: 1}[ninf]) for _ in range(ninf))
    nbase = rng.choice([1, 1, 2])
    p_zero = rng.choice([0.0, 0.2, 0.4])
    p_bad = rng.choice([0.0, 0.0, 0.08])
    p_rec = rng.choice([0.0, 0.0, 0.1])
    # dependency mode: many elements are defined through OTHER elements of the same series (or of
    # the second series); "forward" = the element needed comes LATER in C order (it is evaluated
    # and cached while an earlier element of the same multi-element request is being evaluated),
    # "backward" = earlier, "mixed" = both (cycles possible -> RuntimeError)
    dep_mode = rng.choice([None, None, "forward", "forward", "backward", "mixed"])
    if dep_mode:
        p_rec, p_bad, p_zero = rng.choice([0.4, 0.6, 0.8]), 0.0, rng.choice([0.0, 0.1])
    tables = []
    tag = 1
    idxs = all_idx(shape, N)
    for b in range(nbase):
        t = {}
        for idx in idxs:
            r = rng.random()
            if r < p_zero:
                a = ["val", "zero"]
            elif r < p_zero + 0.03:
                a = ["val", "one"]
            elif r < p_zero + 0.03 + p_bad:
                a = ["raise", rng.choice(list(RAISE))]
            elif r < p_zero + 0.03 + p_bad + p_rec:
                kind = rng.choice(["self", "lower", "other"])
                if dep_mode:
                    direction = dep_mode if dep_mode != "mixed" else rng.choice(["forward", "backward"])
                    cand = [j for j in idxs if (j > idx if direction == "forward" else j < idx)]
                    if dep_mode != "mixed" and cand and rng.random() < 0.7:
                        # near neighbours: next/previous order of the same block, or the same order of another block
                        near = sorted(cand, key=lambda j: sum(abs(x - y) for x, y in zip(j, idx)))[:3]
                        cand = near
                    if cand:
                        a = ["get", rng.randrange(nbase), list(rng.choice(cand))]
                    else:
                        a = ["val", tag]
                        tag += 1
                elif kind == "self" or not idxs:
                    a = ["get", b, list(idx)]
                elif kind == "lower":
                    a = ["get", b, list(rng.choice(idxs))]
                else:
                    a = ["get", rng.randrange(nbase), list(rng.choice(idxs))]
            else:
                a = ["val", tag]
                tag += 1
            t[idx] = a
        tables.append(t)
    data = []
    p_pre = rng.choice([0.0, 0.0, 0.3]) if not dep_mode else 0.0
    for b in range(nbase):
        d = {}
        for idx, a in tables[b].items():
            if a[0] == "val" and rng.random() < p_pre:
                d[idx] = a[1]
        data.append(d)
    return dict(
        shape=list(shape),
        ninf=ninf,
        N=list(N),
        dep_mode=dep_mode,
        tables=[[[list(k), a] for k, a in t.items()] for t in tables],
        data=[[[list(k), v] for k, v in d.items()] for d in data],
    )


def _ri(rng, d):
    return rng.randint(-d, d - 1) if d > 0 else 0


def rand_finite_index(rng, d):
    if d == 0:
        return rng.choice([["slice", None, None, None], [], 0])
    r = rng.random()
    if r < 0.45:
        return _ri(rng, d)
    if r < 0.65:
        return [_ri(rng, d) for _ in range(rng.choice([1, 2, 2, 3]))]
    if r < 0.93:
        return ["slice", rng.choice([None, None, 0, 1, -1]), rng.choice([None, None, 1, 2, d, -1]), rng.choice([None, None, 1, 2])]
    # malformed: out of bounds integer / list, zero slice step (several of them may meet in one item:
    # which exception wins is part of the model)
    return rng.choice([d, -d - 1, [0, d], [-d - 1], ["slice", None, None, 0], ["slice", 1, None, 0]])


def rand_order_index(rng, n, bad=0.06):
    r = rng.random()
    if r < bad:
        return rng.choice([-1, [0, -1], ["slice", None, None, None], ["slice", -1, 2, None], ["slice", 0, -1, None], ["slice", 1, None, None], [-2], ["slice", 0, 2, 0], ["slice", None, 1, 0]])
    r = rng.random()
    if r < 0.5:
        return rng.randint(0, n + 1)
    if r < 0.7:
        return [rng.randint(0, n + 1) for _ in range(rng.choice([1, 2, 2, 3]))]
    return ["slice", rng.choice([None, None, 0, 1, 2]), rng.randint(0, n + 2), rng.choice([None, None, 1, 2])]


def gen_item(rng, shape, ninf, N):
    r = rng.random()
    nf = len(shape)
    fin = [rand_finite_index(rng, d) for d in shape]
    # make lists the same length most of the time
    lists = [e for e in fin if isinstance(e, list) and (not e or e[0] != "slice")]
    if len(lists) > 1 and rng.random() < 0.8:
        L = len(lists[0])
        fin = [([_ri(rng, shape[k]) for _ in range(L)] if (isinstance(e, list) and (not e or e[0] != "slice")) else e) for k, e in enumerate(fin)]
    if ninf and r < 0.15:
        if nf == 3 and rng.random() < 0.6:  # a list between two slices
            fin = [["slice", None, None, None], [_ri(rng, shape[1]) for _ in range(rng.choice([1, 2, 3]))], ["slice", None, None, None]]
        return fin  # finite-only: a view
    orders = [rand_order_index(rng, N[k] if k < len(N) else 1) for k in range(ninf)]
    olists = [e for e in fin + orders if isinstance(e, list) and (not e or e[0] != "slice")]
    if len(olists) > 1 and rng.random() < 0.8:
        L = len(olists[0])
        orders = [([rng.randint(0, 2) for _ in range(L)] if (isinstance(e, list) and (not e or e[0] != "slice")) else e) for e in orders]
    item = fin + orders
    r = rng.random()
    if r < 0.04 and item:
        item = item[:-1]  # wrong arity (or a view)
    elif r < 0.08:
        item = item + [0]
    return item


def run_case(rng, base, nsteps):
    """generate the script while running the implementation; returns (script, obs, calls, keys, heads)"""
    from pymablock import series as S

    log = []
    registry = {}
    heads = {}
    hidden = set()

    def make_eval(b, table):
        def ev(*index):
            idx = tuple(int(x) for x in index)
            log.append((b, idx))
            a = table.get(idx, ["val", "zero"])
            if a[0] == "val":
                return S.zero if a[1] == "zero" else S.one if a[1] == "one" else a[1]
            if a[0] == "raise":
                raise RAISE[a[1]]("injected")
            return registry[a[1]][tuple(a[2])]

        return ev

    for b, (tab, dat) in enumerate(zip(base["tables"], base["data"])):
        table = {tuple(k): a for k, a in tab}
        val = lambda v: S.zero if v == "zero" else S.one if v == "one" else v  # noqa: E731
        registry[b] = S.BlockSeries(
            eval=make_eval(b, table),
            data={tuple(k): val(v) for k, v in dat},
            shape=tuple(base["shape"]),
            n_infinite=base["ninf"],
        )
        heads[b] = (tuple(base["shape"]), base["ninf"])
    nxt = len(registry)
    script, obs = [], []
    for _ in range(nsteps):
        s = rng.choice([k for k in registry if k not in hidden])
        shape, ninf = heads[s]
        r = rng.random()
        if r < 0.8:
            item = gen_item(rng, shape, ninf, base["N"])
            script.append(["get", s, item])
            pit = py_item(item)
            if len(pit) == 1 and rng.random() < 0.5:
                pit = pit[0]  # tuple-isation of a bare item
            try:
                res = registry[s][pit]
            except BaseException as e:  # noqa: BLE001
                obs.append(["exc", type(e).__name__])
                continue
            if isinstance(res, S.BlockSeries):
                if all(isinstance(e, int) for e in item):
                    sid = nxt
                    nxt += 1
                else:
                    hidden.add(nxt)
                    sid = nxt + 1
                    nxt += 2
                inner = res.eval

                def logged(*index, _sid=sid, _inner=inner):
                    log.append((_sid, tuple(int(x) for x in index)))
                    return _inner(*index)

                res.eval = logged
                registry[sid] = res
                heads[sid] = (tuple(int(x) for x in res.shape), res.n_infinite)
                obs.append(["view", sid, [int(x) for x in res.shape]])
            elif isinstance(res, np.ma.MaskedArray):
                data = [elem_from_impl(x) for x in np.ma.getdata(res).reshape(-1)]
                mask = [bool(x) for x in np.ma.getmaskarray(res).reshape(-1)]
                obs.append(["array", [int(x) for x in res.shape], data, mask])
            else:
                obs.append(["scalar", elem_from_impl(res)])
        else:
            nf = len(shape)
            idx = [(rng.randrange(d) if d else 0) for d in shape] + [rng.randint(0, (base["N"][k] if k < len(base["N"]) else 1)) for k in range(ninf)]
            if r < 0.9:
                script.append(["has", s, idx])
                obs.append(["has", bool(tuple(idx) in registry[s])])
            else:
                script.append(["pop", s, idx])
                sentinel = object()
                v = registry[s].pop(tuple(idx), sentinel)
                obs.append(["pop", None if v is sentinel else elem_from_impl(v)])
    visible = [k for k in registry if k not in hidden]
    keys = [[k, sorted([int(x) for x in key] for key in registry[k]._data)] for k in visible]
    calls = [[s, list(i)] for s, i in log]
    return script, obs, calls, keys, visible


def coq_term(base, script, obs, calls, keys, visible):
    descs = []
    for tab in base["tables"]:
        head = "(mkBS %s %s)" % (clist(cnat(x) for x in base["shape"]), cnat(base["ninf"]))
        tbl = "(table %s (AVal SZero))" % clist("(%s, %s)" % (cidx(k), caction(a)) for k, a in tab)
        descs.append("(BTable %s %s)" % (head, tbl))
    data = clist(clist("(%s, %s)" % (cidx(k), cx(v)) for k, v in d) for d in base["data"])
    return "check_getitem %s %s 40%%nat %s %s %s %s %s" % (
        clist(descs),
        data,
        clist(creq(q) for q in script),
        clist(cobs(o) for o in obs),
        clist(cnat(s) for s in visible),
        clist("(%s, %s)" % (cnat(s), cidx(i)) for s, i in calls),
        clist("(%s, %s)" % (cnat(s), clist(cidx(k) for k in ks)) for s, ks in keys),
    )


def tie_getitem(ctx, ncases=None):
    n = ncases or ctx.n(120, 2400)
    rng = ctx.rng
    cases, terms = [], []
    dist = {"obs": {}, "exc": {}, "shapes": {}}
    disagreements = []
    nontrivial = set()
    for _ in range(n):
        base = gen_base(rng)
        try:
            script, obs, calls, keys, visible = run_case(rng, base, rng.randint(3, 9))
        except Exception as e:  # noqa: BLE001
            disagreements.append(dict(what="implementation run crashed in the harness: %r" % (e,), input=base))
            continue
        case = dict(base=base, script=script, obs=obs, calls=calls, keys=keys, visible=visible)
        cases.append(case)
        terms.append(coq_term(base, script, obs, calls, keys, visible))
        for o in obs:
            dist["obs"][o[0]] = dist["obs"].get(o[0], 0) + 1
            if o[0] == "exc":
                dist["exc"][o[1]] = dist["exc"].get(o[1], 0) + 1
        k = "%s/inf%d" % (tuple(base["shape"]), base["ninf"])
        dist["shapes"][k] = dist["shapes"].get(k, 0) + 1
        dm = str(base.get("dep_mode"))
        dist.setdefault("dependency_mode", {})
        dist["dependency_mode"][dm] = dist["dependency_mode"].get(dm, 0) + 1
        if len(calls) >= 3 and any(o[0] == "array" and len(o[2]) >= 2 for o in obs):
            nontrivial.add(core.sha(core.canon(case))[:16])
    bad = core.coq_eval_cases("k_getitem", HEADER, terms, shard=ctx.n(20, 75), jobs=ctx.n(8, 16))
    for i in bad:
        disagreements.append(dict(what="model and implementation differ (observations / eval log / cache keys)", input=cases[i], model="coq term false"))
    return dict(
        cases=len(cases),
        nontrivial=len(nontrivial),
        rule="distinct cases with >= 3 eval calls and at least one array result of >= 2 elements",
        samples=[dict(base=dict(shape=c["base"]["shape"], ninf=c["base"]["ninf"]), script=c["script"][:4], obs=c["obs"][:4]) for c in cases[:3]],
        distribution=dist,
        disagreements=disagreements,
    )
