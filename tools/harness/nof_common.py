"""Shared pieces of the NumberOrderedForm harnesses (C08, C16_scalar, C07_mask).

Expression trees (JSON-able, the replay format):
    ["op", i, dag]      generator i of the mode list (dag=1: its adjoint)
    ["num", i]          NumberOperator of mode i
    ["const", "p/q", "r/s"]   Gaussian rational p/q + i r/s
    ["mul", a, b] ["add", a, b] ["sub", a, b] ["neg", a] ["adj", a] ["pow", a, e]
A mode list is a list of kinds "B" (boson), "L" (ladder), "S" (spin 1/2), "F" (fermion) in
the order the code sorts operators (generator_types, then name).
"""

import sys
from fractions import Fraction as Fr

from vlib import core

sys.path.insert(0, str(core.REPO))

import sympy  # noqa: E402
from sympy.physics.quantum import Dagger, pauli  # noqa: E402
from sympy.physics.quantum.boson import BosonOp  # noqa: E402
from sympy.physics.quantum.fermion import FermionOp  # noqa: E402

from pymablock.number_ordered_form import (  # noqa: E402
    LadderOp,
    NumberOperator,
    NumberOrderedForm,
)

KIND_ORDER = "BLSF"
NAMES = {"B": "abcd", "L": "klmn", "S": "stuv", "F": "fghj"}
COQ_KIND = {"B": "Boson", "L": "Ladder", "S": "Spin", "F": "Fermion"}


def make_ops(modes):
    """sympy generator objects for a mode list like ["B","L","F","F"] (must be canonical)."""
    assert list(modes) == sorted(modes, key=KIND_ORDER.index), modes
    cnt = {k: 0 for k in KIND_ORDER}
    ops = []
    for k in modes:
        name = NAMES[k][cnt[k]]
        cnt[k] += 1
        if k == "B":
            ops.append(BosonOp(name))
        elif k == "L":
            ops.append(LadderOp(name))
        elif k == "S":
            ops.append(pauli.SigmaMinus(name))
        else:
            ops.append(FermionOp(name))
    return ops


def gconst(t):
    return Fr(t[1]), Fr(t[2])


def sym_const(t):
    re, im = gconst(t)
    return sympy.Rational(re.numerator, re.denominator) + sympy.I * sympy.Rational(im.numerator, im.denominator)


def build_impl(tree, ops):
    """Interpret a tree with the real NumberOrderedForm API (every leaf via from_expr)."""
    k = tree[0]
    F = NumberOrderedForm.from_expr
    if k == "op":
        o = ops[tree[1]]
        return F(Dagger(o) if tree[2] else o, operators=ops)
    if k == "num":
        return F(NumberOperator(ops[tree[1]]), operators=ops)
    if k == "const":
        return F(sym_const(tree), operators=ops)
    if k == "neg":
        return -build_impl(tree[1], ops)
    if k == "adj":
        return Dagger(build_impl(tree[1], ops))
    if k == "pow":
        return build_impl(tree[1], ops) ** sympy.Integer(tree[2])
    a, b = build_impl(tree[1], ops), build_impl(tree[2], ops)
    if k == "div":  # __truediv__
        return a / b
    if k == "mul":
        return a * b
    if k == "add":
        return a + b
    if k == "sub":
        return a - b
    raise ValueError(k)


def to_sympy(tree, ops):
    """The same tree as a plain sympy expression (for from_expr of whole expressions)."""
    k = tree[0]
    if k == "op":
        o = ops[tree[1]]
        return Dagger(o) if tree[2] else o
    if k == "num":
        return NumberOperator(ops[tree[1]])
    if k == "const":
        return sym_const(tree)
    if k == "neg":
        return -to_sympy(tree[1], ops)
    if k == "adj":
        return Dagger(to_sympy(tree[1], ops))
    if k == "pow":
        return to_sympy(tree[1], ops) ** sympy.Integer(tree[2])
    a, b = to_sympy(tree[1], ops), to_sympy(tree[2], ops)
    if k == "div":
        return a / b
    if k == "mul":
        return a * b
    if k == "add":
        return a + b
    if k == "sub":
        return a - b
    raise ValueError(k)


def tree_str(tree, modes):
    """Readable rendering, e.g. (a† * N_a) + f."""
    k = tree[0]
    cnt = {}
    names = []
    for m in modes:
        names.append(NAMES[m][cnt.get(m, 0)])
        cnt[m] = cnt.get(m, 0) + 1
    if k == "op":
        return names[tree[1]] + ("†" if tree[2] else "")
    if k == "num":
        return "N_" + names[tree[1]]
    if k == "const":
        re, im = gconst(tree)
        return str(re) if im == 0 else "(%s+%si)" % (re, im)
    if k == "neg":
        return "-(%s)" % tree_str(tree[1], modes)
    if k == "adj":
        return "(%s)†" % tree_str(tree[1], modes)
    if k == "pow":
        return "(%s)^%d" % (tree_str(tree[1], modes), tree[2])
    sym = {"mul": "*", "add": "+", "sub": "-", "div": "/"}[k]
    return "(%s %s %s)" % (tree_str(tree[1], modes), sym, tree_str(tree[2], modes))


def expand_to(nof, ops):
    """Re-express a NumberOrderedForm over the full operator list `ops` (by operator identity)."""
    if list(nof.operators) == list(ops):
        return nof
    return nof._expand_operators(sympy.Tuple(*ops))


def eval_coeff(coeff, placeholders, point):
    """Exact value of a coefficient at an occupation point: (Fr, Fr) or None if undefined."""
    v = coeff.xreplace({ph: sympy.Integer(x) for ph, x in zip(placeholders, point)})
    v = sympy.nsimplify(v) if v.has(sympy.Float) else v
    if v.has(sympy.zoo, sympy.nan, sympy.oo, -sympy.oo):
        return None
    v = sympy.expand(v)
    if v.free_symbols:
        raise ValueError("coefficient not closed after substitution: %s" % v)
    re, im = v.as_real_imag()
    if not (re.is_Rational and im.is_Rational):
        re, im = sympy.nsimplify(re), sympy.nsimplify(im)
    if not (re.is_Rational and im.is_Rational):
        return None  # irrational value (e.g. sqrt(N+1) away from perfect squares): point not compared
    return Fr(int(re.p), int(re.q)), Fr(int(im.p), int(im.q))


def observe(nof, ops, grid):
    """{powers tuple -> [value or None on each grid point]} of a NumberOrderedForm over ops."""
    nof = expand_to(nof, ops)
    phs = nof._number_operator_placeholders
    out = {}
    for powers, coeff in nof.args[1]:
        key = tuple(int(p) for p in powers)
        vals = [eval_coeff(coeff, phs, pt) for pt in grid]
        if key in out:  # duplicate keys in the args tuple: semantically a sum
            out[key] = [
                None if (a is None or b is None) else (a[0] + b[0], a[1] + b[1])
                for a, b in zip(out[key], vals)
            ]
        else:
            out[key] = vals
    return out


# ---------------------------------------------------------------------------
# Coq printing


def cz(z):
    return "(%d)%%Z" % int(z)


def cq(fr):
    fr = Fr(fr)
    return "(%d # %d)%%Q" % (fr.numerator, fr.denominator)


def cg(re, im):
    return "(mkG %s %s)" % (cq(re), cq(im))


def clist(items):
    return "[" + "; ".join(items) + "]"


def coq_sig(modes):
    return clist([COQ_KIND[m] for m in modes])


def coq_tree(t):
    k = t[0]
    if k == "op":
        return "(TOp %d %s)" % (t[1], "true" if t[2] else "false")
    if k == "num":
        return "(TNum %d)" % t[1]
    if k == "const":
        re, im = gconst(t)
        return "(TConst %s)" % cg(re, im)
    if k == "neg":
        return "(TNeg %s)" % coq_tree(t[1])
    if k == "adj":
        return "(TAdj %s)" % coq_tree(t[1])
    if k == "pow":
        return "(TPow %s %s)" % (coq_tree(t[1]), cz(t[2]))
    if k == "div":  # x / y is x * y**-1 in the code
        return "(TMul %s (TPow %s (-1)%%Z))" % (coq_tree(t[1]), coq_tree(t[2]))
    return "(%s %s %s)" % ({"mul": "TMul", "add": "TAdd", "sub": "TSub"}[k], coq_tree(t[1]), coq_tree(t[2]))


def coq_occ(pt):
    return clist([cz(v) for v in pt])


def coq_obs(obs):
    rows = []
    for key, vals in obs.items():
        vs = clist(["None" if v is None else "(Some %s)" % cg(v[0], v[1]) for v in vals])
        rows.append("(%s, %s)" % (clist([cz(p) for p in key]), vs))
    return clist(rows)


COQ_HEADER = """Require Import List ZArith QArith Bool.
Require Import PV.NOF.Gauss PV.NOF.Coeff PV.NOF.Fock PV.NOF.Model PV.NOF.FromExpr.
Import ListNotations.
"""


# ---------------------------------------------------------------------------
# generators


def rand_modes(rng, lo=1, hi=4):
    n = rng.randint(lo, hi)
    ms = [rng.choice("BBLSFF") for _ in range(n)]
    ms.sort(key=KIND_ORDER.index)
    return ms


def rand_const(rng, complex_ok=True):
    re = Fr(rng.choice([1, 2, 3, -1, -2, 1, 1]), rng.choice([1, 1, 2, 3]))
    im = Fr(rng.choice([0, 0, 0, 1, -1, 2]), rng.choice([1, 2])) if complex_ok else Fr(0)
    return ["const", str(re), str(im)]


def rand_numfun(rng, modes, depth=1):
    """A function of number operators: polynomial in N_i with rational coefficients."""
    i = rng.randrange(len(modes))
    base = ["add", ["num", i], rand_const(rng, complex_ok=False)]
    r = rng.random()
    if r < 0.35 or depth <= 0:
        return base if rng.random() < 0.6 else ["num", i]
    if r < 0.7:
        return ["mul", base, rand_numfun(rng, modes, depth - 1)]
    return ["add", ["mul", rand_const(rng, False), base], rand_numfun(rng, modes, depth - 1)]


def rand_atom(rng, modes, numfun=0.25):
    r = rng.random()
    i = rng.randrange(len(modes))
    if r < numfun:
        return rand_numfun(rng, modes)
    op = ["op", i, rng.randint(0, 1)]
    if rng.random() < 0.2:
        return ["pow", op, rng.choice([2, 2, 3])]
    return op


def rand_word(rng, modes, maxlen=4, left=None):
    """Product of atoms, randomly associated to the left or to the right."""
    n = rng.randint(1, maxlen)
    atoms = [rand_atom(rng, modes) for _ in range(n)]
    if left is None:
        left = rng.random() < 0.5
    if left:
        t = atoms[0]
        for a in atoms[1:]:
            t = ["mul", t, a]
    else:
        t = atoms[-1]
        for a in reversed(atoms[:-1]):
            t = ["mul", a, t]
    return t


def rand_sum(rng, modes, maxterms=3, maxlen=3):
    n = rng.randint(1, maxterms)
    t = None
    for _ in range(n):
        w = rand_word(rng, modes, maxlen)
        if rng.random() < 0.4:
            w = ["mul", rand_const(rng), w]
        if t is None:
            t = w
        else:
            t = [rng.choice(["add", "add", "sub"]), t, w]
    return t


def rand_grid(rng, modes, npts=5):
    """Occupation points: bosons 0..4, ladders -3..3, binary 0/1 (coefficients are functions on
    the integers; binary modes are only meaningful on {0,1})."""
    pts = []
    for _ in range(npts):
        pt = []
        for m in modes:
            if m == "B":
                pt.append(rng.randint(0, 4))
            elif m == "L":
                pt.append(rng.randint(-3, 3))
            else:
                pt.append(rng.randint(0, 1))
        pts.append(pt)
    return pts


def tree_size(t):
    return 1 + sum(tree_size(x) for x in t[1:] if isinstance(x, list))


def tree_ops(t, acc=None):
    """Multiset description used for distribution statistics."""
    acc = acc if acc is not None else {}
    acc[t[0]] = acc.get(t[0], 0) + 1
    for x in t[1:]:
        if isinstance(x, list):
            tree_ops(x, acc)
    return acc


def rand_powterm(rng):
    """(modes, tree): an integer power 2..4 of a SINGLE-TERM form whose coefficient is a non-constant polynomial
    in the number operator of a boson/ladder mode that also carries a non-zero power in the term
    ((N_a a)^2, (a† N_a)^3, ((N_a+1) a^2)^2, (N_m m)^2, optionally times an operator of a second mode):
    the powers of such a term add up but the coefficient does NOT simply exponentiate."""
    modes = [rng.choice("BBL")]
    if rng.random() < 0.45:
        modes.append(rng.choice("BLSF"))
    modes.sort(key=KIND_ORDER.index)
    i = rng.choice([j for j, m in enumerate(modes) if m in "BL"])
    op = ["op", i, rng.randint(0, 1)]
    if rng.random() < 0.3:
        op = ["pow", op, 2]
    f = ["num", i] if rng.random() < 0.5 else ["add", ["num", i], rand_const(rng, complex_ok=False)]
    if rng.random() < 0.25:
        f = ["mul", f, ["add", ["num", i], rand_const(rng, complex_ok=False)]]
    base = ["mul", f, op] if rng.random() < 0.5 else ["mul", op, f]
    if len(modes) > 1 and rng.random() < 0.6:
        j = 1 - i
        o2 = ["op", j, rng.randint(0, 1)]
        base = ["mul", base, o2] if rng.random() < 0.5 else ["mul", o2, base]
    if rng.random() < 0.3:
        base = ["mul", rand_const(rng), base]
    return modes, ["pow", base, rng.choice([2, 2, 3, 4])]


POWTERM_WITNESSES = [
    (["B"], ["pow", ["mul", ["num", 0], ["op", 0, 0]], 2]),                                   # (N_a a)^2
    (["B"], ["pow", ["mul", ["op", 0, 1], ["num", 0]], 3]),                                   # (a† N_a)^3
    (["B"], ["pow", ["mul", ["add", ["num", 0], ["const", "1", "0"]], ["pow", ["op", 0, 0], 2]], 2]),  # ((N_a+1) a^2)^2
    (["L"], ["pow", ["mul", ["num", 0], ["op", 0, 0]], 2]),                                   # (N_m m)^2
]


def _o(i, dag=0):
    return ["op", i, dag]


def _chain(*fs):
    t = fs[0]
    for f in fs[1:]:
        t = ["mul", t, f]
    return t


# spin modes are stored between the ladders and the fermions; their powers must NOT enter the fermionic sign count.
# (modes, left factor, right factor): the product left*right exercises every branch of the fermion part of _multiply_op
# (nothing*annihilation, creation*annihilation, nothing*creation, annihilation*creation) with a spin power +1 / -1 present
SIGN_WITNESSES = [
    (["S", "F"], _o(0), _o(1)),                                   # sigma_- * f
    (["S", "F"], _o(1), _o(0)),                                   # f * sigma_-
    (["S", "F"], _o(0), _o(1, 1)),                                # sigma_- * f†
    (["S", "F"], _chain(_o(0), _o(1)), _o(1, 1)),                 # (sigma_- f) * f†
    (["S", "F"], _chain(_o(0), _o(1, 1)), _o(1)),                 # (sigma_- f†) * f
    (["S", "F"], _chain(_o(0, 1), _o(1, 1)), _o(1)),              # (sigma_+ f†) * f
    (["S", "F", "F"], _chain(_o(0, 1), _o(0)), _chain(_o(1, 1), _o(2))),          # (sigma_+ sigma_-) * (f† g)
    (["S", "F", "F"], _chain(_o(0), _o(2)), _chain(_o(1, 1), _o(2, 1))),          # (sigma_- g) * (f† g†)
    (["S", "F", "F"], _chain(_o(0), _o(1, 1)), _chain(_o(2), _o(1))),             # (sigma_- f†) * (g f)
    (["S", "F", "F"], _chain(_o(1), _o(0)), _chain(_o(2, 1), _o(1, 1))),          # (f sigma_-) * (g† f†)
    (["S", "S", "F", "F"], _chain(_o(0), _o(1)), _chain(_o(2), _o(3))),           # (s t) * (f g)
    (["S", "S", "F", "F"], _chain(_o(0), _o(1, 1), _o(2)), _chain(_o(3, 1), _o(2, 1))),   # (s t† f) * (g† f†)
    (["S", "S", "F", "F"], _chain(_o(2, 1), _o(0)), _chain(_o(1), _o(3), _o(2))),         # (f† s) * (t g f)
    (["B", "S", "F"], _chain(_o(0, 1), _o(1)), _chain(_o(2), _o(0))),             # (a† sigma_-) * (f a)
    (["L", "S", "F", "F"], _chain(_o(1), _o(0)), _chain(_o(3, 1), _o(2))),        # (sigma_- l) * (g† f)
]


def rand_ladder_pair(rng):
    """(modes, left, right): (m†^k f(N_m)) * m^p  or  (m^k f(N_m)) * m†^p  (or f on the other side) for a ladder mode m,
    k in 2..4, 1 <= p <= k+1, f a non-constant polynomial in N_m; optionally a boson mode mixed in"""
    modes = ["L"] if rng.random() < 0.6 else sorted([rng.choice("BL"), "L"], key=KIND_ORDER.index)
    i = max(j for j, m in enumerate(modes) if m == "L")
    k = rng.randint(2, 4)
    p = rng.randint(1, k + 1)
    dag = rng.randint(0, 1)
    f = ["num", i] if rng.random() < 0.4 else ["add", ["num", i], rand_const(rng, complex_ok=False)]
    if rng.random() < 0.3:
        f = ["mul", f, ["add", ["num", i], rand_const(rng, complex_ok=False)]]
    opk = ["pow", ["op", i, dag], k]
    left = ["mul", opk, f] if rng.random() < 0.6 else ["mul", f, opk]
    right = ["pow", ["op", i, 1 - dag], p] if p > 1 else ["op", i, 1 - dag]
    if len(modes) > 1 and rng.random() < 0.7:
        j = 1 - i
        o2 = ["op", j, rng.randint(0, 1)]
        left = ["mul", left, o2] if rng.random() < 0.5 else ["mul", o2, left]
        if rng.random() < 0.5:
            right = ["mul", right, ["op", j, rng.randint(0, 1)]]
    return modes, left, right


def _lp(i, dag, k):
    return ["pow", ["op", i, dag], k] if k > 1 else ["op", i, dag]


LADDER_WITNESSES = [
    (["L"], ["mul", _lp(0, 1, 2), ["num", 0]], _lp(0, 0, 1)),                                        # (m†^2 N_m) * m
    (["L"], ["mul", _lp(0, 1, 3), ["add", ["num", 0], ["const", "1", "0"]]], _lp(0, 0, 2)),          # (m†^3 (N_m+1)) * m^2
    (["L"], ["mul", _lp(0, 1, 2), ["num", 0]], _lp(0, 0, 3)),                                        # (m†^2 N_m) * m^3
    (["L"], ["mul", ["num", 0], _lp(0, 0, 3)], _lp(0, 1, 1)),                                        # (N_m m^3) * m†
    (["L"], ["mul", _lp(0, 0, 2), ["mul", ["num", 0], ["num", 0]]], _lp(0, 1, 3)),                   # (m^2 N_m^2) * m†^3
    (["B", "L"], ["mul", ["op", 0, 1], ["mul", _lp(1, 1, 2), ["num", 1]]], ["mul", _lp(1, 0, 1), ["op", 0, 0]]),   # (a† m†^2 N_m) * (m a)
]
