"""Correspondence harnesses and oracles for the clauses C16_direct, C16_group and
C16_kpm_contract of C16.

tie_greens   : pymablock.linalg.direct_greens_function on exactly representable instances
               (H = R D R^-1 with Gaussian-integer unimodular R, or dyadic unitary bases);
               checks the hypotheses of Props/C16_direct.v on the implementation's decisions
               (structure of the constrained matrix, invertibility of the selected minors,
               exactly) and compares the float solution with the exact solution of the model
               (exact Gaussian-rational solve of  Mt z = D P b, x = P z) within 1e-9*scale.
tie_group    : _group_close_energies on dyadic floats vs the Coq model (vm_compute), as sets
               of sets; complex branch vs a connected-components reference.
tie_kpm      : kpm.greens_function loop vs LinAlg/KPMLoop.v (vm_compute): exception class,
               warning, number of iterations, final residual <= atol.
oracle_greens, oracle_kpm : residual checks on random float instances.
"""
import inspect
import sys
import warnings

import numpy as np

from vlib import core

sys.path.insert(0, str(core.REPO))
import scipy.sparse as sp  # noqa: E402
from pymablock import kpm as impl_kpm  # noqa: E402
from pymablock import linalg as impl_linalg  # noqa: E402
from pymablock import block_diagonalization as impl_bd  # noqa: E402
from pymablock.series import zero  # noqa: E402

from harness.k_projector import unimodular, rand_g  # noqa: E402


# ---------------------------------------------------------------------------
# exact helpers (sympy Gaussian rationals)


from fractions import Fraction as Fr  # noqa: E402


class Q:
    """Gaussian rational."""
    __slots__ = ("re", "im")

    def __init__(self, re=0, im=0):
        self.re, self.im = Fr(re), Fr(im)

    def __add__(s, o):
        return Q(s.re + o.re, s.im + o.im)

    def __sub__(s, o):
        return Q(s.re - o.re, s.im - o.im)

    def __mul__(s, o):
        return Q(s.re * o.re - s.im * o.im, s.re * o.im + s.im * o.re)

    def __truediv__(s, o):
        d = o.re * o.re + o.im * o.im
        return s * Q(o.re / d, -o.im / d)

    def conj(s):
        return Q(s.re, -s.im)

    def nz(s):
        return s.re != 0 or s.im != 0


def sym(a):
    """numpy array (dyadic entries) -> exact matrix (list of rows of Q); vectors become columns."""
    a = np.asarray(a, dtype=complex)
    if a.ndim == 1:
        a = a.reshape(-1, 1)
    return [[Q(Fr(float(x.real)), Fr(float(x.imag))) for x in row] for row in a]


def qmul(A, B):
    return [[sum((A[i][k] * B[k][j] for k in range(len(B))), Q()) for j in range(len(B[0]))] for i in range(len(A))]


def qsub(A, B):
    return [[x - y for x, y in zip(r, s)] for r, s in zip(A, B)]


def qadd(A, B):
    return [[x + y for x, y in zip(r, s)] for r, s in zip(A, B)]


def qeye(n, c=1):
    return [[Q(c if i == j else 0) for j in range(n)] for i in range(n)]


def qH(A):
    return [[A[i][j].conj() for i in range(len(A))] for j in range(len(A[0]))]


def qzero(A):
    return not any(x.nz() for r in A for x in r)


def qsolve(A, B):
    """Exact Gauss-Jordan; returns X with A X = B, or None if A is singular."""
    n = len(A)
    M = [list(r) + list(b) for r, b in zip(A, B)]
    for c in range(n):
        piv = next((r for r in range(c, n) if M[r][c].nz()), None)
        if piv is None:
            return None
        M[c], M[piv] = M[piv], M[c]
        pv = M[c][c]
        M[c] = [x / pv for x in M[c]]
        for r in range(n):
            if r != c and M[r][c].nz():
                f = M[r][c]
                M[r] = [x - f * y for x, y in zip(M[r], M[c])]
    return [row[n:] for row in M]


def qsingular(A):
    return qsolve(A, [[Q()] for _ in A]) is None if A else False


def qextract(A, rows, cols):
    return [[A[i][j] for j in cols] for i in rows]


def tonum(M):
    return np.array([[complex(float(x.re), float(x.im)) for x in r] for r in M], dtype=complex)


HAD4 = np.array([[1, 1, 1, 1], [1, -1, 1, -1], [1, 1, -1, -1], [1, -1, -1, 1]], dtype=complex) / 2
CU2 = np.array([[1 + 1j, 1 - 1j], [1 - 1j, 1 + 1j]], dtype=complex) / 2


def dyadic_unitary(rng, n, cplx):
    """Exactly representable unitary: block diagonal of Hadamard/2, (1±i)/2 blocks and units, permuted."""
    U = np.zeros((n, n), dtype=complex)
    i = 0
    while i < n:
        choices = [1]
        if n - i >= 2 and cplx:
            choices.append(2)
        if n - i >= 4:
            choices.append(4)
        b = rng.choice(choices)
        if b == 4:
            U[i:i + 4, i:i + 4] = HAD4
        elif b == 2:
            U[i:i + 2, i:i + 2] = CU2
        else:
            U[i, i] = rng.choice([1, -1, 1j, -1j] if cplx else [1, -1])
        i += b
    p = list(range(n))
    rng.shuffle(p)
    q = list(range(n))
    rng.shuffle(q)
    return U[p, :][:, q]


def gen_instance(rng, nmax, hermitian=None):
    n = rng.randint(2, nmax)
    hermitian = rng.random() < 0.5 if hermitian is None else hermitian
    cplx = rng.random() < 0.6
    if hermitian:
        R = dyadic_unitary(rng, n, cplx)
        Ri = R.conj().T
    else:
        R, Ri = unimodular(rng, n, cplx, bound=3)
    # kernel size; 0 = E is not an eigenvalue (no kernel vectors: P = 1, nothing dropped or constrained)
    g = 0 if rng.random() < 0.12 else rng.randint(1, min(3, n - 1))
    levels = [0] * g
    pool = [v for v in (-3, -2, -1, 1, 2, 3, 4)]
    while len(levels) < n:
        levels.append(rng.choice(pool))
    shift = rng.choice([0, 0, 1, -2])
    D = np.array(levels, dtype=complex) + shift
    H = R @ np.diag(D) @ Ri
    E = float(shift)
    Phi = R[:, :g]
    PhiL = Ri[:g, :].conj().T
    b = rand_g(rng, (n,), cplx or rng.random() < 0.3)
    real = not (np.any(H.imag) or np.any(Phi.imag) or np.any(PhiL.imag))
    return dict(n=n, g=g, hermitian=hermitian, H=H, E=E, Phi=Phi, PhiL=PhiL, b=b, real=real, levels=(D.real).tolist())


def enc(a):
    a = np.asarray(a)
    return dict(shape=list(a.shape), re=np.real(a).astype(float).ravel().tolist(), im=np.imag(a).astype(float).ravel().tolist())


def dec(e, real=False):
    a = (np.array(e["re"]) + 1j * np.array(e["im"])).reshape(e["shape"])
    return a.real.copy() if real else a


def inst_json(c):
    return dict(n=c["n"], g=c["g"], hermitian=c["hermitian"], real=c["real"], E=c["E"], H=enc(c["H"]), Phi=enc(c["Phi"]), PhiL=enc(c["PhiL"]), b=enc(c["b"]))


def call_greens(c, same_object):
    """Build the implementation's Green's function for an instance; returns (gf, args)."""
    real = c["real"]
    H = c["H"].real.copy() if real else c["H"]
    Phi = c["Phi"].real.copy() if real else c["Phi"]
    PhiL = c["PhiL"].real.copy() if real else c["PhiL"]
    kw = dict(kernel_vectors=Phi)
    if not same_object:
        kw["left_kernel_vectors"] = PhiL
    if c["g"] == 0 and c.get("omit_kernel", True):
        kw = {}  # documented default: "If omitted, an empty kernel basis is used"
    gf = impl_linalg.direct_greens_function(sp.csr_array(H), c["E"], **kw)
    return gf, H, Phi, PhiL, kw


def check_instance(c):
    """Returns list of disagreement strings (empty = model and implementation agree)."""
    bad = []
    n, g = c["n"], c["g"]
    same = c["hermitian"] and c.get("same_object", True)
    with warnings.catch_warnings():
        warnings.simplefilter("ignore")
        try:
            gf, H, Phi, PhiL, kw = call_greens(c, same)
            bvec = np.array(c["b"].real if (c["real"] and not np.any(c["b"].imag)) else c["b"])
            x = np.asarray(gf(bvec.copy()))
        except Exception as e:
            return ["implementation raised %s: %s (model: well-posed instance, unique solution)" % (type(e).__name__, e)]
    if c.get("deprecated"):
        # the deprecated arguments `atol` / `eps` are documented as ignored: DeprecationWarning naming
        # them, and bit-identical solution
        dep = {k: v for k, v in (("atol", 1e-3), ("eps", 0.1)) if k in c["deprecated"]}
        with warnings.catch_warnings(record=True) as wl:
            warnings.simplefilter("always")
            try:
                x2 = np.asarray(impl_linalg.direct_greens_function(sp.csr_array(H), c["E"], **kw, **dep)(bvec.copy()))
            except Exception as e:
                return ["with deprecated arguments %s the implementation raised %s: %s" % (sorted(dep), type(e).__name__, e)]
        msgs = [str(w.message) for w in wl if issubclass(w.category, DeprecationWarning)]
        if not msgs or not all(any("`%s`" % k in m for m in msgs) for k in dep):
            bad.append("deprecated arguments %s: no DeprecationWarning naming them (got %s)" % (sorted(dep), msgs))
        if not np.array_equal(x2, x):
            bad.append("deprecated (ignored) arguments %s change the solution by %.3g" % (sorted(dep), float(np.abs(x2 - x).max())))
    nl = inspect.getclosurevars(gf).nonlocals
    cols = impl_linalg._kernel_pivot_rows(Phi)
    rows_expected = cols if same else impl_linalg._kernel_pivot_rows(PhiL)
    # the dropped equations are read from the closure of the returned function when it still
    # refers to them; otherwise the decision is re-derived with the library's own pivot function
    rows = np.asarray(nl["pivot_rows"]) if "pivot_rows" in nl else np.asarray(rows_expected)
    # decisions: sizes, sortedness, uniqueness
    for name, p in (("pivot_rows", rows), ("pivot_cols", cols)):
        if len(p) != g or len(set(p.tolist())) != g or sorted(p.tolist()) != p.tolist() or (g and (min(p) < 0 or max(p) >= n)):
            bad.append("%s = %s is not a sorted set of %d distinct row indices" % (name, p.tolist(), g))
    if rows.tolist() != np.asarray(rows_expected).tolist():
        bad.append("dropped equations %s are not the pivots of the left kernel %s" % (rows.tolist(), np.asarray(rows_expected).tolist()))
    if bad:
        return bad
    # hypotheses of C16_direct_pivots / C16_direct_regular, exactly
    sPhi, sPhiL, sH = sym(c["Phi"]), sym(c["PhiL"]), sym(c["H"])
    if qsingular(qextract(sPhiL, rows.tolist(), list(range(g)))):
        bad.append("left kernel restricted to the dropped rows %s is singular (hypothesis of C16_direct fails)" % rows.tolist())
    if qsingular(qextract(sPhi, cols.tolist(), list(range(g)))):
        bad.append("right kernel restricted to the constrained columns %s is singular" % cols.tolist())
    # structure of the constrained matrix: Mt = D A + C
    A = c["E"] * np.eye(n) - (c["H"].real if c["real"] else c["H"])
    Mt_impl = impl_linalg._constrain_matrix(sp.csr_array(A), rows, cols).toarray()
    Dm = np.eye(n)
    Dm[rows, rows] = 0
    Cm = np.zeros((n, n))
    Cm[rows, cols] = 1
    if not np.array_equal(Mt_impl, Dm @ A + Cm):
        bad.append("_constrain_matrix differs from D A + C")
    # default of the third argument: the constrained variables are the dropped equations
    Cd = np.zeros((n, n))
    Cd[rows, rows] = 1
    if not np.array_equal(impl_linalg._constrain_matrix(sp.csr_array(A), rows).toarray(), Dm @ A + Cd):
        bad.append("_constrain_matrix(mat, rows) differs from D A + sum_t e_{r_t} e_{r_t}^T")
    if bad:
        return bad
    # exact model solution
    sA = qsub(qeye(n, Fr(c["E"])), sH)
    sP = qsub(qeye(n), qmul(sPhi, qH(sPhiL))) if g else qeye(n)
    if g and not (qzero(qmul(sA, sPhi)) and qzero(qmul(qH(sPhiL), sA)) and qzero(qsub(qmul(qH(sPhiL), sPhi), qeye(g)))):
        return ["generated instance does not satisfy the kernel relations exactly (harness bug)"]
    sD, sC = sym(Dm), sym(Cm)
    sMt = qadd(qmul(sD, sA), sC)
    sb = sym(c["b"])
    z = qsolve(sMt, qmul(sD, qmul(sP, sb)))
    if z is None:
        return ["constrained matrix is exactly singular although both minors are invertible (contradicts C16_direct_regular)"]
    xs = qmul(sP, z)
    if not qzero(qsub(qmul(sA, xs), qmul(sP, sb))) or not qzero(qsub(qmul(sP, xs), xs)):
        bad.append("exact model solution violates the theorem (harness bug)")
    xm = tonum(xs).ravel()
    scale = 1 + np.abs(xm).max() + np.abs(c["b"]).max()
    if x.shape != (n,) or not np.all(np.abs(x - xm) <= 1e-9 * scale):
        bad.append("solution differs from the exact model solution by %.3g (scale %.3g): impl %s, model %s" % (float(np.abs(x - xm).max()) if x.shape == (n,) else float("nan"), scale, np.round(x, 6).tolist(), np.round(xm, 6).tolist()))
    return bad


def tie_greens(ctx, ncases=None):
    rng = ctx.rng
    ncases = ncases or ctx.n(120, 3000)
    dis, feats, samples = [], set(), []
    for i in range(ncases):
        c = gen_instance(rng, ctx.n(6, 8))
        c["same_object"] = rng.random() < 0.5
        c["omit_kernel"] = rng.random() < 0.5
        c["deprecated"] = rng.choice([(), (), (), ("atol",), ("eps",), ("atol", "eps")])
        if i == 0:
            # exactly representable variant of the biorthogonal 2x2 instance of finding D10:
            # A = [[1/2,-1],[0,0]], right kernel (1,1/2), left kernel (0,2): dropped row 1, constrained column 0
            c = dict(n=2, g=1, hermitian=False, real=True, E=0.0, H=np.array([[-0.5, 1.0], [0, 0]], dtype=complex),
                     Phi=np.array([[1.0], [0.5]], dtype=complex), PhiL=np.array([[0], [2.0]], dtype=complex),
                     b=np.array([1.0, 2.0], dtype=complex), same_object=False, levels=[0.0, -0.5])
        bad = check_instance(c)
        feats.add((c["n"], c["g"], c["hermitian"], c["real"], c.get("same_object"), bool(c.get("deprecated")), c["g"] == 0 and c.get("omit_kernel")))
        if i in (1, 2):
            samples.append(inst_json(c))
        for b_ in bad[:2]:
            dis.append(dict(what=b_, input=inst_json(c), model="C16_direct: x = P z with Mt z = D P b (exact)", impl="see what"))
    return dict(cases=ncases, nontrivial=len(feats), rule="distinct (n, kernel size incl. 0, hermitian, real, left kernel passed as the same object, deprecated arguments, kernel omitted)",
                samples=samples, distribution=dict(features=len(feats)), disagreements=dis[:20])


# ---------------------------------------------------------------------------
# grouping

GROUP_HEADER = """From Coq Require Import ZArith List.
Import ListNotations.
From PV Require Import LinAlg.GroupEnergies.
"""


def cc_reference(points, atol2):
    """connected components of the graph dist^2 <= atol2 on integer points (union-find)."""
    n = len(points)
    parent = list(range(n))

    def find(a):
        while parent[a] != a:
            parent[a] = parent[parent[a]]
            a = parent[a]
        return a

    for a in range(n):
        for b in range(a + 1, n):
            d2 = sum((p - q) ** 2 for p, q in zip(points[a], points[b]))
            if d2 <= atol2:
                parent[find(a)] = find(b)
    comps = {}
    for a in range(n):
        comps.setdefault(find(a), set()).add(a)
    return {frozenset(s) for s in comps.values()}


def tie_group(ctx, ncases=None):
    rng = ctx.rng
    ncases = ncases or ctx.n(120, 3000)
    terms, owners, dis, feats = [], [], [], set()
    for i in range(ncases):
        n = rng.randint(0, ctx.n(8, 14))
        sc = rng.choice([1, 2, 4, 8])
        atol_i = rng.choice([0, 1, 1, 2, 3])
        cplx = i % 4 == 3
        ints = [rng.randint(-6, 6) for _ in range(n)]
        if rng.random() < 0.5:  # chains a, a+atol, a+2 atol ... (non-transitive closeness)
            ints = [rng.choice([0, 10]) + k * max(atol_i, 1) for k in range(n)]
            rng.shuffle(ints)
        if not cplx:
            es = np.array([v / sc for v in ints], dtype=float)
            try:
                groups = impl_bd._group_close_energies(es, atol_i / sc)
                got = sorted(sorted(int(j) for j in g) for g in groups)
            except Exception as e:
                dis.append(dict(what="_group_close_energies raised %s: %s" % (type(e).__name__, e), input=dict(energies=es.tolist(), atol=atol_i / sc), model="total function", impl="exception"))
                continue
            terms.append("groups_eqb (group_close_energies [%s] (%d)%%Z) [%s]" % (
                "; ".join("(%d)%%Z" % v for v in ints), atol_i, "; ".join("[%s]" % "; ".join(str(j) for j in g) for g in got)))
            owners.append(dict(energies=es.tolist(), atol=atol_i / sc, impl=got))
            feats.add((n, atol_i, len(got)))
        else:
            ims = [rng.randint(-3, 3) for _ in range(n)]
            es = np.array([(a + 1j * b) / sc for a, b in zip(ints, ims)], dtype=complex)
            # KDTree radius is inclusive; keep away from the boundary: use atol^2 = k + 1/2
            k2 = rng.choice([0, 1, 2, 4, 5, 8])
            atol = float(np.sqrt(k2 + 0.5)) / sc
            try:
                groups = impl_bd._group_close_energies(es, atol)
                got = {frozenset(int(j) for j in g) for g in groups}
            except Exception as e:
                dis.append(dict(what="_group_close_energies raised %s: %s" % (type(e).__name__, e), input=dict(re=ints, im=ims, scale=sc, atol=atol), model="total function", impl="exception"))
                continue
            ref = cc_reference(list(zip(ints, ims)), k2 + 0.5) if n else set()
            feats.add(("c", n, k2, len(ref)))
            if got != ref:
                dis.append(dict(what="complex branch differs from the connected components", input=dict(re=ints, im=ims, scale=sc, atol=atol), model=sorted(sorted(s) for s in ref), impl=sorted(sorted(s) for s in got)))
    badidx = core.coq_eval_cases("k_group", GROUP_HEADER, terms, shard=400) if terms else []
    for b in badidx:
        dis.append(dict(what="real branch differs from the model's connected components", input=dict(energies=owners[b]["energies"], atol=owners[b]["atol"]), model=terms[b][:400], impl=owners[b]["impl"]))
    return dict(cases=ncases, nontrivial=len(feats), rule="distinct (n, atol, number of groups) per branch", samples=owners[:2],
                distribution=dict(real=len(terms), complex=ncases - len(terms)), disagreements=dis[:20])


# ---------------------------------------------------------------------------
# KPM loop

KPM_HEADER = """From Coq Require Import ZArith List.
Import ListNotations.
From PV Require Import LinAlg.KPMLoop.
Definition res_of (l : list (Z * bool)) (m : Z) : bool :=
  match find (fun p => Z.eqb (fst p) m) l with Some p => snd p | None => true end.
Definition obs_eqb (r : result bool) (kind : nat) (warned over : bool) (iters : nat) : bool :=
  match r, kind with
  | Return _ m rr w it, 0%nat => Bool.eqb w warned && Bool.eqb rr over && Nat.eqb it iters
  | RaiseUnboundLocalError _ w, 1%nat => Bool.eqb w warned
  | _, _ => false
  end.
"""


class CountingH:
    """Wraps the Hamiltonian; records the residual seen at every `H @ sol` of the loop."""

    def __init__(self, h, energy, vector, log, scale=1.0):
        self.h, self.energy, self.vector, self.log, self.scale = h, energy, vector, log, scale
        self.shape = h.shape

    def __rmul__(self, c):
        return CountingH(self.h, self.energy, self.vector, self.log, self.scale * c)

    def __matmul__(self, x):
        self.log.append(np.array(x, copy=True))
        return self.scale * (self.h @ x)


def run_kpm(h, energy, vector, atol, max_moments):
    log = []
    H = CountingH(h, energy, vector, log)
    with warnings.catch_warnings(record=True) as w:
        warnings.simplefilter("always")
        try:
            sol = impl_kpm.greens_function(H, energy, vector, atol, max_moments)
            exc = None
        except Exception as e:
            sol, exc = None, type(e).__name__
    warned = any(issubclass(x.category, RuntimeWarning) and "did not converge" in str(x.message) for x in w)
    # iterations: iteration j performs 10*4^j matvecs (10*4^j - 1 for the vectors, 1 for the residual)
    nmat, iters, m, residuals = len(log), 0, 10, []
    pos = 0
    while pos + m <= nmat:
        s = log[pos + m - 1]
        residuals.append((m, float(np.linalg.norm((h @ s - energy * s) + vector))))
        pos += m
        m *= 4
        iters += 1
    return dict(sol=sol, exc=exc, warned=warned, iters=iters, residuals=residuals, consumed=(pos == nmat))


def kpm_instance(rng):
    n = rng.randint(2, 6)
    a = np.array([[rng.randint(-2, 2) for _ in range(n)] for _ in range(n)], dtype=float)
    h = (a + a.T) / 2
    if rng.random() < 0.4:
        b = np.array([[rng.randint(-2, 2) for _ in range(n)] for _ in range(n)], dtype=float)
        h = h + 1j * (b - b.T) / 2
    nrm = max(1.0, float(np.abs(np.linalg.eigvalsh(h)).max()))
    h = h / (nrm * rng.choice([1.05, 1.5, 2.0]))
    energy = rng.choice([0.0, 0.1, -0.3, 0.5])
    vector = np.array([rng.randint(-2, 2) for _ in range(n)], dtype=h.dtype)
    atol = rng.choice([1e-1, 1e-2, 1e-3, 1e-5, 1e-9, 5.0])
    max_moments = rng.choice([5, 9, 10, 39, 40, 100, 640, 2000, 1e4])
    return h, energy, vector, atol, max_moments


def tie_kpm(ctx, ncases=None):
    rng = ctx.rng
    ncases = ncases or ctx.n(60, 600)
    terms, owners, dis, feats = [], [], [], set()
    for i in range(ncases):
        h, energy, vector, atol, mm = kpm_instance(rng)
        r = run_kpm(h, energy, vector, atol, mm)
        inp = dict(h=enc(h), energy=energy, vector=enc(vector), atol=atol, max_moments=mm)
        if r["exc"] not in (None, "UnboundLocalError"):
            dis.append(dict(what="greens_function raised " + r["exc"], input=inp, model="Return or UnboundLocalError", impl=r["exc"]))
            continue
        if not r["consumed"]:
            dis.append(dict(what="number of matrix-vector products does not fit the 10*4^j schedule", input=inp, model="iteration j uses 10*4^j moments", impl=str([m for m, _ in r["residuals"]])))
            continue
        table = "[%s]" % "; ".join("((%d)%%Z, %s)" % (m, "true" if res > atol else "false") for m, res in r["residuals"])
        last_over = bool(r["residuals"][-1][1] > atol) if r["residuals"] else False
        kind = 1 if r["exc"] == "UnboundLocalError" else 0
        fuel = 40
        terms.append("obs_eqb (greens_function_loop bool (fun r _ => r) (res_of %s) true (%d)%%Z %d) %d %s %s %d" % (
            table, int(mm), fuel, kind, "true" if r["warned"] else "false", "true" if last_over else "false", r["iters"]))
        owners.append(dict(input=inp, observed=dict(exc=r["exc"], warned=r["warned"], iters=r["iters"], residuals=r["residuals"])))
        feats.add((kind, r["warned"], r["iters"]))
        if kind == 0 and not (r["warned"] or not last_over):
            dis.append(dict(what="returned without warning although the residual exceeds atol", input=inp, model="C16_kpm_contract", impl=str(r["residuals"])))
    badidx = core.coq_eval_cases("k_kpm", KPM_HEADER, terms, shard=300) if terms else []
    for b in badidx:
        dis.append(dict(what="loop behaviour differs from LinAlg/KPMLoop.v", input=owners[b]["input"], model=terms[b][:500], impl=owners[b]["observed"]))
    return dict(cases=ncases, nontrivial=len(feats), rule="distinct (UnboundLocalError?, warned?, iterations)", samples=[o["observed"] for o in owners[:2]],
                distribution={str(k): sum(1 for o in owners if (1 if o["observed"]["exc"] else 0, o["observed"]["warned"], o["observed"]["iters"]) == k) for k in feats},
                disagreements=dis[:20])


def sylvester_kpm_problem(seed):
    """Hermitian h0 with known eigenvectors; explicit blocks, and a random subset of the remaining
    eigenvectors passed as solver_options["auxiliary_vectors"] (also with max_moments / eps)."""
    rng = __import__("random").Random(seed)
    rs = np.random.default_rng(seed)
    cplx = rng.random() < 0.5
    nb = rng.randint(1, 2)
    sizes = [rng.randint(1, 2) for _ in range(nb)]
    nexp = sum(sizes)
    n = rng.randint(max(3, nexp + 1), 8)
    V = np.linalg.qr(rand_c(rs, (n, n), cplx))[0]
    bases = rng.sample([-3.0, -1.0, 1.0, 3.0], nb)
    levels = []
    for s_, b in zip(sizes, bases):
        levels += [b] * s_ if rng.random() < 0.5 else [b + 0.5 * j for j in range(s_)]
    D = np.array(levels + [6.0 + j for j in range(n - nexp)])
    h0 = V @ np.diag(D) @ V.conj().T
    h0 = (h0 + h0.conj().T) / 2
    if not cplx:
        h0 = h0.real
    nB = n - nexp
    naux = 0 if rng.random() < 0.25 else rng.randint(1, nB)
    opts = dict(atol=1e-5)
    aux = sorted(rng.sample(range(nB), naux))
    if aux:
        opts["auxiliary_vectors"] = np.ascontiguousarray(V[:, [nexp + a for a in aux]])
    mm = rng.choice([None, None, 200000, 1e6])
    if mm is not None:
        opts["max_moments"] = mm
    eps = rng.choice([None, None, 0.01, 0.05])
    if eps is not None:
        opts["eps"] = eps
    default = rng.random() < 0.15   # solver_options=None: every option at its documented default
    if default:
        opts, aux = None, []
    return dict(n=n, cplx=cplx, sizes=sizes, levels=levels, V=V, h0=h0, opts=opts, aux=aux, dense=rng.random() < 0.3)


def eval_sylvester_kpm(seed):
    """solve_sylvester_KPM: E_a v - v h0 = y P  on the complement of the explicit vectors, within the
    requested accuracy (unless the convergence warning was emitted), with and without auxiliary vectors.
    Every problem is presented twice, h0 as a dense ndarray and as a sparse array: the two presentations
    of the same matrix must agree, and a convergence warning for one presentation only is a failure
    (the clause "or with a convergence warning" is about the problem, not about the container type)."""
    p = sylvester_kpm_problem(seed)
    rs = np.random.default_rng(seed + 1)
    n, sizes, V, h0 = p["n"], p["sizes"], p["V"], p["h0"]
    nb, nexp = len(sizes), sum(sizes)
    offs = np.cumsum([0] + sizes)
    vecs = [V[:, offs[i]:offs[i + 1]] for i in range(nb)]
    P = np.eye(n) - V[:, :nexp] @ V[:, :nexp].conj().T
    Yds = {(i, j): rand_c(rs, (sizes[i], sizes[j]), p["cplx"]) for i in range(nb) for j in range(nb)}
    Ys = [rand_c(rs, (sizes[i], n), p["cplx"]) @ P for i in range(nb)]
    atol = (p["opts"] or dict(atol=1e-5))["atol"]

    def present(dense):
        fails, sols = [], {}
        with warnings.catch_warnings(record=True) as w:
            warnings.simplefilter("always")
            try:
                h0_arg = np.array(h0) if dense else sp.csr_array(h0)
                if p["opts"] is None:
                    solve = impl_bd.solve_sylvester_KPM(h0_arg, vecs)
                else:
                    solve = impl_bd.solve_sylvester_KPM(h0_arg, vecs, solver_options=dict(p["opts"]))
            except Exception as e:
                return ["solve_sylvester_KPM raised %s: %s" % (type(e).__name__, e)], False, sols
            try:
                if solve(zero, (0, nb)) is not zero:
                    fails.append("solve_sylvester_KPM does not map the zero sentinel to zero")
                for (i, j), Yd in Yds.items():  # explicit-explicit blocks go through the diagonal solver
                    Ei_, Ej_ = np.array(p["levels"][offs[i]:offs[i + 1]]), np.array(p["levels"][offs[j]:offs[j + 1]])
                    Vd = np.asarray(solve(Yd.copy(), (i, j)))
                    dE = Ei_[:, None] - Ej_[None, :]
                    mask = np.abs(dE) > 1e-3
                    if not (np.allclose((dE * Vd)[mask], Yd[mask], rtol=1e-9, atol=1e-9) and np.abs(Vd[~mask]).max(initial=0) == 0):
                        fails.append("solve_sylvester_KPM explicit block (%d,%d): (E_a - E_b) V_ab != Y_ab" % (i, j))
            except Exception as e:
                fails.append("solve_sylvester_KPM explicit blocks / zero raised %s: %s" % (type(e).__name__, e))
            for i in range(nb):
                Ei = np.array(p["levels"][offs[i]:offs[i + 1]])
                Y = Ys[i]
                try:
                    Vs = np.asarray(solve(Y.copy(), (i, nb)))
                except Exception as e:
                    fails.append("solve_sylvester_KPM index (%d, implicit) raised %s: %s" % (i, type(e).__name__, e))
                    continue
                sols[i] = Vs
                res = np.abs(Ei[:, None] * Vs - Vs @ h0 - Y).max()
                res2 = np.abs(Vs @ P - Vs).max()
                bound = 1e3 * atol * (1 + np.abs(Y).max())
                if not (res <= bound and res2 <= bound):
                    fails.append("solve_sylvester_KPM index (%d, implicit), auxiliary vectors %s: residual %.3g, |V P - V| = %.3g (bound %.3g)" % (i, p["aux"], res, res2, bound))
        warned = any(issubclass(x.category, RuntimeWarning) and "did not converge" in str(x.message) for x in w)
        if warned:  # accuracy is promised only without the warning
            fails = [f for f in fails if " raised " in f]
        return fails, warned, sols

    out = []
    res = {}
    order = (True, False) if p["dense"] else (False, True)
    for dense in order:
        fs, warned, sols = present(dense)
        res[dense] = (warned, sols)
        tag = "dense" if dense else "sparse"
        kind = "%s %s h0" % ("complex Hermitian" if p["cplx"] else "real symmetric", tag)
        out += ["[%s] %s" % (kind, f) for f in fs]
    (wd, sd), (ws, ss) = res[True], res[False]
    if wd != ws:
        out.append("convergence RuntimeWarning for the %s presentation only (%s h0, n = %d): the same matrix converges when given as %s"
                   % ("dense" if wd else "sparse", "complex Hermitian" if p["cplx"] else "real symmetric", n, "sparse" if wd else "dense"))
    elif not wd:
        for i in sd:
            if i in ss and not np.abs(sd[i] - ss[i]).max() <= 2e3 * atol * (1 + np.abs(Ys[i]).max()):
                out.append("dense and sparse presentations of the same h0 give different solutions for block (%d, implicit): %.3g apart" % (i, np.abs(sd[i] - ss[i]).max()))
    return out, p


def eval_rescale(seed):
    """kpm.rescale with explicit bounds (tight-but-valid and loose) or estimated bounds, dense ndarray and
    sparse input, followed by kpm.greens_function on the rescaled problem; plus the two documented
    rejections (single eigenvalue -> ValueError, unsupported type -> TypeError)."""
    rng = __import__("random").Random(seed)
    rs = np.random.default_rng(seed)
    n = rng.randint(3, 6)
    cplx = rng.random() < 0.4
    a0 = rand_c(rs, (n, n), cplx)
    h = (a0 + a0.conj().T) / 2
    w = np.linalg.eigvalsh(h)
    kind = rng.choice(["tight", "loose", "loose", "estimated", "single", "badtype"])
    dense = rng.random() < 0.5
    eps = rng.choice([0.01, 0.05, 0.2])
    info = dict(kind=kind, dense=dense, n=n, cplx=cplx, eps=eps)
    harg = np.array(h) if dense else sp.csr_array(h)
    fails = []
    with warnings.catch_warnings(record=True) as wl:
        warnings.simplefilter("always")
        if kind == "single":
            c = rng.choice([2.0, -1.5])
            hs = c * (np.eye(n) if dense else sp.identity(n, format="csr"))
            try:
                impl_kpm.rescale(hs, eps=eps)
                fails.append("rescale accepted a Hamiltonian with a single eigenvalue (documented: ValueError)")
            except ValueError:
                pass
            except Exception as e:
                fails.append("rescale on a single-eigenvalue Hamiltonian raised %s instead of ValueError: %s" % (type(e).__name__, e))
            return fails, info
        if kind == "badtype":
            try:
                impl_kpm.rescale(h.tolist(), eps=eps, bounds=(float(w[0]), float(w[-1])))
                fails.append("rescale accepted a nested list (documented: numpy array or sparse matrix)")
            except TypeError:
                pass
            except Exception as e:
                fails.append("rescale on a nested list raised %s instead of TypeError: %s" % (type(e).__name__, e))
            return fails, info
        if kind == "tight":
            bounds = (float(w[0]), float(w[-1]))
        elif kind == "loose":
            bounds = (float(w[0]) - rng.choice([0.1, 1.0, 3.0]), float(w[-1]) + rng.choice([0.1, 2.0]))
        else:
            bounds = None
        try:
            hr, (a, b) = impl_kpm.rescale(harg, eps=eps, bounds=bounds)
        except Exception as e:
            return ["rescale(%s bounds, %s) raised %s: %s" % (kind, "dense" if dense else "sparse", type(e).__name__, e)], info
        if dense != isinstance(hr, np.ndarray) or (not dense and not sp.issparse(hr)):
            fails.append("rescale returned %s for a %s Hamiltonian" % (type(hr).__name__, "dense" if dense else "sparse"))
        hrd = hr.toarray() if sp.issparse(hr) else np.asarray(hr)
        if bounds is not None:
            ea, eb = abs(bounds[1] - bounds[0]) / (2.0 - eps), (bounds[1] + bounds[0]) / 2.0
            if not (np.isclose(a, ea, rtol=1e-13, atol=0) and np.isclose(b, eb, rtol=1e-13, atol=1e-15)):
                fails.append("rescale parameters (a, b) = (%r, %r), bounds %s give (%r, %r)" % (a, b, bounds, ea, eb))
        if not np.allclose(hrd, (h - b * np.eye(n)) / a, rtol=1e-12, atol=1e-12):
            fails.append("rescaled Hamiltonian is not (H - b) / a")
        wr = np.linalg.eigvalsh(hrd)
        if not (wr[0] >= -1 - 1e-12 and wr[-1] <= 1 + 1e-12):
            fails.append("spectrum of the rescaled Hamiltonian [%.6g, %.6g] leaves [-1, 1] (%s bounds)" % (wr[0], wr[-1], kind))
        # Green's function of the original problem through the rescaled one
        gaps = np.diff(w)
        j = int(np.argmax(gaps))
        E = float((w[j] + w[j + 1]) / 2)
        v = rand_c(rs, (n,), cplx)
        atol = 1e-4
        try:
            x = impl_kpm.greens_function(hr, (E - b) / a, v / a, atol, 1e5)
        except Exception as e:
            return fails + ["greens_function on the rescaled %s Hamiltonian raised %s: %s" % ("dense" if dense else "sparse", type(e).__name__, e)], info
        res = float(np.linalg.norm((E * np.eye(n) - h) @ x - v))
    warned = any(issubclass(x_.category, RuntimeWarning) and "did not converge" in str(x_.message) for x_ in wl)
    if not warned and not res <= 2 * atol * a:
        fails.append("(E - H) x = v through rescale (%s bounds): residual %.3g > atol*a = %.3g without warning" % (kind, res, atol * a))
    info["warned"] = warned
    return fails, info


def oracle_kpm(ctx, n=None):
    rng = ctx.rng
    n = n or ctx.n(40, 600)
    fails, feats = [], set()
    for i in range(n):
        h, energy, vector, atol, mm = kpm_instance(rng)
        if mm < 10:
            mm = 10
        if rng.random() < 0.5:
            h = sp.csr_array(h)
        with warnings.catch_warnings(record=True) as w:
            warnings.simplefilter("always")
            try:
                sol = impl_kpm.greens_function(h, energy, vector, atol, mm)
            except Exception as e:
                fails.append(dict(what="kpm.greens_function raised %s: %s" % (type(e).__name__, e), input=dict(oracle="kpm", h=enc(h.toarray() if sp.issparse(h) else h), energy=energy, vector=enc(vector), atol=atol, max_moments=mm)))
                continue
        warned = any(issubclass(x.category, RuntimeWarning) for x in w)
        res = float(np.linalg.norm((h @ sol - energy * sol) + vector))
        feats.add((warned, res <= atol, sp.issparse(h)))
        if not warned and not res <= atol:
            fails.append(dict(what="residual %.3g > atol %.3g without RuntimeWarning" % (res, atol), input=dict(oracle="kpm", h=enc(h.toarray() if sp.issparse(h) else h), energy=energy, vector=enc(vector), atol=atol, max_moments=mm)))
    # the hybrid Sylvester solver built on it, with explicit solver options
    nsyl = ctx.n(25, 300)
    for i in range(nsyl):
        seed = rng.randrange(2**31)
        fs, p = eval_sylvester_kpm(seed)
        o = p["opts"] or {}
        feats.add(("sylvester", tuple(p["sizes"]), len(p["aux"]) > 0, "max_moments" in o, "eps" in o, p["cplx"], p["opts"] is None, p["dense"]))
        for f in fs[:1]:
            fails.append(dict(what=f, input=dict(oracle="kpm_sylvester", seed=seed)))
        if sum(1 for f in fails if f["input"].get("oracle") == "kpm_sylvester") >= 3:
            break  # enough failing inputs; a non-converging solver makes every further case slow
    nres = ctx.n(40, 600)
    for i in range(nres):
        seed = rng.randrange(2**31)
        fs, info = eval_rescale(seed)
        feats.add(("rescale", info["kind"], info["dense"], info["cplx"], info.get("warned")))
        for f in fs[:1]:
            fails.append(dict(what=f, input=dict(oracle="kpm_rescale", seed=seed)))
    return dict(evaluations=n + nsyl + nres, nontrivial=len(feats), rule="distinct (warned, converged, sparse) for greens_function; (block sizes, auxiliary_vectors?, max_moments?, eps?, complex, default options, dense h0) for solve_sylvester_KPM; (bounds kind, dense, complex, warned) for rescale", samples=[], failures=fails[:10])


# ---------------------------------------------------------------------------
# float oracle: direct_greens_function and solve_sylvester_direct


def rand_c(rs, shape, cplx):
    a = rs.standard_normal(shape)
    return a + 1j * rs.standard_normal(shape) if cplx else a


def block_levels(pyrng, base, size):
    """Levels of one explicit block (values base + 0.3 j): ascending, descending, shuffled with random
    multiplicities, or a degenerate level interleaved with another one ((x, y, x), (x, y, y, x), (x, y, x, y)).
    The order inside a block is the order of the supplied eigenvectors; nothing requires it to be sorted."""
    v = [base + 0.3 * j for j in range(4)]
    pattern = pyrng.choice(["equal", "asc", "desc", "desc", "shuffle", "shuffle", "interleaved", "interleaved"])
    if size == 1 or pattern == "equal":
        return [base] * size, "equal"
    if pattern == "asc":
        return v[:size], pattern
    if pattern == "desc":
        return v[:size][::-1], pattern
    if pattern == "interleaved" and size >= 3:
        x, y = pyrng.sample(v[:3], 2)
        return ([x, y, x] if size == 3 else pyrng.choice([[x, y, y, x], [x, y, x, y], [y, x, x, y]])), pattern
    lv = [pyrng.choice(v[:max(2, size - 1)]) for _ in range(size)]
    pyrng.shuffle(lv)
    if lv == sorted(lv):
        lv = lv[::-1]
    return lv, "shuffle"


def float_problem(rs, pyrng, nmax):
    """h0 with known explicit eigenvectors split in blocks of 1-4 levels in arbitrary order (descending,
    shuffled, degenerate levels interleaved with others), real or complex, Hermitian or biorthogonal."""
    cplx = pyrng.random() < 0.5
    hermitian = pyrng.random() < 0.5
    nblocks = pyrng.randint(1, 2)
    sizes = [pyrng.randint(1, 4) for _ in range(nblocks)]
    while sum(sizes) > nmax - 1:
        sizes[sizes.index(max(sizes))] -= 1
    sizes = [s_ for s_ in sizes if s_ > 0]
    nexp = sum(sizes)
    n = pyrng.randint(max(3, nexp + 1), max(3, nexp + 1, nmax))
    if hermitian:
        R = np.linalg.qr(rand_c(rs, (n, n), cplx))[0]
        Ri = R.conj().T
    else:
        R = rand_c(rs, (n, n), cplx) + 2 * np.eye(n)
        while np.linalg.cond(R) > 30:  # keep the eigenproblem well conditioned (tolerances assume it)
            R = 0.5 * rand_c(rs, (n, n), cplx) + 2 * np.eye(n)
        Ri = np.linalg.inv(R)
    levels, patterns = [], []
    bases = pyrng.sample([-5.0, -3.0, -1.0, 1.0], len(sizes))
    for s_, base in zip(sizes, bases):
        lv, pat = block_levels(pyrng, base, s_)
        levels += lv
        patterns.append(pat)
    rest = [4.0 + 1.3 * j + (0.4j * (j % 2) if (not hermitian and cplx) else 0) for j in range(n - nexp)]
    D = np.array(levels + rest, dtype=complex if cplx or not hermitian else float)
    if not cplx:
        D = D.real
    h0 = R @ np.diag(D) @ Ri
    if not cplx:
        h0 = h0.real
    return dict(n=n, cplx=cplx, hermitian=hermitian, R=R, Ri=Ri, sizes=sizes, levels=levels, h0=h0, patterns=patterns)


def rotation_problem(pyrng):
    """Real-dtype, non-symmetric, exactly representable h0 = S B S^-1: S an integer unimodular
    matrix, B block diagonal with rotation-like blocks [[a,-b],[b,a]] (eigenvalues a +- ib) and real
    1x1 blocks.  The explicit eigenvalues contain at least one member of a complex-conjugate pair;
    the biorthogonal right/left eigenvectors are complex (entries in Z[i] resp. Z[i]/2)."""
    n = pyrng.randint(3, 7)
    S, Si = unimodular(pyrng, n, False, bound=3)
    S, Si = S.real, Si.real
    B = np.zeros((n, n))
    T = np.zeros((n, n), dtype=complex)
    Ti = np.zeros((n, n), dtype=complex)
    D = np.zeros(n, dtype=complex)
    # the first block is a rotation (it carries the explicit complex level); the rest is mixed
    centres = pyrng.sample([-9, -6, -3, 0, 3, 6, 9, 12], n)
    pos, blk, pairs = 0, 0, []
    while pos < n:
        a = float(centres[blk])
        if n - pos >= 2 and (blk == 0 or pyrng.random() < 0.4):
            b = float(pyrng.choice([1, 2]))
            B[pos:pos + 2, pos:pos + 2] = [[a, -b], [b, a]]
            T[pos:pos + 2, pos:pos + 2] = [[1, 1], [-1j, 1j]]
            Ti[pos:pos + 2, pos:pos + 2] = [[0.5, 0.5j], [0.5, -0.5j]]
            D[pos], D[pos + 1] = a + 1j * b, a - 1j * b
            pairs.append(pos)
            pos += 2
        else:
            B[pos, pos] = a
            T[pos, pos] = Ti[pos, pos] = 1
            D[pos] = a
            pos += 1
        blk += 1
    h0 = S @ B @ Si  # exact integers, real dtype
    W, Wi = S @ T, Ti @ Si
    # choice of the explicit eigenvectors
    kind = pyrng.choice(["pair_one_block", "pair_two_blocks", "one_member", "pair_plus_real"])
    reals = [j for j in range(n) if D[j].imag == 0]
    if kind == "pair_plus_real" and not reals:
        kind = "pair_one_block"
    if kind == "pair_one_block":
        groups = [[0, 1]]
    elif kind == "pair_two_blocks":
        groups = [[0], [1]]
    elif kind == "one_member":
        groups = [[pyrng.choice([0, 1])]]
    else:
        groups = [[0, 1], [pyrng.choice(reals)]]
    if sum(len(g) for g in groups) >= n:
        groups = [[0]]
    expl = [j for g in groups for j in g]
    order = expl + [j for j in range(n) if j not in expl]
    return dict(n=n, cplx=True, hermitian=False, R=W[:, order], Ri=Wi[order, :], sizes=[len(g) for g in groups],
                levels=[complex(D[j]) for j in expl], h0=h0, dense_h0=pyrng.random() < 0.5, family="rotation:" + kind)


def eval_float_problem(p, rs):
    """Returns failure strings."""
    fails = []
    n, sizes, R, Ri, h0 = p["n"], p["sizes"], p["R"], p["Ri"], p["h0"]
    nexp = sum(sizes)
    offs = np.cumsum([0] + sizes)
    rights = [R[:, offs[i]:offs[i + 1]] for i in range(len(sizes))]
    lefts = [Ri[offs[i]:offs[i + 1], :].conj().T for i in range(len(sizes))]
    Pfull = np.eye(n) - R[:, :nexp] @ Ri[:nexp, :]
    tol = 1e-8 * (1 + np.abs(h0).max()) * (1 + np.linalg.cond(R))
    h0_arg = (lambda: np.array(h0)) if p.get("dense_h0") else (lambda: sp.csr_array(h0))
    with warnings.catch_warnings():
        warnings.simplefilter("ignore")
        # --- direct_greens_function on the first group
        E = p["levels"][0]
        grp = [j for j in range(sizes[0]) if abs(p["levels"][j] - E) < 1e-9]  # all explicit vectors of that level
        Phi, PhiL = rights[0][:, grp], lefts[0][:, grp]
        try:
            gf = impl_linalg.direct_greens_function(sp.csr_array(h0), E, kernel_vectors=Phi, left_kernel_vectors=None if p["hermitian"] else PhiL)
            b = rand_c(rs, (n,), p["cplx"] or rs.random() < 0.3)
            x = gf(b.copy())
            Pk = np.eye(n) - Phi @ PhiL.conj().T
            r1 = np.abs((E * np.eye(n) - h0) @ x - Pk @ b).max()
            r2 = np.abs(Pk @ x - x).max()
            if not (r1 <= tol * (1 + np.abs(x).max()) and r2 <= tol * (1 + np.abs(x).max())):
                fails.append("direct_greens_function: |(E-H)x - P b| = %.3g, |P x - x| = %.3g (tol %.3g)" % (r1, r2, tol))
        except Exception as e:
            fails.append("direct_greens_function raised %s: %s" % (type(e).__name__, e))
        # --- solve_sylvester_direct
        eigvecs = [r if p["hermitian"] else (r, l) for r, l in zip(rights, lefts)]
        try:
            opts = {} if p.get("default_opts") else dict(eigenvalue_atol=1e-9)
            solve = impl_bd.solve_sylvester_direct(h0_arg(), eigvecs, nonhermitian=not p["hermitian"], **opts)
        except Exception as e:
            return fails + ["solve_sylvester_direct raised %s: %s" % (type(e).__name__, e)]
        nb = len(sizes)
        HBB = Pfull @ h0 @ Pfull
        if solve(zero, (0, nb)) is not zero:
            fails.append("solve_sylvester_direct does not map the zero sentinel to zero")
        for i in range(nb):
            Hii = np.diag(p["levels"][offs[i]:offs[i + 1]])
            # right-implicit: Y (k_i x n), V = solve(Y, (i, nb)):  H_ii V - V H_BB = Y Pfull
            Y = rand_c(rs, (sizes[i], n), p["cplx"])
            try:
                V = solve(Y.copy(), (i, nb))
                res = np.abs(Hii @ V - V @ HBB - Y @ Pfull).max()
                res2 = np.abs(V @ Pfull - V).max()
                if not (res <= tol * (1 + np.abs(V).max()) and res2 <= tol * (1 + np.abs(V).max())):
                    fails.append("solve_sylvester_direct index (%d, implicit): residual %.3g, |V P - V| = %.3g (tol %.3g)" % (i, res, res2, tol))
            except Exception as e:
                fails.append("solve_sylvester_direct index (%d, implicit) raised %s: %s" % (i, type(e).__name__, e))
            if not p["hermitian"]:
                Y = rand_c(rs, (n, sizes[i]), p["cplx"])
                try:
                    V = solve(Y.copy(), (nb, i))
                    res = np.abs(HBB @ V - V @ Hii - Pfull @ Y).max()
                    res2 = np.abs(Pfull @ V - V).max()
                    if not (res <= tol * (1 + np.abs(V).max()) and res2 <= tol * (1 + np.abs(V).max())):
                        fails.append("solve_sylvester_direct index (implicit, %d): residual %.3g, |P V - V| = %.3g (tol %.3g)" % (i, res, res2, tol))
                except Exception as e:
                    fails.append("solve_sylvester_direct index (implicit, %d) raised %s: %s" % (i, type(e).__name__, e))
            # explicit-explicit blocks
            for j in range(nb):
                Y = rand_c(rs, (sizes[i], sizes[j]), p["cplx"])
                try:
                    V = solve(Y.copy(), (i, j))
                except Exception as e:
                    fails.append("solve_sylvester_direct explicit block (%d,%d) raised %s: %s" % (i, j, type(e).__name__, e))
                    continue
                Hjj = np.diag(p["levels"][offs[j]:offs[j + 1]])
                Ei, Ej = np.array(p["levels"][offs[i]:offs[i + 1]]), np.array(p["levels"][offs[j]:offs[j + 1]])
                mask = np.abs(Ei[:, None] - Ej[None, :]) > 1e-9
                res = np.abs((Hii @ V - V @ Hjj - Y)[mask]).max(initial=0)
                if not res <= tol * (1 + np.abs(V).max()) or np.abs(np.asarray(V)[~mask]).max(initial=0) != 0:
                    fails.append("solve_sylvester_direct explicit block (%d,%d): residual %.3g" % (i, j, res))
    return fails


def eval_direct_options(seed):
    """Option handling of solve_sylvester_direct on a Hermitian problem whose explicit block has two
    levels 1e-7 apart:
      * eigenvalue_atol=1e-5 groups them (explicit-explicit element exactly zero, one constrained solve);
      * the deprecated spelling atol=1e-5 must warn (DeprecationWarning) and give bit-identical results,
        also together with the ignored `eps` (second warning) and when both spellings are given
        (eigenvalue_atol wins);
      * no option: documented default 1e-12, the two levels are NOT grouped (element Y/(E_0-E_1));
      * a solver built with nonhermitian=False refuses the left-implicit block with NotImplementedError."""
    rng = __import__("random").Random(seed)
    rs = np.random.default_rng(seed)
    n = rng.randint(4, 7)
    cplx = rng.random() < 0.5
    V = np.linalg.qr(rand_c(rs, (n, n), cplx))[0]
    e0 = float(rng.choice([-1, 0, 2]))
    split = 1e-7
    D = np.array([e0, e0 + split] + [e0 + 4.0 + j for j in range(n - 2)])
    h0 = V @ np.diag(D) @ V.conj().T
    h0 = (h0 + h0.conj().T) / 2
    vecs = [V[:, :2]]
    P = np.eye(n) - V[:, :2] @ V[:, :2].conj().T
    Y = rand_c(rs, (2, n), cplx)
    Yd = rand_c(rs, (2, 2), cplx)
    info = dict(n=n, cplx=cplx, e0=e0)
    fails = []

    def build(**kw):
        with warnings.catch_warnings(record=True) as wl:
            warnings.simplefilter("always")
            sv = impl_bd.solve_sylvester_direct(sp.csr_array(h0), list(vecs), **kw)
            out = (np.asarray(sv(Y.copy(), (0, 1))), np.asarray(sv(Yd.copy(), (0, 0))))
        return sv, out, [str(w.message) for w in wl if issubclass(w.category, DeprecationWarning)]

    try:
        s_new, o_new, w_new = build(eigenvalue_atol=1e-5)
        s_old, o_old, w_old = build(atol=1e-5)
        s_eps, o_eps, w_eps = build(atol=1e-5, eps=0.2)
        s_both, o_both, w_both = build(eigenvalue_atol=1e-5, atol=1e-12)
        s_def, o_def, w_def = build()
    except Exception as e:
        return ["solve_sylvester_direct option handling raised %s: %s" % (type(e).__name__, e)], info
    if w_new or w_def:
        fails.append("DeprecationWarning without a deprecated option: %s" % (w_new + w_def))
    if not any("`atol`" in m for m in w_old):
        fails.append("deprecated option `atol` accepted without DeprecationWarning")
    if not (any("`atol`" in m for m in w_eps) and any("`eps`" in m for m in w_eps)):
        fails.append("deprecated options `atol`, `eps`: expected two DeprecationWarnings, got %s" % w_eps)
    for name, o in (("atol=1e-5", o_old), ("atol=1e-5, eps=0.2", o_eps), ("eigenvalue_atol=1e-5, atol=1e-12", o_both)):
        if not (np.array_equal(o[0], o_new[0]) and np.array_equal(o[1], o_new[1])):
            fails.append("options (%s) do not give the solution of eigenvalue_atol=1e-5 (max difference %.3g / %.3g)" % (
                name, float(np.abs(o[0] - o_new[0]).max()), float(np.abs(o[1] - o_new[1]).max())))
    # tolerance actually used
    if np.abs(o_new[1]).max() != 0:
        fails.append("eigenvalue_atol=1e-5: levels 1e-7 apart are not treated as degenerate (explicit block not zero)")
    expect = Yd[0, 1] / (D[0] - D[1])
    if not np.isclose(o_def[1][0, 1], expect, rtol=1e-5):
        fails.append("default options: explicit element %r, expected Y/(E_0-E_1) = %r (default eigenvalue_atol 1e-12)" % (complex(o_def[1][0, 1]), complex(expect)))
    # residuals on the complement (grouped: the level of the group is E_0, error O(split))
    for name, o, tol in (("eigenvalue_atol=1e-5", o_new, 1e-5), ("default", o_def, 1e-6)):
        Vs = o[0]
        res = np.abs(D[:2, None] * Vs - Vs @ h0 - Y @ P).max()
        if not (res <= tol * (1 + np.abs(Vs).max()) and np.abs(Vs @ P - Vs).max() <= 1e-9 * (1 + np.abs(Vs).max())):
            fails.append("%s: residual %.3g of E v - v h0 = y P (tol %.3g)" % (name, res, tol))
    # left-implicit block without nonhermitian=True
    try:
        s_new(rand_c(rs, (n, 2), cplx), (1, 0))
        fails.append("left-implicit block solved by a solver built with nonhermitian=False (documented: NotImplementedError)")
    except NotImplementedError:
        pass
    except Exception as e:
        fails.append("left-implicit block with nonhermitian=False raised %s instead of NotImplementedError: %s" % (type(e).__name__, e))
    return fails, info


def oracle_greens(ctx, n=None):
    pyrng = ctx.rng
    n = n or ctx.n(150, 4000)
    fails, feats = [], set()
    for i in range(n):
        seed = pyrng.randrange(2**32)
        rs = np.random.default_rng(seed)
        sub = __import__("random").Random(seed)
        rot = i % 4 == 3  # real non-symmetric h0 with complex-conjugate explicit eigenvalues
        p = rotation_problem(sub) if rot else float_problem(rs, sub, ctx.n(7, 12))
        # documented default eigenvalue_atol (1e-12) on the instances whose explicit levels are computed
        # to rounding accuracy (unitary or exact eigenvectors)
        p["default_opts"] = (p["hermitian"] or rot) and sub.random() < 0.4
        fs = eval_float_problem(p, rs)
        feats.add((p["n"], p["cplx"], p["hermitian"], tuple(p["sizes"]), len(set(p["levels"])) < len(p["levels"]), p.get("family"), p.get("dense_h0"), p["default_opts"], tuple(p.get("patterns", ()))))
        for f in fs[:2]:
            fails.append(dict(what=("[%s, %s h0] " % (p["family"], "dense" if p["dense_h0"] else "sparse") if rot else
                                    "[explicit levels %s in blocks of sizes %s, %s, %s] " % ([complex(l).real if complex(l).imag == 0 else complex(l) for l in p["levels"]], p["sizes"], "Hermitian" if p["hermitian"] else "biorthogonal", "complex" if p["cplx"] else "real")) + f,
                              input=dict(oracle="greens", seed=seed, nmax=ctx.n(7, 12), rotation=rot)))
        if len(fails) > 10:
            break
    nopt = ctx.n(8, 100)
    for i in range(nopt):
        seed = pyrng.randrange(2**31)
        fs, info = eval_direct_options(seed)
        feats.add(("options", info["n"], info["cplx"]))
        for f in fs[:2]:
            fails.append(dict(what=f, input=dict(oracle="direct_options", seed=seed)))
    return dict(evaluations=n + nopt, nontrivial=len(feats), rule="distinct (n, complex, hermitian, explicit block sizes, degenerate explicit levels, rotation family, dense h0, default options, level-order pattern of each explicit block); (n, complex) for the option-handling cases", samples=[], failures=fails[:10])


def replay(inp):
    """Replay of an oracle failure recorded by this module; returns 1 if it still fails."""
    if inp.get("oracle") == "greens":
        rs = np.random.default_rng(inp["seed"])
        sub = __import__("random").Random(inp["seed"])
        p = rotation_problem(sub) if inp.get("rotation") else float_problem(rs, sub, inp["nmax"])
        if not inp.get("rotation"):
            print("  explicit levels", p["levels"], "block sizes", p["sizes"], "Hermitian" if p["hermitian"] else "biorthogonal", "complex" if p["cplx"] else "real", "n =", p["n"])
        if inp.get("rotation"):
            print("  h0 (real dtype, %s) =" % ("dense" if p["dense_h0"] else "sparse"), p["h0"].tolist(), "explicit levels", p["levels"], "blocks", p["sizes"])
        p["default_opts"] = (p["hermitian"] or bool(inp.get("rotation"))) and sub.random() < 0.4
        fs = eval_float_problem(p, rs)
        for f in fs:
            print("  still failing:", f)
        return 1 if fs else 0
    if inp.get("oracle") in ("kpm_rescale", "direct_options"):
        fs, info = (eval_rescale if inp["oracle"] == "kpm_rescale" else eval_direct_options)(inp["seed"])
        print("  case:", info)
        for f in fs:
            print("  still failing:", f)
        return 1 if fs else 0
    if inp.get("oracle") == "kpm_sylvester":
        fs, _ = eval_sylvester_kpm(inp["seed"])
        for f in fs:
            print("  still failing:", f)
        return 1 if fs else 0
    if inp.get("oracle") == "kpm":
        h, v = dec(inp["h"]), dec(inp["vector"])
        if not np.any(h.imag):
            h, v = h.real, v.real
        with warnings.catch_warnings(record=True) as w:
            warnings.simplefilter("always")
            try:
                sol = impl_kpm.greens_function(h, inp["energy"], v, inp["atol"], inp["max_moments"])
            except Exception as e:
                print("  still failing: raised", type(e).__name__, e)
                return 1
        warned = any(issubclass(x.category, RuntimeWarning) for x in w)
        res = float(np.linalg.norm((h @ sol - inp["energy"] * sol) + v))
        print("  residual %.3g, atol %.3g, warned %s" % (res, inp["atol"], warned))
        return 0 if (warned or res <= inp["atol"]) else 1
    return 1
