"""Validation of tools/translate_algorithms.py on every run.

(1) Round trip: the translator's intermediate form is printed back as mini-language source and
    must parse to the same Python AST as every function of /repo/pymablock/algorithms.py.
(2) The Coq text emitted for Gen/Algorithms_gen.v is re-derived from that intermediate form by a
    second, independent emitter (s-expression walk) and compared token by token.
A mistranslation therefore shows up as a structural difference naming the series.
"""
import ast
import re
import sys
from pathlib import Path

from vlib import core

sys.path.insert(0, str(core.VERIF / "tools"))
import translate_algorithms as TA  # noqa: E402


def py_expr(e):
    t = e[0]
    if t == "Lit":
        return repr(e[1])
    if t == "Adj":
        return "%r.adj" % e[1]
    if t == "EZero":
        return "zero"
    if t == "Neg":
        return "(-%s)" % py_expr(e[1])
    if t == "Add":
        return "(%s + %s)" % (py_expr(e[1]), py_expr(e[2]))
    if t == "Sub":
        return "(%s - %s)" % (py_expr(e[1]), py_expr(e[2]))
    if t == "DivInt":
        return "(%s / %d)" % (py_expr(e[1]), e[2])
    if t == "Call":
        return "%s(%s)" % (e[1], ", ".join(repr(a[1]) if a[0] == "ArgSeries" else py_expr(a[1]) for a in e[2]))
    if t == "IfFlag":
        fl = e[1][1] if e[1][0] == "FlagGlobal" else "%s[index[0]]" % e[1][1]
        return "(%s if %s else %s)" % (py_expr(e[2]), fl, py_expr(e[3]))
    raise ValueError(e)


def py_alg(a):
    out = ["def %s():" % a["name"]]
    for s in a["series"]:
        out.append("    with %r:" % s["name"])
        st = s["start"]
        if st[0] == "StartZero":
            out.append("        start = 0")
        elif st[0] == "StartOne":
            out.append("        start = 1")
        elif st[0] == "StartInput":
            out.append("        start = %r" % (st[1] + "_0"))
        elif st[0] == "StartOther":
            out.append("        start = %r" % st[1])
        for l in s["body"]:
            if l[0] == "Marker":
                out.append("        %s" % ("hermitian" if l[1] == "Herm" else "antihermitian"))
            elif l[1] == "Default":
                out.append("        %s" % py_expr(l[2]))
            else:
                out.append("        if %s:\n            %s" % (l[1].lower(), py_expr(l[2])))
        if not s["body"] and st[0] == "NoStart":
            out.append("        pass")
    for p in a["products"]:
        out.append("    with %r:" % " @ ".join(p["factors"]))
        out.append("        %s" % ("hermitian" if p["hermitian"] else "pass"))
    if len(a["outputs"]) == 1:
        out.append("    return %r" % a["outputs"][0])
    elif a["outputs"]:
        out.append("    return %s" % ", ".join(repr(o) for o in a["outputs"]))
    return "\n".join(out) + "\n"


def canon_fn(fn):
    """ast dump of a function with start-assignment position and `pass` normalised."""
    fn = ast.parse(ast.unparse(fn)).body[0]
    for w in fn.body:
        if isinstance(w, ast.With):
            body = [st for st in w.body if not isinstance(st, ast.Pass)]
            starts = [st for st in body if isinstance(st, ast.Assign)]
            rest = [st for st in body if not isinstance(st, ast.Assign)]
            w.body = starts + rest or [ast.Pass()]
    # products first or interleaved does not matter to the compiler: keep original order
    return ast.dump(fn)


def tie_translator(ctx):
    path = core.REPO / "pymablock" / "algorithms.py"
    src = path.read_text(encoding="utf-8")
    dis = []
    try:
        algs = TA.translate_source(src)
    except TA.Unsupported as e:
        return dict(cases=1, nontrivial=0, rule="translator round trip", samples=[],
                    disagreements=[dict(what="translator rejects algorithms.py (fail-closed): %s" % e)])
    tree = ast.parse(src)
    fns = {st.name: st for st in tree.body if isinstance(st, ast.FunctionDef)}
    n = 0
    for a in algs:
        n += 1
        back = ast.parse(py_alg(a)).body[0]
        # the original keeps series and products in source order; the printer puts products last.
        orig = fns[a["name"]]
        o_ser = [w for w in orig.body if isinstance(w, ast.With) and "@" not in w.items[0].context_expr.value]
        o_prod = [w for w in orig.body if isinstance(w, ast.With) and "@" in w.items[0].context_expr.value]
        o_ret = [w for w in orig.body if isinstance(w, ast.Return)]
        o_other = [w for w in orig.body if not isinstance(w, (ast.With, ast.Return)) and not (isinstance(w, ast.Expr) and isinstance(w.value, ast.Constant))]
        if o_other:
            dis.append(dict(what="%s: statements the translator ignores: %s" % (a["name"], [ast.dump(x)[:80] for x in o_other])))
        orig2 = ast.FunctionDef(name=orig.name, args=orig.args, body=o_ser + o_prod + o_ret, decorator_list=[], returns=None, type_comment=None)
        ast.fix_missing_locations(orig2)
        if canon_fn(orig2) != canon_fn(back):
            # find the first differing with-block
            what = "round trip differs"
            for wo, wb in zip(orig2.body, back.body):
                if canon_fn(ast.FunctionDef(name="f", args=orig.args, body=[wo], decorator_list=[])) != canon_fn(ast.FunctionDef(name="f", args=orig.args, body=[wb], decorator_list=[])):
                    what = "round trip differs at %s" % ast.unparse(wo)[:200]
                    break
            dis.append(dict(what="%s: %s" % (a["name"], what)))
    # second emitter for the Coq text
    gen_path = core.THEORIES / "Gen" / "Algorithms_gen.v"
    if gen_path.exists():
        txt = gen_path.read_text()
        for a in algs:
            for s in a["series"]:
                n += 1
                names = re.findall(r'sname := "((?:[^"]|"")*)"', txt)
                if s["name"].replace('"', '""') not in names:
                    dis.append(dict(what="%s: series %s missing from the generated Coq text" % (a["name"], s["name"])))
            want = sexp_tokens_alg(a)
            got = coq_tokens(txt, a["name"])
            if want != got:
                k = next((i for i, (x, y) in enumerate(zip(want, got)) if x != y), min(len(want), len(got)))
                dis.append(dict(what="%s: generated Coq term differs from the independent emitter at token %d: %s vs %s" % (a["name"], k, want[k:k + 6], got[k:k + 6])))
    return dict(cases=n, nontrivial=len(algs), rule="translator round trip (IR -> source -> ast equal to algorithms.py) and second Coq emitter; one case per algorithm and per series",
                samples=[dict(algorithm=a["name"], series=[s["name"] for s in a["series"]], products=[" @ ".join(p["factors"]) for p in a["products"]]) for a in algs],
                disagreements=dis)


# --- independent tokeniser-level emitter ------------------------------------------------


def tok_expr(e, out):
    t = e[0]
    if t in ("Lit", "Adj"):
        out += [t, "S:" + e[1]]
    elif t == "EZero":
        out += ["EZero"]
    elif t == "Neg":
        out += ["Neg"]
        tok_expr(e[1], out)
    elif t in ("Add", "Sub"):
        out += [t]
        tok_expr(e[1], out)
        tok_expr(e[2], out)
    elif t == "DivInt":
        out += ["DivInt"]
        tok_expr(e[1], out)
        out += ["Z:%d" % e[2]]
    elif t == "Call":
        out += ["Call", "S:" + e[1]]
        for a in e[2]:
            if a[0] == "ArgSeries":
                out += ["ArgSeries", "S:" + a[1]]
            else:
                out += ["ArgExpr"]
                tok_expr(a[1], out)
    elif t == "IfFlag":
        out += ["IfFlag", e[1][0], "S:" + e[1][1]]
        tok_expr(e[2], out)
        tok_expr(e[3], out)
    else:
        raise ValueError(e)


def sexp_tokens_alg(a):
    out = []
    for s in a["series"]:
        out += ["sname", "S:" + s["name"], "sstart", s["start"][0]] + (["S:" + s["start"][1]] if len(s["start"]) > 1 else []) + ["sbody"]
        for l in s["body"]:
            if l[0] == "Marker":
                out += ["Marker", l[1]]
            else:
                out += ["Line", l[1]]
                tok_expr(l[2], out)
    for p in a["products"]:
        out += ["pfactors"] + ["S:" + f for f in p["factors"]] + ["pherm", "true" if p["hermitian"] else "false"]
    out += ["aoutputs"] + ["S:" + o for o in a["outputs"]]
    return out


def coq_tokens(txt, name):
    m = re.search(r"Definition %s_alg : algorithm := \{\|(.*?)\|\}\.\n" % re.escape(name), txt, re.S)
    if not m:
        return ["<missing definition>"]
    body = m.group(1)
    toks = re.findall(r'"(?:[^"]|"")*"|\(-?\d+\)%Z|[A-Za-z_][A-Za-z_0-9\']*', body)
    out = []
    for t in toks:
        if t.startswith('"'):
            out.append("S:" + t[1:-1].replace('""', '"'))
        elif t.endswith("%Z"):
            out.append("Z:%d" % int(t[1:-3]))
        elif t in ("aseries", "aproducts"):
            continue
        else:
            out.append(t)
    return out
