"""Correspondence and oracle for solve_sylvester_diagonal (C16_diagonal; also used by C20).

tie_sylvdiag(ctx):   the real closure returned by solve_sylvester_diagonal(eigs, vecs_implicit, atol)
                     on sequences of calls with dense / sparse / sympy right-hand sides versus the Coq
                     model PV.Front.SylvDiag.run, evaluated by vm_compute (core.coq_eval_cases).
                     Values are compared exactly (exact-float data), sparsity patterns are not compared.
oracle_sylvdiag(ctx): residual check on random float data, implementation only.
"""
import sys, warnings
from fractions import Fraction as Fr
from vlib import core

sys.path.insert(0, str(core.REPO))
import numpy as np  # noqa: E402
import sympy  # noqa: E402
import scipy.sparse as sp  # noqa: E402
from . import gq  # noqa: E402
from .gq import G  # noqa: E402

HEADER = """Require Import List ZArith QArith Qcanon.
Require Import PV.Front.GaussQc PV.Front.SylvDiag.
Import ListNotations.
Section Case.
Variable t : Qc. Hypothesis Ht : Qcltb t 0 = false.
Definition CF := GF t Ht.
Definition ev (l : list G) : eigs CF := @EVec CF l.
Definition e0 : eigs CF := @EScalar0 CF.
Definition ym (k : kind) (M : list (list G)) : rhs CF := @YMat CF k M.
Definition yz : rhs CF := @YZero CF.
Definition yo : rhs CF := @YOther CF.
Definition ov (M : list (list G)) : outcome CF := @OVal CF M.
Definition oz : outcome CF := @OZero CF.
Definition oe (e : exn) : outcome CF := @ORaise CF e.
Definition ou : outcome CF := @OUnmodelled CF.
Definition vi (M : list (list G)) : option (mat CF) := Some M.
Definition vn : option (mat CF) := None.
Definition case (E : list (eigs CF)) (W : option (mat CF)) (reqs : list (rhs CF * (nat * nat)))
  (expected : list (outcome CF)) : bool :=
  outcomes_eqb CF (fst (run CF E W [] reqs)) expected.
End Case.
"""

ATOLS = [1e-12, 0.0, 0.5, 1.0, 1.5]
RTOL = Fr(1, 100000)


def isclose_exact(a, b, atol):
    """numpy.isclose(a, b, atol=atol) with numpy's default rtol, decided exactly on Gaussian
    rationals (same square-root-free formula as PV.Front.GaussQc.gclose_gen):
    |a - b| <= atol + rtol |b|."""
    a, b = gq.g(a), gq.g(b)
    A = Fr(atol)
    d2 = (a - b).abs2()
    s_ = d2 + A * A - RTOL * RTOL * b.abs2()
    return d2 <= A * A or s_ <= 0 or s_ * s_ <= 4 * A * A * d2


def atol_defs():
    out = []
    for k, a in enumerate(ATOLS):
        f = Fr(a)
        out.append("Definition T%d : Qc := qc %d %d. Definition H%d : Qcltb T%d 0 = false := eq_refl." % (k, f.numerator, f.denominator, k, k))
    return "\n".join(out) + "\n"


# ---------------------------------------------------------------------------
# Coq printing

def cz(n):
    return "(%d)" % n if n < 0 else "%d" % n


def cg(x):
    x = gq.g(x)
    if x.im == 0 and x.re.denominator == 1:
        return "(gz %s)" % cz(x.re.numerator)
    return "(gq %s %d %s %d)" % (cz(x.re.numerator), x.re.denominator, cz(x.im.numerator), x.im.denominator)


def cmat(M):
    return "[" + "; ".join("[" + "; ".join(cg(x) for x in r) + "]" for r in M) + "]"


def ceigs(e, ta):
    if e is None:
        return "(e0 %s)" % ta
    return "(ev %s [%s])" % (ta, "; ".join(cg(x) for x in e))


KIND = dict(dense="Dense", sparse="Sparse", sympy="Symbolic")


def crhs(y, ta):
    if y["kind"] == "zero":
        return "(yz %s)" % ta
    if y["kind"] == "other":
        return "(yo %s)" % ta
    return "(ym %s %s %s)" % (ta, KIND[y["kind"]], cmat(gq.dec(y["M"])))


def cout(o, ta):
    if o["t"] == "zero":
        return "(oz %s)" % ta
    if o["t"] == "val":
        return "(ov %s %s)" % (ta, cmat(gq.dec(o["M"])))
    if o["t"] == "raise":
        return "(oe %s %s)" % (ta, o["e"])
    raise ValueError(o)


def coq_term(case, outs):
    ta = "T%d H%d" % (case["atol_k"], case["atol_k"])
    E = "[" + "; ".join(ceigs(None if e is None else gq.dec([e])[0], ta) for e in case["eigs"]) + "]"
    W = "(vn %s)" % ta if case["W"] is None else "(vi %s %s)" % (ta, cmat(gq.dec(case["W"])))
    reqs = "[" + "; ".join("(%s, (%d%%nat, %d%%nat))" % (crhs(r["Y"], ta), r["i"], r["j"]) for r in case["reqs"]) + "]"
    exp = "[" + "; ".join(cout(o, ta) for o in outs) + "]"
    return "case %s %s %s %s %s" % (ta, E, W, reqs, exp)


# ---------------------------------------------------------------------------
# running the implementation

def sym_of(x):
    x = gq.g(x)
    return sympy.Rational(x.re.numerator, x.re.denominator) + sympy.I * sympy.Rational(x.im.numerator, x.im.denominator)


def np_of(M, force_complex=False):
    cplx = force_complex or any(x.im != 0 for r in M for x in r)
    if cplx:
        return np.array([[complex(float(x.re), float(x.im)) for x in r] for r in M], dtype=complex).reshape(len(M), len(M[0]) if M else 0)
    return np.array([[float(x.re) for x in r] for r in M], dtype=float).reshape(len(M), len(M[0]) if M else 0)


def build_eigs(case):
    symbolic = case["family"] == "sympy"
    out = []
    for e in case["eigs"]:
        if e is None:
            out.append(np.array(0))
            continue
        e = gq.dec([e])[0]
        if symbolic:
            out.append(np.array([sym_of(x) for x in e], dtype=object))
        else:
            out.append(np_of([e])[0])
    return tuple(out)


def build_rhs(y):
    from pymablock.series import zero
    if y["kind"] == "zero":
        return zero
    if y["kind"] == "other":
        return [[1.0]]
    M = gq.dec(y["M"])
    if y["kind"] == "sympy":
        return sympy.Matrix([[sym_of(x) for x in r] for r in M])
    A = np_of(M)
    if y["kind"] == "sparse":
        return sp.csr_array(A)
    return A


def exact_of(v):
    """library value -> outcome dict with an exact matrix."""
    from pymablock.series import zero
    if v is zero:
        return dict(t="zero")
    if isinstance(v, sympy.MatrixBase):
        M = []
        for i in range(v.shape[0]):
            row = []
            for j in range(v.shape[1]):
                e = sympy.nsimplify(sympy.expand(v[i, j])) if False else sympy.expand(v[i, j])
                re, im = e.as_real_imag()
                if not (re.is_Rational and im.is_Rational):
                    return dict(t="nonrational", repr=str(e))
                row.append(G(Fr(int(re.p), int(re.q)), Fr(int(im.p), int(im.q))))
            M.append(row)
        return dict(t="val", M=gq.enc(M))
    if sp.issparse(v):
        v = v.toarray()
    v = np.asarray(v)
    if v.ndim != 2:
        return dict(t="weird", repr=repr(v))
    if not np.all(np.isfinite(v)):
        return dict(t="nonfinite", repr=repr(v.tolist()))
    return dict(t="val", M=gq.enc([[G(Fr(float(np.real(x))), Fr(float(np.imag(x)))) for x in r] for r in v]))


EXN = {ValueError: "ValueError", TypeError: "TypeError", IndexError: "IndexError"}


def run_impl(case):
    from pymablock.block_diagonalization import solve_sylvester_diagonal
    eigs = build_eigs(case)
    W = None if case["W"] is None else np_of(gq.dec(case["W"]))
    atol = ATOLS[case["atol_k"]]
    outs = []
    with warnings.catch_warnings():
        warnings.simplefilter("ignore")
        solve = solve_sylvester_diagonal(eigs, W, atol=atol) if W is not None else solve_sylvester_diagonal(eigs, atol=atol)
        for r in case["reqs"]:
            Y = build_rhs(r["Y"])
            try:
                with np.errstate(all="ignore"):
                    v = solve(Y, (r["i"], r["j"]))
                outs.append(exact_of(v))
            except Exception as e:  # noqa: BLE001
                outs.append(dict(t="raise", e=EXN.get(type(e), "Other:" + type(e).__name__), msg=str(e)[:80]))
    return outs


# ---------------------------------------------------------------------------
# generation

def rand_levels(rng, family, cplx, zero_block=False, offset=False):
    """a pool of energies whose pairwise differences have exact float reciprocals."""
    if family == "sympy":
        pool = [G(Fr(rng.randint(-6, 6), rng.choice([1, 1, 2, 3])), Fr(rng.randint(-2, 2)) if cplx else 0) for _ in range(6)]
        return pool
    c = 0 if zero_block else rng.randint(-3, 3)  # a zero block has energy 0: keep differences exact
    if offset:
        # a large common offset with small spacings (all exactly representable, differences +-1, +-2,
        # +-4): a guard with a RELATIVE tolerance (np.isclose) treats these levels as degenerate,
        # the real guard |dE| > atol does not
        c = rng.choice([2 ** 20, 2 ** 30, -(2 ** 20), 2 ** 24 + 3])
    s = rng.choice([1, 1, 2])
    if cplx:
        base = [G(0, 0), G(1, 0), G(0, 1), G(1, 1)]
        return [G(c + s * x.re, s * x.im) for x in base]
    return [G(c + s * x) for x in (0, 1, 2)] if rng.random() < 0.7 else [G(c + s * x) for x in (0, 2, 4)]


def rand_y(rng, m, n, family, cplx, density):
    dy = family != "sympy"
    M = []
    for _ in range(m):
        row = []
        for _ in range(n):
            if rng.random() > density:
                row.append(G(0))
                continue
            if dy:
                den = rng.choice([1, 1, 2, 4])
                row.append(G(Fr(rng.randint(-6, 6), den), Fr(rng.randint(-6, 6), den) if cplx else 0))
            else:
                row.append(G(Fr(rng.randint(-5, 5), rng.randint(1, 4)), Fr(rng.randint(-5, 5), rng.randint(1, 4)) if cplx else 0))
        M.append(row)
    return M


def rand_case(rng, want=None):
    family = rng.choice(["numeric", "numeric", "sympy"])
    cplx_e = rng.random() < 0.3
    cplx_y = rng.random() < 0.6
    nb = rng.randint(1, 4)
    mode = want or rng.choice(["separated", "separated", "shared", "zero-block", "implicit", "offset"])
    if mode == "offset":
        family = "numeric"
    pool = rand_levels(rng, family, cplx_e, zero_block=(mode == "zero-block"), offset=(mode == "offset"))
    if family == "numeric" and mode != "offset" and rng.random() < 0.2:
        # a small overall scale (all levels below numpy's default atol 1e-8): with the solver's own
        # atol the blocks are NOT shared and the quotients (powers of two) stay exact
        sc = Fr(1, 2 ** rng.randint(27, 34))
        pool = [G(x.re * sc, x.im * sc) for x in pool]
        mode_tag = "tiny"
    else:
        mode_tag = None
    if family == "sympy" and mode == "implicit":
        mode = "separated"
    sizes = [rng.randint(2 if mode == "offset" else 1, 3) for _ in range(nb)]
    # assign levels to blocks
    if mode in ("separated", "implicit"):
        lv = list(pool)
        rng.shuffle(lv)
        if nb > len(lv):
            nb = len(lv)
            sizes = sizes[:nb]
        own = {b: [lv[b]] for b in range(nb)}
        for x in lv[nb:]:
            own[rng.randrange(nb)].append(x)
        eigs = [[rng.choice(own[b]) for _ in range(sizes[b])] for b in range(nb)]
    else:
        eigs = [[rng.choice(pool) for _ in range(sizes[b])] for b in range(nb)]
    eigs_enc = [gq.enc([e])[0] for e in eigs]
    if mode == "zero-block":
        b = rng.randrange(nb)
        eigs_enc[b] = None
        eigs[b] = None
    W = None
    N = None
    if mode == "implicit":
        # last block = partially known implicit block in an ambient space of dimension N
        N = sizes[-1] + rng.randint(0, 2)
        W = [[G(rng.randint(-2, 2), rng.randint(-1, 1) if cplx_y else 0) for _ in range(sizes[-1])] for _ in range(N)]
    atol_k = rng.choice([0, 0, 0, 1, 2, 3, 4])
    if mode_tag == "tiny":
        atol_k = 0
    if family == "sympy":
        atol_k = rng.choice([0, 0, 3])  # ignored by the symbolic branch
    reqs = []
    for _ in range(rng.randint(3, 6)):
        i, j = rng.randrange(nb), rng.randrange(nb)
        if reqs and rng.random() < 0.3:
            i, j = reqs[-1]["i"], reqs[-1]["j"]
        if mode == "offset" and i < nb and rng.random() < 0.7:
            j = i   # different blocks with a common large offset are "shared" for np.isclose (ValueError)
        u = rng.random()
        if u < 0.04:
            i = nb + rng.randint(0, 1)
        if mode == "implicit" and i == nb - 1 and j == nb - 1:
            i = 0 if nb > 1 else i
            if nb == 1:
                continue
        m = sizes[i] if i < nb else 1
        n = sizes[j]
        if mode == "implicit":
            if j == nb - 1:
                n = N
            elif i == nb - 1:
                m = N
        u = rng.random()
        if u < 0.12:
            Y = dict(kind="zero")
        elif u < 0.16 and mode != "implicit" and family != "sympy":  # np.isclose on sympy objects is a TypeError of numpy itself
            Y = dict(kind="other")
        else:
            kind = "sympy" if family == "sympy" else rng.choice(["dense", "sparse"])
            Y = dict(kind=kind, M=gq.enc(rand_y(rng, m, n, family, cplx_y, rng.choice([1.0, 0.7, 0.4]))))
        reqs.append(dict(Y=Y, i=i, j=j))
    return dict(family=family, mode=mode + ("-tiny" if mode_tag else ""), eigs=eigs_enc, W=None if W is None else gq.enc(W), atol_k=atol_k, reqs=reqs)


def nontrivial(case, outs):
    """a ValueError of the shared-eigenvalue test, or a value containing both a suppressed
    (guard false, Y non-zero) entry and a genuine quotient."""
    got_err = any(o["t"] == "raise" and o.get("e") == "ValueError" for o in outs)
    mixed = False
    for r, o in zip(case["reqs"], outs):
        if o["t"] != "val" or r["Y"]["kind"] in ("zero", "other"):
            continue
        Y = gq.dec(r["Y"]["M"])
        V = gq.dec(o["M"])
        if case["W"] is not None and (r["i"] == len(case["eigs"]) - 1 or r["j"] == len(case["eigs"]) - 1):
            mixed = mixed or not gq.is_zero(V)
            continue
        supp = any(not y.is_zero() and v.is_zero() for ry, rv in zip(Y, V) for y, v in zip(ry, rv))
        quo = any(not v.is_zero() for rv in V for v in rv)
        mixed = mixed or (supp and quo) or (quo and r["i"] != r["j"])
    return got_err or mixed


def tie_sylvdiag(ctx, ncases=None):
    n = ncases or ctx.n(150, 3000)
    rng = ctx.rng
    cases, outs_all, terms = [], [], []
    dist = {}
    disagreements = []
    for k in range(n):
        case = rand_case(rng)
        outs = run_impl(case)
        bad = [o for o in outs if o["t"] not in ("zero", "val", "raise") or (o["t"] == "raise" and o["e"].startswith("Other"))]
        key = "%s/%s" % (case["family"], case["mode"])
        dist[key] = dist.get(key, 0) + 1
        for o in outs:
            kk = "out:" + (o["t"] if o["t"] != "raise" else o["e"])
            dist[kk] = dist.get(kk, 0) + 1
        if bad:
            disagreements.append(dict(what="implementation outcome outside the model's range: %s" % bad[0], input=case, impl=outs, model=None))
            continue
        cases.append(case)
        outs_all.append(outs)
        terms.append(coq_term(case, outs))
    failing = core.coq_eval_cases("k_sylvdiag", HEADER + atol_defs(), terms, shard=150)
    for idx in failing:
        disagreements.append(dict(what="model and solve_sylvester_diagonal disagree", input=cases[idx], impl=outs_all[idx],
                                  model="Coq term evaluates to false: " + terms[idx][:1500]))
    nt = {core.canon(c) for c, o in zip(cases, outs_all) if nontrivial(c, o)}
    return dict(cases=len(cases), nontrivial=len(nt),
                rule="distinct closures with a shared-eigenvalue ValueError, or a value mixing suppressed and divided entries / an off-diagonal-block quotient",
                samples=[dict(case=c, impl=o) for c, o in list(zip(cases, outs_all))[:3]],
                distribution=dist, disagreements=disagreements)


# ---------------------------------------------------------------------------
# oracle: residual on random float data

def oracle_case_offset(rng):
    """dense (or sparse) numeric data whose levels share a large offset and are split by order one
    inside a block: H0_i V - V H0_j = Y must hold for these pairs (|dE| > atol); a guard with a
    relative tolerance would wrongly treat them as degenerate.  Different blocks get different
    offsets (blocks with a common offset are 'shared' for np.isclose and legitimately rejected)."""
    nb = rng.randint(1, 3)
    sizes = [rng.randint(2, 4) for _ in range(nb)]
    offs = rng.sample([2.0 ** 20, 2.0 ** 24, 1e6, 2.0 ** 30, -(2.0 ** 22)], nb)
    eigs = []
    for b in range(nb):
        lv = rng.sample([0.0, 1.0, 2.0, 0.5, 3.0, 0.25], rng.randint(2, 3))
        e = [offs[b] + lv[k % len(lv)] for k in range(sizes[b])]
        rng.shuffle(e)
        eigs.append(e)
    i = rng.randrange(nb)
    j = i if rng.random() < 0.65 else rng.randrange(nb)
    Y = [[rng.choice([1.0, -2.0, 0.5, 3.0]) * rng.uniform(0.5, 1) for _ in range(sizes[j])] for _ in range(sizes[i])]
    return dict(eigs=[[[x, 0.0] for x in e] for e in eigs], Y=[[[y, 0.0] for y in r] for r in Y], i=i, j=j,
                kind=rng.choice(["dense", "dense", "dense", "sparse"]), atol=rng.choice([1e-12, 1e-12, 1e-6]),
                zero_block=False, offset=True)


def oracle_case_sequence(rng):
    """ONE solver object called repeatedly, for the same and for different block pairs, some of
    which share a level exactly: such a pair must raise ValueError at EVERY request (also after
    other pairs were served), the other requests must satisfy the residual equation."""
    nb = rng.randint(2, 4)
    sizes = [rng.randint(1, 3) for _ in range(nb)]
    eigs = []
    for b in range(nb):
        lv = [10.0 * b + rng.choice([0.0, 0.5, 1.0, 2.5]) for _ in range(2)]
        eigs.append([rng.choice(lv) for _ in range(sizes[b])])
    # plant shared levels between one or two pairs of different blocks
    for _ in range(rng.randint(1, 2)):
        p, q = rng.sample(range(nb), 2)
        eigs[q][rng.randrange(sizes[q])] = eigs[p][rng.randrange(sizes[p])]
    pairs = [(i, j) for i in range(nb) for j in range(nb)]
    reqs = []
    for _ in range(rng.randint(5, 9)):
        i, j = reqs[-1][:2] if (reqs and rng.random() < 0.4) else rng.choice(pairs)
        Y = [[rng.uniform(-1, 1) if rng.random() < 0.9 else 0.0 for _ in range(sizes[j])] for _ in range(sizes[i])]
        if all(y == 0.0 for r in Y for y in r):
            Y[0][0] = 1.0
        reqs.append((i, j, Y))
    return dict(sequence=True, eigs=[[[x, 0.0] for x in e] for e in eigs],
                reqs=[dict(i=i, j=j, Y=[[[y, 0.0] for y in r] for r in Y]) for i, j, Y in reqs],
                kind=rng.choice(["dense", "sparse"]),
                # sometimes a user atol larger than the gap between neighbouring blocks (10): those pairs
                # are then shared by the solver's own test and must be rejected at every use
                atol=rng.choice([1e-12, 1e-12, 12.0, 25.0]), i=reqs[0][0], j=reqs[0][1], Y=[], zero_block=False)


def oracle_eval_sequence(c):
    from pymablock.block_diagonalization import solve_sylvester_diagonal
    E = [np.array([x[0] for x in e]) for e in c["eigs"]]
    solve = solve_sylvester_diagonal(tuple(E), atol=c["atol"])
    seen = {}
    for k, r in enumerate(c["reqs"]):
        i, j = r["i"], r["j"]
        Y = np.array([[y[0] for y in row] for row in r["Y"]])
        Yv = sp.csr_array(Y) if c["kind"] == "sparse" else Y
        shared = i != j and bool(np.any(np.isclose(E[i].reshape(-1, 1), E[j].reshape(1, -1), atol=c["atol"])))
        seen[(i, j)] = seen.get((i, j), 0) + 1
        try:
            with warnings.catch_warnings():
                warnings.simplefilter("ignore")
                V = solve(Yv, (i, j))
        except ValueError:
            if shared:
                continue
            return "request %d, pair %s: ValueError although the blocks share no level" % (k, (i, j))
        if shared:
            return "request %d: blocks %s share a level but the solver returned a value (use number %d of that pair on this solver object)" % (k, (i, j), seen[(i, j)])
        V = V.toarray() if sp.issparse(V) else np.asarray(V)
        if V.shape != Y.shape or not np.all(np.isfinite(V)):
            return "request %d: bad shape or non-finite entries" % k
        d = E[i].reshape(-1, 1) - E[j].reshape(1, -1)
        sup = np.abs(d) > c["atol"]
        res = np.abs(d * V - Y)
        if np.any(res[sup] > 1e-9 * (1.0 + np.abs(Y).max(initial=0.0))):
            return "request %d, pair %s: residual %g on the support" % (k, (i, j), res[sup].max())
        if np.any(V[~sup] != 0):
            return "request %d: non-zero value where energies coincide within tolerance" % k
    return None


def oracle_case(rng):
    u = rng.random()
    if u < 0.25:
        return oracle_case_sequence(rng)
    if u < 0.5:
        return oracle_case_offset(rng)
    nb = rng.randint(1, 3)
    sizes = [rng.randint(1, 4) for _ in range(nb)]
    cplx = rng.random() < 0.3
    eigs = []
    for b in range(nb):
        base = 10.0 * b
        lv = [base + rng.uniform(0, 3) for _ in range(2)]
        e = [rng.choice(lv) for _ in range(sizes[b])]
        if cplx:
            e = [complex(x, rng.choice([0.0, 0.5, -1.25])) for x in e]
        eigs.append(e)
    i, j = rng.randrange(nb), rng.randrange(nb)
    kind = rng.choice(["dense", "sparse", "sympy"])
    Y = [[(complex(rng.uniform(-1, 1), rng.uniform(-1, 1)) if cplx else rng.uniform(-1, 1)) if rng.random() < 0.8 else 0.0
          for _ in range(sizes[j])] for _ in range(sizes[i])]
    zero_block = rng.random() < 0.15
    atol = rng.choice([1e-12, 1e-6, 0.1])
    if rng.random() < 0.25:
        # small overall scale (all levels far below numpy's default atol 1e-8): a well-posed problem,
        # must be solved with the default atol
        sc = 2.0 ** -rng.randint(27, 34)
        eigs = [[x * sc for x in e] for e in eigs]
        atol = 1e-12
    return dict(eigs=[[[x.real, x.imag] if isinstance(x, complex) else [x, 0.0] for x in e] for e in eigs],
                Y=[[[complex(y).real, complex(y).imag] for y in r] for r in Y], i=i, j=j, kind=kind,
                atol=atol, zero_block=zero_block)


def oracle_eval(c):
    """returns None if fine, else a description."""
    from pymablock.block_diagonalization import solve_sylvester_diagonal
    if c.get("sequence"):
        return oracle_eval_sequence(c)
    cplx = any(x[1] != 0 for e in c["eigs"] for x in e) or any(y[1] != 0 for r in c["Y"] for y in r)
    mk = (lambda p: complex(p[0], p[1])) if cplx else (lambda p: p[0])
    E = [np.array([mk(x) for x in e]) for e in c["eigs"]]
    i, j = c["i"], c["j"]
    if c["zero_block"] and i != j:
        E[j] = np.array(0)
        if np.any(np.isclose(E[i].reshape(-1, 1), 0, atol=c["atol"])):
            return None     # shared with the zero block by the solver's own test: legitimately rejected
    Y = np.array([[mk(y) for y in r] for r in c["Y"]])
    if c["kind"] == "sympy":
        Es = tuple(np.array([sympy.nsimplify(x, rational=True) for x in (e.reshape(-1) if e.shape else [])], dtype=object) if e.shape else e for e in E)
        Yv = sympy.Matrix(Y.shape[0], Y.shape[1], lambda a, b: sympy.nsimplify(Y[a, b], rational=True))
        solve = solve_sylvester_diagonal(Es, atol=c["atol"])
        atol = 0.0
    else:
        Yv = sp.csr_array(Y) if c["kind"] == "sparse" else Y
        solve = solve_sylvester_diagonal(tuple(E), atol=c["atol"])
        atol = c["atol"]
    with warnings.catch_warnings():
        warnings.simplefilter("ignore")
        V = solve(Yv, (i, j))
    if c["kind"] == "sympy":
        V = np.array(V.evalf(30).tolist(), dtype=complex)
    elif sp.issparse(V):
        V = V.toarray()
    V = np.asarray(V)
    if V.shape != Y.shape:
        return "shape %s != %s" % (V.shape, Y.shape)
    if not np.all(np.isfinite(V)):
        return "non-finite entries"
    Ei = E[i].reshape(-1, 1) if E[i].shape else np.zeros((Y.shape[0], 1))
    Ej = E[j].reshape(1, -1) if E[j].shape else np.zeros((1, Y.shape[1]))
    d = Ei - Ej
    sup = np.abs(d) > atol
    res = np.abs(d * V - Y)
    scale = 1.0 + np.abs(Y).max(initial=0.0)
    if np.any(res[sup] > 1e-9 * scale):
        return "residual %g on the support" % res[sup].max()
    if np.any(V[~sup] != 0):
        return "non-zero value where energies coincide within tolerance"
    return None


def oracle_sylvdiag(ctx, ncases=None):
    n = ncases or ctx.n(120, 3000)
    rng = ctx.rng
    failures, samples, nt = [], [], set()
    for k in range(n):
        c = oracle_case(rng)
        try:
            r = oracle_eval(c)
        except Exception as e:  # noqa: BLE001
            r = "exception %s: %s" % (type(e).__name__, str(e)[:200])
        if r is not None:
            failures.append(dict(what="solve_sylvester_diagonal: " + r, input=dict(kind="sylvdiag", case=c)))
        if any(len(set(map(tuple, e))) < len(e) for e in c["eigs"]) or c["i"] != c["j"]:
            nt.add(core.canon(c))
        if k < 3:
            samples.append(c)
    return dict(evaluations=n, nontrivial=len(nt), rule="distinct cases with a degenerate level inside a block or an off-diagonal block pair",
                samples=samples, failures=failures)


def replay_sylvdiag(inp):
    r = oracle_eval(inp["case"])
    print("solve_sylvester_diagonal on", inp["case"], "->", r or "fine")
    return 1 if r else 0
