"""Tie for C04: the executable reading of the Coq statement, evaluated inside Coq on the
implementation's outputs.

For small real-symmetric rational problems (dim <= 4, N <= 3; several parameters are reduced
to one by lambda_k := c_k x) the matrices U(x), U†(x), H_tilde(x) returned by the real
block_diagonalize and the input H(x) are printed as matrices of polynomials with Q
coefficients and handed to Coq (Spectrum/CharPolyExec.v, vm_compute):

  prem_unitary  :  U† U  == 1            (mod x^(N+1))   } the premises of C04_charpoly_trunc,
  prem_similar  :  U† H U == H_tilde     (mod x^(N+1))   } i.e. the conclusions of C01/C02
  concl_charpoly:  char_poly H_tilde == char_poly H, coefficient-wise (mod x^(N+1))

The list-based algorithms of CharPolyExec.v are proved correct against MathComp for the operations of
any comRingType (Spectrum/CharPolyExecCorrect.v: the premise checks imply the premises of
C04_charpoly_trunc, charpoly computes char_poly); the tie runs the same Gallina terms over stdlib Q,
whose arithmetic (Qred, Qeq_bool) is the only unproved link.  So this is a test (inside Coq's kernel
arithmetic, independent of the Python oracle) that the implementation satisfies the premises under
which the theorem was proved, and of the theorem's conclusion in the executable reading.
A deliberately corrupted control case is
appended to every run and must be rejected.
"""
import copy
import traceback
from fractions import Fraction as Fr

from vlib import core
from . import gq, gen, implrun
from oracles import o_charpoly
from .gq import G

HEADER = """Require Import List ZArith QArith Bool.
Import ListNotations.
From PV Require Import Spectrum.CharPolyExec.
Local Open Scope Q_scope.
"""


def q(x):
    x = Fr(x)
    return "(%d # %d)" % (x.numerator, x.denominator)


def poly_term(p):
    # strip trailing zeros (the Coq side treats missing coefficients as 0)
    p = list(p)
    while p and p[-1] == 0:
        p.pop()
    return "[" + "; ".join(q(c) for c in p) + "]"


def mat_term(P):
    return "[" + "; ".join("[" + "; ".join(poly_term(e) for e in row) + "]" for row in P) + "]"


def substituted_real(series, dim, scales, N):
    """gq.Series -> dim x dim matrix of length-(N+1) Fraction lists; None if a value is not real."""
    P = [[[Fr(0)] * (N + 1) for _ in range(dim)] for _ in range(dim)]
    for n, M in series.d.items():
        m = sum(n)
        if m > N:
            continue
        w = Fr(1)
        for ck, nk in zip(scales, n):
            w *= Fr(ck) ** nk
        for i in range(dim):
            for j in range(dim):
                e = M[i][j]
                if e.im != 0:
                    return None
                P[i][j][m] += w * e.re
    return P


def case_terms(N, dim, U, Ui, H, Ht):
    u, ui, h, ht = mat_term(U), mat_term(Ui), mat_term(H), mat_term(Ht)
    return [
        "prem_unitary %d %d %s %s" % (N, dim, u, ui),
        "prem_similar %d %s %s %s %s" % (N, u, ui, h, ht),
        "concl_charpoly %d %d %s %s" % (N, dim, h, ht),
    ]


WHAT = ["premise U†U == 1 (mod x^(N+1)) fails", "premise U†HU == H_tilde (mod x^(N+1)) fails",
        "conclusion fails: char_poly H_tilde != char_poly H (mod x^(N+1))"]


def tie_charpoly(ctx):
    rng = ctx.rng
    count = ctx.n(30, 400)
    cases = []
    terms = []
    owners = []
    disagreements = []
    dist = {}
    seen = set()
    prepared = []
    tries = 0
    while len(prepared) < count and tries < count * 20:
        tries += 1
        partial = len(prepared) % 3 == 2
        unsorted_deg = len(prepared) % 5 == 4
        N = 3 if partial else rng.choice([2, 3])
        small = lambda c: 2 <= len(c["sub"]) <= 4 and not (len(c["sub"]) == 2 and rng.random() < 0.7)
        if unsorted_deg:  # exact-float H_0 as an unsorted diagonal with a degenerate level in a fully diagonalised block
            case = o_charpoly.unsorted_degenerate_case(rng, N, "exact", cplx=False, max_extra=1, max_params=2)
            if len(case["sub"]) > 4:
                continue
        elif partial:  # a 3-state block with a partial elimination mask (+ at most one more state)
            case = o_charpoly.focused_case(rng, N, "partial-mask", accept=small, cplx=False, max_blocks=2, max_size=3,
                                           max_params=2, fmt=rng.choice(["sympy", "sympy", "dense", "sparse"]))
        else:
            case = o_charpoly.focused_case(rng, N, "any", accept=small, cplx=False, max_blocks=rng.choice([2, 2, 3]),
                                           max_size=2, max_params=2, fmt=rng.choice(["sympy", "sympy", "dense", "sparse"]))
        dim = len(case["sub"])
        scales = [1] if case["nparam"] == 1 else [rng.choice([-2, -1, 1, 2, 3]) for _ in range(case["nparam"])]
        try:
            r = implrun.run(case)
        except Exception as e:
            disagreements.append(dict(what="block_diagonalize raised %s on a well-posed input" % type(e).__name__,
                                      input=dict(case=case, scales=scales), model="defined", impl=traceback.format_exc()[-800:]))
            if len(disagreements) >= 20:
                break
            continue
        mats = [substituted_real(s, dim, scales, N) for s in
                (r["out"]["U"], r["out"]["U†"], r["H"], r["out"]["H_tilde"])]
        if any(m is None for m in mats):
            dist["skipped-nonreal"] = dist.get("skipped-nonreal", 0) + 1
            continue
        prepared.append((case, scales, N, dim, mats))
    for case, scales, N, dim, (U, Ui, H, Ht) in prepared:
        ts = case_terms(N, dim, U, Ui, H, Ht)
        for k, t in enumerate(ts):
            terms.append(t)
            owners.append((len(cases), k))
        cases.append(dict(case=case, scales=scales))
        sig = gen.case_signature(case)
        for key in ("mode", "fmt", "nparam", "dim"):
            kk = "%s=%s" % (key, sig[key])
            dist[kk] = dist.get(kk, 0) + 1
        dist["N=%d" % N] = dist.get("N=%d" % N, 0) + 1
        if o_charpoly.is_unsorted_degenerate(case):
            dist["unsorted-degenerate-H0"] = dist.get("unsorted-degenerate-H0", 0) + 1
        if any(Ht[i][j][m] != 0 for i in range(dim) for j in range(dim) for m in range(2, N + 1)):
            seen.add(core.sha(core.canon(case)))
    # control: corrupt the x^2 coefficient of H_tilde[0,0] of the first case; must be rejected
    control_at = None
    for case, scales, N, dim, (U, Ui, H, Ht) in prepared:
        bad = copy.deepcopy(Ht)
        bad[0][0][2] += 1  # changes the trace at order x^2: both checks must turn false
        control_at = len(terms)
        terms += case_terms(N, dim, U, Ui, H, bad)[1:]
        break
    failing = core.coq_eval_cases("c04tie", HEADER, terms, shard=90, timeout=900, jobs=min(8, max(1, len(terms) // 90 + 1)))
    failing = set(failing)
    if control_at is not None:
        for off, name in ((0, "prem_similar"), (1, "concl_charpoly")):
            if (control_at + off) not in failing:
                disagreements.append(dict(what="control: corrupted H_tilde was accepted by %s (tie is vacuous)" % name,
                                          input=None, model="false expected", impl="true"))
    for idx in sorted(failing):
        if control_at is not None and idx >= control_at:
            continue
        ci, k = owners[idx]
        disagreements.append(dict(what=WHAT[k], input=cases[ci], model="true (theorem premise/conclusion)",
                                  impl="false on the implementation's output"))
    return dict(
        cases=len(cases), nontrivial=len(seen),
        rule="distinct case hashes whose substituted H_tilde has a non-zero coefficient of x^m, m >= 2; 3 Coq-evaluated "
             "booleans per case (two premises of C04_charpoly_trunc, its conclusion), plus one corrupted control",
        samples=cases[:3], distribution=dist, disagreements=disagreements[:20],
        control=control_at is not None)
