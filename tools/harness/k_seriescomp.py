"""Correspondence harness for C09: `series_computation` on the shipped algorithms and on
generated programs, with exact 2x2 rational matrix inputs (sympy), random request schedules
over ALL series names (inputs, defined series, products; outputs and non-outputs), versus the
Coq evaluator DSL/Exec.v (exact observation: value / sentinel / exception class) and versus
the specification DSL/Interp.v (value outcomes must denote the interp value).
"""
import itertools
import sys

from vlib import core

sys.path.insert(0, str(core.REPO))
from harness import proggen as PG  # noqa: E402

HEADER = (
    "From Coq Require Import String List ZArith QArith Bool.\nImport ListNotations.\n"
    "From PV.DSL Require Import Syntax Values Target Compile Interp Exec HarnessLib.\n"
    "Open Scope string_scope.\n"
)

EXEC_FUEL = 300
SPEC_FUEL = 60


def all_orders(np_, max_total):
    return [n for n in itertools.product(range(max_total + 1), repeat=np_) if sum(n) <= max_total]


def build(prog, fn, world, wrap_fn=None, eval_hook=None, operator=None):
    """build the inputs and call series_computation; world: dict(nb, np, env, gflags, rflags, hasoff, diag_custom)"""
    from pymablock.algorithm_parsing import series_computation
    from pymablock.series import BlockSeries, zero

    nb, np_ = world["nb"], world["np"]
    env = world["env"]
    inputs = {}
    for x in prog["inputs"]:
        def ev(*idx, _x=x):
            idx = tuple(int(i) for i in idx)
            if eval_hook is not None:
                eval_hook(_x, idx)
            v = env.get((_x, idx))
            return zero if v is None else PG.to_sympy(v)

        inputs[x] = BlockSeries(eval=ev, shape=(nb, nb), n_infinite=np_, name=x)
    scope = PG.scope_functions(custom_diag=world["diag_custom"], with_offdiag=world["hasoff"], wrap=wrap_fn)
    for f in PG.FLAGS_G:
        scope[f] = f in world["gflags"]
    scope[PG.FLAG_R] = [i in world["rflags"].get(PG.FLAG_R, []) for i in range(nb)]
    for f, v in world.get("extra_scope", {}).items():
        scope[f] = v
    kw = {}
    if operator is not None:
        kw["operator"] = operator
    series, lin = series_computation(dict(inputs), fn, scope=scope, **kw)
    return series, lin, inputs


def random_world(rng, prog, max_order=3):
    nb = rng.choice([2, 2, 3])
    np_ = rng.choice([1, 1, 2])
    return dict(
        nb=nb, np=np_,
        env=PG.rand_inputs(rng, prog["inputs"], nb, np_, max_order=max_order, density=rng.choice([0.5, 0.8, 1.0])),
        gflags=[f for f in PG.FLAGS_G if rng.random() < 0.5],
        rflags={PG.FLAG_R: [i for i in range(nb) if rng.random() < 0.5]},
        hasoff=rng.random() < 0.5,
        diag_custom=rng.random() < 0.4,
    )


def shipped_world(rng, which, max_order=3):
    """a world for the shipped algorithms: input H, scope with solve_sylvester := f_lmul-like"""
    nb = rng.choice([2, 2, 3])
    np_ = rng.choice([1, 1, 2])
    w = dict(
        nb=nb, np=np_,
        env=PG.rand_inputs(rng, ["H"], nb, np_, max_order=max_order, density=rng.choice([0.6, 1.0])),
        gflags=[], rflags={}, hasoff=rng.random() < 0.5, diag_custom=rng.random() < 0.5,
    )
    if which == "main":
        if rng.random() < 0.5:
            w["gflags"].append("two_block_optimized")
        w["rflags"]["commuting_blocks"] = [i for i in range(nb) if rng.random() < 0.6]
    return w


def shipped_scope(world):
    fl = {}
    fl["two_block_optimized"] = "two_block_optimized" in world["gflags"]
    fl["commuting_blocks"] = [i in world["rflags"].get("commuting_blocks", []) for i in range(world["nb"])]
    return fl


def observe(series_dict, req):
    tb, name, idx = req
    try:
        v = series_dict[name][idx]
    except BaseException as e:  # noqa: BLE001
        return ("exn", PG.exn_class(e))
    return PG.from_value(v)


def random_schedule(rng, names, nb, np_, max_total, length):
    orders = all_orders(np_, max_total)
    out = []
    for _ in range(length):
        name = rng.choice(names)
        n = rng.choice(orders)
        out.append(("tab", name, (rng.randrange(nb), rng.randrange(nb)) + tuple(n)))
    # repeat some requests (cache hits after deletions)
    for _ in range(length // 3):
        out.insert(rng.randrange(len(out) + 1), rng.choice(out))
    return out


def world_cfg(prog, world, counted=(), faults=()):
    return PG.ccfg(world["nb"], world["np"], prog["inputs"], world["env"], hasoff=world["hasoff"],
                   diag_custom=world["diag_custom"], gflags=world["gflags"], rflags=world["rflags"],
                   counted=counted, faults=faults)


SHIPPED_SRC = None


def shipped_programs():
    """the two shipped algorithms as proggen-style programs; solve_sylvester is mapped onto f_lmul"""
    global SHIPPED_SRC
    import importlib
    import translate_algorithms as TA

    src = (core.REPO / "pymablock" / "algorithms.py").read_text(encoding="utf-8")
    mod = importlib.import_module("pymablock.algorithms")
    out = []
    for a in TA.translate_source(src):
        out.append(dict(name=a["name"], source=None, json=a, inputs=["H"],
                        series=[s["name"] for s in a["series"]],
                        products=[" @ ".join(p["factors"]) for p in a["products"]],
                        outputs=a["outputs"], fn=getattr(mod, a["name"]), shipped=True))
    return out


def rename_solver(js):
    """the model's scope library has no solve_sylvester: the harness passes f_lmul under that name,
    so the Coq term uses the name f_lmul"""
    import copy
    import json

    return json.loads(json.dumps(js).replace('"solve_sylvester"', '"f_lmul"'))


def make_cases(ctx, n_gen, n_shipped, sched_len, max_total):
    rng = ctx.rng
    cases = []
    ship = shipped_programs()
    for k in range(n_shipped):
        p = ship[k % 2]
        w = shipped_world(rng, p["name"], max_order=max_total)
        w["extra_scope"] = shipped_scope(w)
        cases.append((p, p["fn"], w))
    for k in range(n_gen):
        p = PG.random_program(rng, idx=k)
        cases.append((p, PG.load_function(p), random_world(rng, p, max_order=max_total)))
    out = []
    for p, fn, w in cases:
        extra = {}
        if p.get("shipped"):
            fns = PG.scope_functions()
            w["extra_scope"]["solve_sylvester"] = fns["f_lmul"]
        series, lin, inputs = build(p, fn, w)
        names = sorted(series.keys())
        mt = max_total if w["np"] == 1 else min(max_total, 2)
        sched = random_schedule(rng, names, w["nb"], w["np"], mt, sched_len)
        if p.get("stress_pair"):
            # run the single use (and deletion) of a series with start data at order 0, then ask for it again
            a, b = p["stress_pair"]
            blk = (rng.randrange(w["nb"]), rng.randrange(w["nb"]))
            z = (0,) * w["np"]
            sched = [("tab", a, blk + z), ("tab", b, blk + z), ("tab", a, blk + z)] + sched
        if p.get("herm_long") and p["herm_long"] in names:
            # a declared product of three or four factors: all blocks, lower ones first, at the orders where it is non-zero
            z = (0,) * (w["np"] - 1)
            extra = [("tab", p["herm_long"], (1, 0, 2) + z), ("tab", p["herm_long"], (1, 1, 2) + z),
                     ("tab", p["herm_long"], (0, 1, 2) + z), ("tab", p["herm_long"], (w["nb"] - 1, 0, 3 if w["np"] == 1 else 2) + z)]
            sched = sched[:3] + extra + sched[3:]
        obs = [observe(series, r) for r in sched]
        out.append(dict(prog=p, world=w, sched=sched, obs=obs, names=names))
    return out


def case_terms(case):
    p, w = case["prog"], case["world"]
    js = rename_solver(p["json"]) if p.get("shipped") else p["json"]
    alg = PG.coq_alg(js)
    cfg = world_cfg(p, w)
    reqs = "[" + "; ".join(PG.creq(*r) for r in case["sched"]) + "]"
    exp = "[" + "; ".join(PG.cobs(o) for o in case["obs"]) + "]"
    t_exec = "check_schedule %d %s %s 0 %s %s" % (EXEC_FUEL, alg, cfg, reqs, exp)
    # specification: every distinct value outcome denotes the interp value
    seen, spec_items = set(), []
    for r, o in zip(case["sched"], case["obs"]):
        if isinstance(o, tuple) and o and o[0] in ("exn", "other"):
            continue
        key = (r[1], r[2])
        if key in seen or sum(r[2][2:]) > 2:
            continue
        seen.add(key)
        spec_items.append("obs_den_eqb %s (spec_obs %d alg cfg %s %s)" % (PG.cobs(o), SPEC_FUEL, PG.cstr(r[1]), PG.cidx(r[2])))
    t_spec = None
    # the product "U'† @ U'" of the shipped main algorithm is declared hermitian; with the stand-in solver of
    # this harness the shortcut is valid in the sense of the specification (hypotheses herm_low / herm_diag of
    # C09_sound) only without offdiag / custom diag: only then are the values compared with Interp as well
    herm_valid = not (p.get("shipped") and p["name"] == "main" and (w["hasoff"] or w["diag_custom"]))
    if spec_items and herm_valid:
        t_spec = "let alg := %s in let cfg := %s in forallb (fun b : bool => b) [%s]" % (alg, cfg, "; ".join(spec_items[:12]))
    return t_exec, t_spec


def describe(case):
    p = case["prog"]
    return dict(program=p["name"], source=p["source"], world={k: (v if k != "env" else {"%s%s" % (a, list(b)): [str(x) for x in m] for (a, b), m in v.items()}) for k, v in case["world"].items() if k != "extra_scope"},
                schedule=[list(map(str, r)) for r in case["sched"]], observed=[str(o) for o in case["obs"]])



# ------------------------------------------------------------------ multi-element requests (slices, lists)


def expand_item(spec, shape_hint):
    """spec: entries int | ["s", start, stop] | ["l", [..]]  ->  (item as the user writes it, element indices in
    the order in which they are EVALUATED (row-major, as np.where), positions of these elements in the flattened
    result).  shape_hint: an upper bound of every axis (blocks, orders)"""
    import numpy as np

    item = tuple(slice(x[1], x[2]) if (isinstance(x, list) and x[0] == "s") else (list(x[1]) if isinstance(x, list) else x) for x in spec)
    pos = np.arange(int(np.prod(shape_hint))).reshape(shape_hint)
    sel = np.atleast_1d(pos[item]).reshape(-1)
    idxs = [tuple(int(i) for i in np.unravel_index(int(q), shape_hint)) for q in sel]
    order = sorted(range(len(idxs)), key=lambda k: idxs[k])
    # an element selected twice by a list is evaluated once
    ev, seen = [], set()
    for k in order:
        if idxs[k] not in seen:
            seen.add(idxs[k])
            ev.append((idxs[k], k))
    return item, [e for e, _ in ev], [k for _, k in ev]


def observe_multi(series_dict, name, spec, shape_hint):
    """-> ('vals', [canonical value per evaluated element]) | ('exn', class)"""
    import numpy as np
    from pymablock.series import zero

    item, elems, where = expand_item(spec, shape_hint)
    try:
        v = series_dict[name][item]
    except BaseException as e:  # noqa: BLE001
        return ("exn", PG.exn_class(e)), elems
    if isinstance(v, np.ma.MaskedArray):
        flat = list(v.filled(zero).reshape(-1))
    elif isinstance(v, np.ndarray) and v.dtype == object:
        flat = list(v.reshape(-1))
    else:
        flat = [v]
    return ("vals", [PG.from_value(flat[k]) for k in where]), elems


def random_multi_requests(rng, names, nb, np_, count):
    """slices over the order axis, over the blocks, ranges, paired lists - on ANY series name"""
    out = []
    for _ in range(count):
        name = rng.choice(names)
        i, j = rng.randrange(nb), rng.randrange(nb)
        kind = rng.choice(["orders", "orders", "blocks", "range", "lists"])
        rest = [0] * (np_ - 1)
        if kind == "orders":
            spec = [i, j, ["s", None, rng.randint(2, 4 if np_ == 1 else 3)]] + rest
        elif kind == "blocks":
            spec = [["s", None, None], ["s", None, None], rng.randint(1, 2)] + rest
        elif kind == "range":
            spec = [i, j, ["s", 1, 3]] + rest
        else:
            spec = [["l", [i, j]], ["l", [j, i]], ["l", [2, 1]]] + rest if np_ == 1 else [i, j, ["l", [2, 0, 1]], ["l", [0, 1, 1]]] + [0] * (np_ - 2)
        out.append((name, spec))
    return out


def cmobs(o):
    if o[0] == "exn":
        return "(MExn %s)" % PG.EXN_COQ.get(o[1], "(UserExn 99)")
    return "(MVals [%s])" % "; ".join(PG.cobs(x) for x in o[1])


def multi_case_terms(case, rng, count=4):
    """a fresh computation of the case's program, a schedule of multi-element requests (mixed with scalar ones):
    compared with the Coq evaluator, and every element with a scalar request on a fresh computation"""
    p, w = case["prog"], case["world"]
    fn = p["fn"] if p.get("shipped") else PG.load_function(p)
    series, lin, inputs = build(p, fn, w)
    nb, np_ = w["nb"], w["np"]
    shape_hint = (nb, nb) + (5,) * np_
    reqs = random_multi_requests(rng, case["names"], nb, np_, count)
    coq_reqs, expected, failures = [], [], []
    for name, spec in reqs:
        o, elems = observe_multi(series, name, spec, shape_hint)
        coq_reqs.append("(TTab, %s, [%s])" % (PG.cstr(name), "; ".join(PG.cidx(e) for e in elems)))
        expected.append(cmobs(o))
        # implementation: the same elements one at a time on a fresh computation
        fresh, _, _ = build(p, fn, w)
        scal = [observe(fresh, ("tab", name, e)) for e in elems]
        scal_exn = [x for x in scal if isinstance(x, tuple) and x and x[0] == "exn"]
        inp = dict(program=p["name"], source=p["source"], shipped=p["name"] if p.get("shipped") else None,
                   world=PG.world_to_json(w), multi_request=[name, spec])
        if o[0] == "exn":
            if not scal_exn:
                failures.append(dict(what="the multi-element request %s%s raised %s although every element can be requested one at a time" % (name, spec, o[1]), input=inp))
        elif not scal_exn and list(o[1]) != scal:
            failures.append(dict(what="the multi-element request %s%s returns values different from the scalar requests on a fresh computation" % (name, spec), input=inp))
    js = rename_solver(p["json"]) if p.get("shipped") else p["json"]
    term = "check_mschedule %d %s %s 0 [%s] [%s]" % (EXEC_FUEL, PG.coq_alg(js), world_cfg(p, w), "; ".join(coq_reqs), "; ".join(expected))
    return term, failures, reqs


def tie_seriescomp(ctx):
    n_gen = ctx.n(120, 1200)
    n_ship = ctx.n(20, 200)
    cases = make_cases(ctx, n_gen, n_ship, sched_len=ctx.n(10, 14), max_total=3)
    terms, owners = [], []
    dist = {"exn": 0, "value": 0, "zero": 0, "one": 0}
    for c in cases:
        te, ts = case_terms(c)
        terms.append(te); owners.append((c, "Exec"))
        if ts is not None:
            terms.append(ts); owners.append((c, "Interp"))
        for o in c["obs"]:
            k = "exn" if (isinstance(o, tuple) and o[0] == "exn") else ("zero" if o == "zero" else "one" if o == "one" else "value")
            dist[k] += 1
    impl_failures = []
    for c in cases:
        if c["prog"].get("shipped"):
            c["world"]["extra_scope"] = shipped_scope(c["world"])
            c["world"]["extra_scope"]["solve_sylvester"] = PG.scope_functions()["f_lmul"]
        tm, fails, mreqs = multi_case_terms(c, ctx.rng, count=ctx.n(3, 6))
        c["multi"] = [[n, sp] for n, sp in mreqs]
        terms.append(tm); owners.append((c, "Exec (multi-element requests)"))
        impl_failures += fails
    bad = core.coq_eval_cases("k_seriescomp", HEADER, terms, shard=8, timeout=1500, jobs=16)
    disagreements = []
    for i in bad:
        c, what = owners[i]
        d = describe(c)
        d["multi_requests"] = c.get("multi")
        disagreements.append(dict(what="series_computation differs from the Coq %s model" % what, input=d))
    for f in impl_failures:
        disagreements.append(dict(what="(implementation) " + f["what"], input=f["input"]))
    nontrivial = len({core.sha(core.canon(describe(c))) for c in cases if any(sum(r[2][2:]) >= 2 for r in c["sched"])})
    PG.cleanup()
    return dict(cases=len(cases), nontrivial=nontrivial,
                rule="distinct (program, inputs, schedule) with a request at total order >= 2; every request compared exactly with Exec, value outcomes with Interp",
                samples=[describe(c) for c in cases[:1]], distribution=dist, disagreements=disagreements,
                impl_failures=impl_failures)


def replay_multi(inp):
    """re-run one multi-element request of a failure input; -> description or None"""
    w = PG.world_from_json(inp["world"])
    if inp.get("shipped"):
        p = [q for q in shipped_programs() if q["name"] == inp["shipped"]][0]
        fn = p["fn"]
        w["extra_scope"] = shipped_scope(w)
        w["extra_scope"]["solve_sylvester"] = PG.scope_functions()["f_lmul"]
    else:
        p = PG.program_from_source(inp["source"])
        fn = PG.load_function(p)
    name, spec = inp["multi_request"]
    shape_hint = (w["nb"], w["nb"]) + (5,) * w["np"]
    series, _, _ = build(p, fn, w)
    o, elems = observe_multi(series, name, spec, shape_hint)
    fresh, _, _ = build(p, fn, w)
    scal = [observe(fresh, ("tab", name, e)) for e in elems]
    scal_exn = [x for x in scal if isinstance(x, tuple) and x and x[0] == "exn"]
    if o[0] == "exn" and not scal_exn:
        return "the multi-element request %s%s raised %s although every element can be requested one at a time" % (name, spec, o[1])
    if o[0] != "exn" and not scal_exn and list(o[1]) != scal:
        return "the multi-element request %s%s returns values different from the scalar requests" % (name, spec)
    return None
