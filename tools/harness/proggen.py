"""Generator of random well-founded programs of the series mini-language (C09-C12).

A program is emitted as Python source text (a `def` that series_computation can parse:
it is written to a module file under /verif/_build/proggen/ because the compiler uses
inspect.getsource) and as the translator's JSON form / Coq `algorithm` term (through
tools/translate_algorithms.translate_source, the same translator that produces main_alg).

Grammar covered: 2-6 series; start 0 / 1 / "X_0" / none; hermitian / antihermitian markers
(first or after a value line); default / diagonal / offdiagonal lines; nested sums,
differences, negations, integer divisions (also nested), `.adj`, `zero`, scope-function
calls f("S") and f(expr) (nested, under `diagonal` too), global and row flags; declared
products of two (sometimes three) factors, `hermitian` only for "X† @ X" with X† defined as
the adjoint series of X; outputs.

Well-foundedness: a series refers, at the same order, only to inputs, to strictly earlier
series, to products of such, or - if it has start data for every block - to products all of
whose factors are zero at order 0 (start = 0, or the adjoint copy of such a series); these
may contain later series and the series itself, as "U'† @ U'" in the shipped algorithm.

Also here: the Python mirror SCOPE_FUNCTIONS of the scope functions of DSL/HarnessLib.v,
random exact inputs, and the Coq printers shared by the harnesses.
"""
import importlib.util
import sys
from fractions import Fraction

from vlib import core

sys.path.insert(0, str(core.REPO))
sys.path.insert(0, str(core.VERIF / "tools"))
import translate_algorithms as TA  # noqa: E402

import os  # noqa: E402

# one directory per process: checks of different properties may run concurrently
GEN_DIR = core.BUILD / "proggen" / str(os.getpid())

INPUT_NAMES = ["A", "C"]
SERIES_NAMES = ["S0", "S1", "T'", "R2", "Q3", "Z4"]
FLAGS_G = ["fl_a", "fl_b"]
FLAG_R = "fl_r"
UNARY_FNS = ["f_scale", "f_lmul"]


# ------------------------------------------------------------------ program generation


def _q(s):
    return '"' + s + '"'


class _Gen:
    def __init__(self, rng):
        self.rng = rng

    def atom(self, refs, adj_ok=True):
        r = self.rng
        t = r.choice(refs)
        if adj_ok and r.random() < 0.3:
            return _q(t) + ".adj"
        return _q(t)

    def expr(self, refs, depth, series_args=True):
        r = self.rng
        if depth <= 0 or r.random() < 0.25:
            if r.random() < 0.05:
                return "zero"
            return self.atom(refs)
        k = r.random()
        if k < 0.30:
            return "%s + %s" % (self.expr(refs, depth - 1), self.expr(refs, depth - 1))
        if k < 0.45:
            return "%s - %s" % (self.expr(refs, depth - 1), self.paren(self.expr(refs, depth - 1)))
        if k < 0.55:
            return "-%s" % self.paren(self.expr(refs, depth - 1))
        if k < 0.72:
            return "%s / %s" % (self.paren(self.expr(refs, depth - 1)), r.choice(["2", "-2", "3", "-1", "4"]))
        if k < 0.86:
            f = r.choice(UNARY_FNS + ["h_cond", "g_mul"])
            if f == "g_mul":
                a = _q(r.choice(refs)) if (series_args and r.random() < 0.4) else self.expr(refs, depth - 1)
                b = _q(r.choice(refs)) if (series_args and r.random() < 0.4) else self.expr(refs, depth - 1)
                return "g_mul(%s, %s)" % (a, b)
            if series_args and r.random() < 0.5:
                return "%s(%s)" % (f, _q(r.choice(refs)))
            return "%s(%s)" % (f, self.expr(refs, depth - 1))
        if k < 0.93:
            return "(%s if %s else %s)" % (self.expr(refs, depth - 1), r.choice(FLAGS_G), self.expr(refs, depth - 1))
        return "(zero if %s[index[0]] else %s)" % (FLAG_R, self.expr(refs, depth - 1))

    @staticmethod
    def paren(e):
        return "(" + e + ")"


def random_program(rng, idx=0, max_series=6, allow3=True):
    """-> dict(name, source, json, inputs, series=[names], products=[names], flags...)"""
    g = _Gen(rng)
    n_inputs = rng.choice([1, 1, 2])
    inputs = INPUT_NAMES[:n_inputs]
    ns = rng.randint(2, max_series)
    names = SERIES_NAMES[:ns]
    # adjoint copies X† of start-0 series, candidates for hermitian products
    starts = {}
    for s in names:
        starts[s] = rng.choice(["0", "0", "0", "none", "1", "in", "other"])
    # force at least one start-0 series
    starts[names[0]] = rng.choice(["0", "0", "in"])
    # deletion stress: S0 (with start data) is used exactly once, by S1 which has no start data, so that
    # evaluating S1 at order 0 runs the del_ of S0's zeroth-order element
    stress = rng.random() < 0.3
    if stress:
        starts[names[1]] = rng.choice(["none", "other", "1"])
    adj_copy = {}
    order = []  # definition order incl. adjoint copies
    for s in names:
        order.append(s)
        if starts[s] == "0" and rng.random() < 0.35:
            adj_copy[s] = s + "†"
            order.append(s + "†")
    # a Hermitian series Hm = A + A.adj (every block pair (i,j),(j,i) adjoint) for products X† @ Hm (@ Hm) @ X of
    # three and four factors, which are Hermitian as a whole although no partial product is
    long_x = rng.choice(sorted(adj_copy)) if (adj_copy and rng.random() < 0.6) else None
    if long_x is not None:
        order.insert(0, "Hm")
    zero0 = {s for s in names if starts[s] == "0"} | set(adj_copy.values())
    full_start = {s for s in names if starts[s] in ("0", "in")}
    pos = {s: i for i, s in enumerate(order)}

    # products
    products = []  # (factors, hermitian)
    if stress:
        zero0.discard(names[0]); zero0.discard(names[0] + "†")
        adj_copy.pop(names[0], None)
        order = [t for t in order if t != names[0] + "†"]
        pos = {s: i for i, s in enumerate(order)}
    everything = inputs + [t for t in order if not (stress and t == names[0])]
    for _ in range(rng.randint(0, 3)):
        if adj_copy and rng.random() < 0.35:
            x = rng.choice(sorted(adj_copy))
            fs, herm = [adj_copy[x], x], rng.random() < 0.7
        elif rng.random() < 0.4 and len(zero0) >= 1:
            zs = sorted(zero0)
            fs, herm = [rng.choice(zs), rng.choice(zs)], False
        elif allow3 and rng.random() < 0.15:
            fs, herm = [rng.choice(everything) for _ in range(3)], False
        else:
            fs, herm = [rng.choice(everything), rng.choice(everything)], False
        if " @ ".join(fs) not in [" @ ".join(p[0]) for p in products]:
            products.append((fs, herm))

    herm_long = None
    if long_x is not None and not (stress and long_x == names[0]):
        fs = [adj_copy[long_x], "Hm"] + (["Hm"] if rng.random() < 0.35 else []) + [long_x]
        products.append((fs, rng.random() < 0.8))
        herm_long = " @ ".join(fs)

    def usable_products(s):
        out = []
        for fs, _ in products:
            early = all((f in inputs) or (f in pos and pos[f] < pos[s]) for f in fs)
            if early:
                out.append(" @ ".join(fs))
            elif len(fs) == 2 and all(f in zero0 for f in fs) and s in full_start:
                out.append(" @ ".join(fs))
        return out

    lines_of = {}
    for s in order:
        body = []
        if s == "Hm":
            lines_of[s] = ["%s + %s.adj" % (_q(inputs[0]), _q(inputs[0]))]
            continue
        if s in adj_copy.values():
            x = [k for k, v in adj_copy.items() if v == s][0]
            lines_of[s] = ["%s.adj" % _q(x)]
            continue
        st = starts[s]
        if st == "0":
            body.append("start = 0")
        elif st == "1":
            body.append("start = 1")
        elif st == "in":
            body.append("start = %s" % _q(rng.choice(inputs) + "_0"))
        elif st == "other":
            body.append("start = %s" % _q("nothing"))
        refs = inputs + [t for t in order if pos[t] < pos[s] and not (stress and t == names[0])] + usable_products(s)
        marker = rng.choice([None, None, "hermitian", "antihermitian"])
        marker_pos = 0 if rng.random() < 0.8 else 1
        nl = rng.randint(1, 3)
        if st == "1" and rng.random() < 0.7:
            # like U in the shipped algorithm: avoid adding the sentinel `one` to matrices
            vals = [g.atom(refs, adj_ok=False)]
            marker = None
        else:
            vals = []
            for _ in range(nl):
                c = rng.choice(["default", "diagonal", "offdiagonal", "offdiagonal", "diagonal"])
                e = g.expr(refs, rng.randint(0, 3))
                if e == "zero":  # a bare name is not an expression line of the grammar
                    e = "-zero"
                if c == "default":
                    vals.append(e)
                else:
                    vals.append("if %s:\n            %s" % (c, e))
        # constructs without meaning that the compiler must tolerate: a bare `zero` line, an assignment to
        # another name than `start`
        if rng.random() < 0.12 and not (st == "1" and marker is None and len(vals) == 1):
            vals.insert(rng.randrange(len(vals) + 1), "zero")
        if rng.random() < 0.12:
            body.append("note = %d" % rng.randint(0, 3))
        if stress and s == names[1]:
            vals = [_q(names[0]) if rng.random() < 0.6 else "%s + %s" % (_q(names[0]), g.atom(inputs, adj_ok=False))] + (vals[:1] if st != "1" else [])
            marker = None
        if marker is not None:
            vals.insert(min(marker_pos, len(vals)), marker)
        lines_of[s] = body + vals
    outs = rng.sample(names, rng.randint(1, min(3, len(names))))
    fname = "alg_%d" % idx
    src = ["def %s():" % fname]
    for s in order:
        src.append("    with %s:" % _q(s))
        for l in lines_of[s]:
            src.append("        " + l)
        src.append("")
    for fs, herm in products:
        src.append("    with %s:" % _q(" @ ".join(fs)))
        if rng.random() < 0.2:
            src.append("        " + _q("the product of %d factors" % len(fs)))
        src.append("        " + ("hermitian" if herm else "pass"))
        src.append("")
    ret = rng.random()
    if ret < 0.08:
        outs = []
        src.append("    return")  # bare return: no outputs
    elif ret < 0.14:
        outs = []  # no return statement at all
    else:
        src.append("    return " + ", ".join(_q(o) for o in outs))
    source = "\n".join(src) + "\n"
    js = TA.translate_source(source)[0]
    return dict(name=fname, source=source, json=js, inputs=inputs, series=order,
                products=[" @ ".join(fs) for fs, _ in products], outputs=outs,
                stress_pair=(names[1], names[0]) if stress else None, herm_long=herm_long)


def program_from_source(source):
    js = TA.translate_source(source)[0]
    used = set()

    def walk(e):
        if e[0] in ("Lit", "Adj"):
            used.add(e[1])
        elif e[0] in ("Neg",):
            walk(e[1])
        elif e[0] in ("Add", "Sub"):
            walk(e[1]); walk(e[2])
        elif e[0] == "DivInt":
            walk(e[1])
        elif e[0] == "Call":
            for a in e[2]:
                if a[0] == "ArgSeries":
                    used.add(a[1])
                else:
                    walk(a[1])
        elif e[0] == "IfFlag":
            walk(e[2]); walk(e[3])

    for s in js["series"]:
        for l in s["body"]:
            if l[0] == "Line":
                walk(l[2])
        if s["start"][0] == "StartInput":
            used.add(s["start"][1])
    for p in js["products"]:
        used.update(p["factors"])
    defined = {s["name"] for s in js["series"]}
    pnames = {" @ ".join(p["factors"]) for p in js["products"]}
    inputs = sorted(u for u in used if u not in defined and u not in pnames and "@" not in u)
    return dict(name=js["name"], source=source, json=js, inputs=inputs,
                series=[s["name"] for s in js["series"]], products=sorted(pnames), outputs=js["outputs"])


def load_function(prog):
    """write the source to a module file and import the function (inspect.getsource needs a file)"""
    GEN_DIR.mkdir(parents=True, exist_ok=True)
    h = core.sha(prog["source"])[:16]
    path = GEN_DIR / ("g_%s.py" % h)
    if not path.exists() or path.read_text(encoding="utf-8") != prog["source"]:
        path.write_text(prog["source"], encoding="utf-8")
    spec = importlib.util.spec_from_file_location("g_%s" % h, path)
    mod = importlib.util.module_from_spec(spec)
    spec.loader.exec_module(mod)
    return getattr(mod, prog["name"])


def cleanup():
    if GEN_DIR.exists():
        for p in list(GEN_DIR.glob("g_*.py")) + list(GEN_DIR.glob("__pycache__/*")):
            try:
                p.unlink()
            except OSError:
                pass
        for d in (GEN_DIR / "__pycache__", GEN_DIR):
            try:
                d.rmdir()
            except OSError:
                pass


# ------------------------------------------------------------------ exact values


def rand_matrix(rng, rational=True):
    """2x2 matrix as a tuple of 4 Fractions (row major), small, non-commuting in general"""
    den = rng.choice([1, 1, 1, 2, 3]) if rational else 1
    return tuple(Fraction(rng.randint(-3, 3), den) for _ in range(4))


def rand_inputs(rng, inputs, nb, np_, max_order=3, density=0.7):
    """-> dict (name, idx) -> 'zero' | matrix ; absent = zero"""
    import itertools

    tab = {}
    for x in inputs:
        for i in range(nb):
            for j in range(nb):
                for n in itertools.product(range(max_order + 1), repeat=np_):
                    if sum(n) > max_order:
                        continue
                    if rng.random() < density:
                        tab[(x, (i, j) + n)] = rand_matrix(rng)
    return tab


def to_sympy(m):
    import sympy

    return sympy.Matrix([[sympy.Rational(m[0].numerator, m[0].denominator), sympy.Rational(m[1].numerator, m[1].denominator)],
                         [sympy.Rational(m[2].numerator, m[2].denominator), sympy.Rational(m[3].numerator, m[3].denominator)]])


def from_value(v):
    """implementation value -> 'zero' | 'one' | tuple of 4 Fractions | ('other', repr)"""
    import sympy
    from pymablock.series import one, zero

    if v is zero:
        return "zero"
    if v is one:
        return "one"
    if isinstance(v, sympy.MatrixBase) and v.shape == (2, 2):
        out = []
        for x in v:
            x = sympy.nsimplify(x) if not isinstance(x, sympy.Rational) else x
            if not isinstance(x, sympy.Rational):
                return ("other", repr(v))
            out.append(Fraction(int(x.p), int(x.q)))
        return tuple(out)
    return ("other", repr(v)[:80])


EXN_COQ = {
    "RuntimeError": "RuntimeError",
    "TypeError": "TypeError",
    "KeyError": "KeyError",
    "SympifyError": "SympifyError",
    "Boom": "(UserExn 0)",
    "KeyboardInterrupt": "(UserExn 1)",
}


def exn_class(e):
    n = type(e).__name__
    if n in EXN_COQ:
        return n
    for c in type(e).__mro__:
        if c.__name__ in EXN_COQ:
            return c.__name__
    return "Other:" + n


# ------------------------------------------------------------------ scope functions (mirror of HarnessLib.lib_fn)


def scope_functions(custom_diag=False, with_offdiag=False, wrap=None):
    """wrap(name, fn) -> fn lets the fault / log harnesses intercept the calls"""
    import sympy
    from pymablock.series import BlockSeries, one, zero

    def K(i):
        return sympy.Matrix([[1, i + 1], [0, 1]])

    def deref(x, index):
        return x[index] if isinstance(x, BlockSeries) else x

    def f_scale(x, index):
        x = deref(x, index)
        if x is zero:
            return zero
        if x is one:
            raise TypeError("one")
        return 3 * x

    def f_lmul(x, index):
        x = deref(x, index)
        if x is zero:
            return zero
        if x is one:
            raise TypeError("one")
        return K(index[0]) * x

    def diag_custom(x, index):
        x = deref(x, index)
        if x is zero:
            return zero
        if x is one:
            raise TypeError("one")
        return K(index[0] + 1) * x

    def g_mul(x, y, index):
        x = deref(x, index)
        y = deref(y, index)
        if x is one or y is one:
            raise TypeError("one")
        if x is zero or y is zero:
            return zero
        return x * y

    def h_cond(x, index):
        if index[0] == 1:
            return zero
        return deref(x, index)

    def offdiag(x, index):
        if index[0] == 0:
            return zero
        return deref(x, index)

    fns = dict(f_scale=f_scale, f_lmul=f_lmul, g_mul=g_mul, h_cond=h_cond)
    if custom_diag:
        fns["diag"] = diag_custom
    if with_offdiag:
        fns["offdiag"] = offdiag
    if wrap is not None:
        fns = {k: wrap(k, v) for k, v in fns.items()}
    return fns


# ------------------------------------------------------------------ Coq printers


def cstr(s):
    return '"' + s.replace('"', '""') + '"'


def cnat(n):
    n = int(n)
    assert 0 <= n < 5000
    return "%d%%nat" % n


def cidx(idx):
    return "(%s, %s, [%s])" % (cnat(idx[0]), cnat(idx[1]), "; ".join(cnat(x) for x in idx[2:]))


def cmat(m):
    from math import lcm

    d = 1
    for x in m:
        d = lcm(d, x.denominator)
    nums = [int(x * d) for x in m]
    if d == 1:
        return "(mz (%d) (%d) (%d) (%d))" % tuple(nums)
    return "(mq (%d) (%d) (%d) (%d) %d)" % (tuple(nums) + (d,))


def cobs(o):
    """o: 'zero' | 'one' | matrix tuple | ('exn', classname)"""
    if o == "zero":
        return "OZero"
    if o == "one":
        return "OOne"
    if isinstance(o, tuple) and o and o[0] == "exn":
        return "(OExn %s)" % EXN_COQ.get(o[1], "(UserExn 99)")
    if isinstance(o, tuple) and o and o[0] == "other":
        return "OFuel"  # never equal to a model observation
    return "(OVal %s)" % cmat(o)


def csval(v):
    if v == "zero":
        return "SZero"
    if v == "one":
        return "SOne"
    return "(SVal %s)" % cmat(v)


def ccfg(nb, np_, inputs, envtab, uselin=(), hasoff=False, diag_custom=False, gflags=(), rflags=None,
         counted=(), faults=()):
    env = "[" + "; ".join("(%s, %s, %s)" % (cstr(k[0]), cidx(k[1]), csval(v)) for k, v in sorted(envtab.items(), key=lambda kv: (kv[0][0], kv[0][1]))) + "]"
    rfl = "[" + "; ".join("(%s, [%s])" % (cstr(n), "; ".join(cnat(i) for i in rows)) for n, rows in sorted((rflags or {}).items())) + "]"
    return ("{| c_nb := %s; c_np := %s; c_inputs := [%s]; c_env := %s; c_uselin := [%s]; c_hasoff := %s; "
            "c_diag_custom := %s; c_gflags := [%s]; c_rflags := %s; c_counted := [%s]; c_faults := [%s] |}") % (
        cnat(nb), cnat(np_), "; ".join(cstr(x) for x in inputs), env,
        "; ".join("(%s, %s)" % (cnat(i), cnat(j)) for i, j in uselin),
        "true" if hasoff else "false", "true" if diag_custom else "false",
        "; ".join(cstr(x) for x in gflags), rfl, "; ".join(cstr(x) for x in counted),
        "; ".join("(%s, %s)" % (cnat(k), EXN_COQ[c]) for k, c in faults))


def creq(tb, name, idx):
    return "(%s, %s, %s)" % ("TLin" if tb == "lin" else "TTab", cstr(name), cidx(idx))


def coq_alg(js):
    txt = TA.emit_alg(js)
    return "(" + txt.split(":=", 1)[1].rstrip().rstrip(".") + ")"


# ------------------------------------------------------------------ (de)serialisation for replay files


def world_to_json(w):
    return dict(nb=w["nb"], np=w["np"], gflags=list(w["gflags"]), rflags={k: list(v) for k, v in w["rflags"].items()},
                hasoff=bool(w["hasoff"]), diag_custom=bool(w["diag_custom"]),
                env=[[k[0], list(k[1]), [str(x) for x in v]] for k, v in sorted(w["env"].items())])


def world_from_json(j):
    return dict(nb=j["nb"], np=j["np"], gflags=list(j["gflags"]), rflags={k: list(v) for k, v in j["rflags"].items()},
                hasoff=j["hasoff"], diag_custom=j["diag_custom"],
                env={(e[0], tuple(e[1])): tuple(Fraction(x) for x in e[2]) for e in j["env"]})
