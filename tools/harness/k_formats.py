"""Correspondence and oracle for the input normalisation (C14).

An *instance* is a gen.random_case problem (H_0 diagonal, exact).  A *presentation* of it is a
triple (container format, value type, designation of the blocks):
  formats      list | dict (order tuples) | mono (monomial keys) | expr (sympy matrix with symbols)
               | blocks (nested block lists) | series (a BlockSeries)
  value types  dense | sparse | sympy        (fixed by the instance: exact-float data or rationals)
  designations indices | eigid (eigenvector matrices = identity columns) | eigrot (a genuine
               rotated / rescaled eigenbasis: the matrices are rotated the other way)

tie_formats(ctx):    operator_to_BlockSeries(presentation) element by element versus the Coq model
                     (PV.Front.Normalize + PV.Front.Project), exact.
oracle_formats(ctx): H_tilde, U, U† of block_diagonalize for all presentations of an instance
                     compared pairwise (all elements up to total order 3 / 4), exact.
"""
import sys, warnings, itertools, copy
from fractions import Fraction as Fr
from vlib import core

sys.path.insert(0, str(core.REPO))
import numpy as np  # noqa: E402
import sympy  # noqa: E402
import scipy.sparse as sp  # noqa: E402
from . import gq, gen, implrun  # noqa: E402
from .gq import G  # noqa: E402
from .k_sylvdiag import cg, cmat  # noqa: E402

FORMATS = ["list", "dict", "mono", "expr", "blocks", "series"]
DESIGNATIONS = ["indices", "eigid", "eigrot"]
# extra presentations of SPARSE instances: the same numbers as ndarray, and as scipy sparse MATRIX
# objects (csr_matrix / coo_matrix: `*` is the matrix product there, unlike csr_array) in the places
# where the blocks reach the algorithm unconverted: nested block lists, a BlockSeries of blocks,
# and full sparse matrices together with sparse-matrix subspace_eigenvectors
EXTRA_PRESENTATIONS = [("dict_dense", "indices"), ("blocks_spm", "indices"), ("bseries_spm", "indices"), ("dict_spm", "eigsp")]
PREBLOCKED = ("blocks", "blocks_spm", "bseries_spm")

# symbol names: creation order and reversed-name order both differ from the name order
# (the names also have different lengths, and their length order differs from their name order)
SYMBOL_NAMES = ["alpha_z", "by", "c_x1"]

HEADER = """Require Import List Bool Arith ZArith QArith Qcanon.
Require Import PV.Front.GaussQc PV.Front.SylvDiag PV.Front.SylvDiagProofs PV.Front.Normalize PV.Front.NormalizeInst PV.Front.Project.
Import ListNotations.
Definition FX : Fld := GF (qc 0 1) eq_refl.
Definition lm (M : list (list G)) : fmat FX := fun a b => nth b (nth a M []) g0.
Fixpoint tbl_get (tbl : list (Z * list (list G))) (id : Z) : option (fmat FX) :=
  match tbl with [] => None | (k, M) :: r => if Z.eqb k id then Some (lm M) else tbl_get r id end.
Definition id_of (n : order) (v : @nf_value ZVals) : option Z :=
  match v with
  | NV z => Some z
  | NE (EV mono c) => if order_eqb mono n then Some c else None
  end.
Definition block_ok (o : option (fmat FX)) (E : list (list G)) : bool :=
  forallb (fun a => forallb (fun b => keqb FX (oget FX o a b) (nth b (nth a E []) g0))
                            (seq 0 (length (nth a E [])))) (seq 0 (length E)).
Definition bases (Ls Rs : list (list (list G))) (N : nat) (sizes : list nat) : setup FX :=
  mkSetup FX N (fun b => nth b sizes 0%nat) (fun b => lm (nth b Ls [])) (fun b => lm (nth b Rs [])).
Definition query := (order * (nat * nat) * list (list G))%type.
(* scalar container + projection *)
Definition fcase (c : @container ZVals) (S : setup FX) (herm : bool)
  (tbl : list (Z * list (list G))) (qs : list query) : bool :=
  match to_scalar_series ZVals c with
  | Ok s =>
    forallb (fun q : query =>
      let '(n, (i, j), E) := q in
      match s n with
      | None => block_ok (op_eval FX S herm None i j) E
      | Some v =>
        match id_of n v with
        | Some id => match tbl_get tbl id with
                     | Some M => block_ok (op_eval FX S herm (Some M) i j) E
                     | None => false end
        | None => false
        end
      end) qs
  | RaiseIndexError => false
  end.
(* nested block lists: grids of labels *)
Fixpoint grid_get (gs : list (order * list (list Z))) (n : order) : option (list (list Z)) :=
  match gs with [] => None | (k, g) :: r => if order_eqb k n then Some g else grid_get r n end.
Definition bcase (gs : list (order * list (list Z))) (tbl : list (Z * list (list G))) (qs : list query) : bool :=
  forallb (fun q : query =>
    let '(n, (i, j), E) := q in
    match unpack_blocks ZVals (grid_get gs) i j n with
    | None => block_ok None E
    | Some id => match tbl_get tbl id with Some M => block_ok (Some M) E | None => false end
    end) qs.
"""


# ---------------------------------------------------------------------------
# instances


MIXED = {2: [(1, 1), (2, 1), (1, 2)], 3: [(1, 1, 0), (0, 1, 1), (2, 1, 0), (1, 1, 1)]}


def make_instance(rng, vt, k, small=False, analytic=False):
    """k even: first-order terms only (the list format applies).  k odd, symbolic values: at least two
    parameters and MIXED monomials x*y, x**2*y, x*y*z (the Taylor chain of the sympy-expression
    format divides by the order of ONE symbol per step: only mixed monomials can tell).
    analytic (oracle only): an additional term f(x_0) * x_1 * C with f = exp or cos; the other
    presentations receive its Taylor expansion up to total order 4."""
    herm = rng.random() < 0.75
    mixed = vt == "sympy" and (k % 2 == 1 or analytic)
    for _ in range(200):
        c = gen.random_case(rng, hermitian=herm, fmt=vt, max_blocks=3, max_size=2 if small else 3,
                            max_params=3 if mixed else 2, N=3, allow_fully=True, allow_mask=True,
                            cplx=(False if (mixed and small) else None))
        if not mixed or (c["nparam"] >= 2 and (not small or len(c["sub"]) <= 3)):
            break
    c = copy.deepcopy(c)
    dim = len(c["sub"])
    if vt == "sparse" and c["fully"] is None and max(c["sub"]) >= 1 and rng.random() < 0.7:
        # a block in fully_diagonalize: the diag / offdiag masks are applied to the sparse blocks
        c["fully"] = [rng.randrange(max(c["sub"]) + 1)]
    if k % 2 == 0 and not analytic:  # first-order terms only, so that the list format applies
        c["H"] = {key: M for key, M in c["H"].items() if sum(gen.unkey(key)) <= 1}
    if mixed:
        pool = MIXED[c["nparam"]]
        for o in rng.sample(pool, rng.randint(2, len(pool))):
            M = gen.rand_matrix(rng, dim, herm=herm, cplx=(not small) and rng.random() < 0.5, dyadic=False, density=1.0)
            if gq.is_zero(M):
                M[0][0] = G(1)
            c["H"][gen.key(o)] = gq.enc(M)
    # every parameter must occur (the sympy-expression format rejects unused symbols)
    for key, M in list(c["H"].items()):
        if sum(gen.unkey(key)) == 1 and gq.is_zero(gq.dec(M)):
            Md = gq.dec(M)
            Md[0][0] = G(1)
            c["H"][key] = gq.enc(Md)
    if mixed and small:
        c["light"] = True   # oracle: only the presentations that involve the Taylor chain (exact sympy is slow)
    if analytic:
        f = rng.choice(["exp", "cos"])
        C = gen.rand_matrix(rng, dim, herm=herm, cplx=False, dyadic=False, density=1.0)
        if gq.is_zero(C):
            C[0][0] = G(1)
        c["analytic"] = dict(f=f, C=gq.enc(C))
        c["H_poly"] = dict(c["H"])
        # f(x_0) * x_1 * C = sum_k t_k x_0^k x_1 C
        for kk in range(0, 4):
            if f == "exp":
                t = Fr(1, _fact(kk))
            else:
                t = Fr((-1) ** (kk // 2), _fact(kk)) if kk % 2 == 0 else Fr(0)
            if t == 0:
                continue
            o = (kk, 1) + (0,) * (c["nparam"] - 2)
            prev = gq.dec(c["H"][gen.key(o)]) if gen.key(o) in c["H"] else gq.zeros(dim)
            c["H"][gen.key(o)] = gq.enc(gq.add(prev, gq.scal(t, C)))
    return c


def _fact(n):
    r = 1
    for i in range(2, n + 1):
        r *= i
    return r


def rotation(rng, inst):
    """exact unitary Q (columns = new basis vectors, grouped so that block b owns the columns at the
    positions of block b) with dyadic (numeric) or rational (sympy) entries; plus a column scaling D
    for the biorthogonal (R, L) form of non-Hermitian instances."""
    dim = len(inst["sub"])
    Q = gq.zeros(dim)
    perm = list(range(dim))
    rng.shuffle(perm)
    for col, row in enumerate(perm):
        Q[row][col] = rng.choice([G(1), G(-1), G(0, 1), G(0, -1)])
    if inst["fmt"] == "sympy" and dim >= 2:
        a, b = rng.sample(range(dim), 2)
        Rm = gq.eye(dim)
        c_, s_ = Fr(3, 5), Fr(4, 5)
        Rm[a][a], Rm[a][b], Rm[b][a], Rm[b][b] = G(c_), G(s_), G(-s_), G(c_)
        Q = gq.mul(Rm, Q)
    elif dim >= 4:
        idx = rng.sample(range(dim), 4)
        Hd = [[1, 1, 1, 1], [1, -1, 1, -1], [1, 1, -1, -1], [1, -1, -1, 1]]
        Rm = gq.eye(dim)
        for x in range(4):
            for y in range(4):
                Rm[idx[x]][idx[y]] = G(Fr(Hd[x][y], 2))
        Q = gq.mul(Rm, Q)
    D = [G(1)] * dim
    if not inst["hermitian"]:
        D = [rng.choice([G(1), G(2), G(Fr(1, 2)), G(-1)]) for _ in range(dim)]
    return Q, D


def view(inst, desig, rng):
    """the matrices handed to the library and the bases (R_b, L_b) designating the blocks."""
    sub = inst["sub"]
    dim = len(sub)
    nb = max(sub) + 1
    pos = [[k for k in range(dim) if sub[k] == b] for b in range(nb)]
    H = {gen.unkey(k): gq.dec(M) for k, M in inst["H"].items()}
    view.extra = None
    if "analytic" in inst:
        view.extra = dict(f=inst["analytic"]["f"], C=gq.dec(inst["analytic"]["C"]),
                          H_poly={gen.unkey(k): gq.dec(M) for k, M in inst["H_poly"].items()})
    if desig in ("indices", "eigid"):
        I = gq.eye(dim)
        R = [[[I[r][c] for c in pos[b]] for r in range(dim)] for b in range(nb)]
        return H, R, R, None
    Q, D = rotation(rng, inst)
    Qd = gq.adj(Q)
    Hrot = {n: gq.mul(gq.mul(Q, M), Qd) for n, M in H.items()}
    if view.extra is not None:
        view.extra["C"] = gq.mul(gq.mul(Q, view.extra["C"]), Qd)
        view.extra["H_poly"] = {n: gq.mul(gq.mul(Q, M), Qd) for n, M in view.extra["H_poly"].items()}
    R = [[[Q[r][c] * D[c] for c in pos[b]] for r in range(dim)] for b in range(nb)]
    L = [[[Q[r][c] * (D[c].conj().inv()) for c in pos[b]] for r in range(dim)] for b in range(nb)]
    pairs = any(d != G(1) for d in D)
    return Hrot, R, L, (D if pairs else None)


def conv(M, vt):
    if vt == "sympy":
        return implrun.to_sympy(M)
    A = implrun.to_numpy(M)
    return sp.csr_array(A) if vt == "sparse" else A


def conv_vec(M, vt):
    return implrun.to_sympy(M) if vt == "sympy" else implrun.to_numpy(M)


def symbols_for(nparam):
    # created in reverse order on purpose
    syms = [sympy.Symbol(SYMBOL_NAMES[p], real=True) for p in reversed(range(nparam))]
    return list(reversed(syms))


def user_symbols(nparam, rng):
    """an EXPLICIT symbols list for the sympy-expression format whose order (mostly) differs from the
    name order: parameter p is the symbol of name rank ranks[p].  Returns (symbols, ranks)."""
    ranks = list(range(nparam))
    if nparam >= 2 and rng.random() < 0.75:
        while ranks == sorted(ranks):
            rng.shuffle(ranks)
    return [sympy.Symbol(SYMBOL_NAMES[r], real=True) for r in ranks], ranks


def present(inst, fmt, desig, rng):
    """returns (hamiltonian, kwargs for operator_to_BlockSeries/block_diagonalize, info) or None if
    the presentation does not exist for this instance."""
    vt = inst["fmt"]
    nparam = inst["nparam"]
    sub = inst["sub"]
    nb = max(sub) + 1
    dim = len(sub)
    pos = [[k for k in range(dim) if sub[k] == b] for b in range(nb)]
    if fmt == "expr" and vt != "sympy":
        return None
    if fmt == "list" and any(sum(gen.unkey(k)) > 1 for k in inst["H"]):
        return None
    if fmt in PREBLOCKED and desig != "indices":
        return None
    if fmt in ("dict_dense", "blocks_spm", "bseries_spm", "dict_spm") and vt != "sparse":
        return None
    if (fmt == "dict_spm") != (desig == "eigsp"):
        return None
    H, R, L, D = view(inst, "eigid" if desig == "eigsp" else desig, rng)
    pairs = D is not None
    kw = {}
    info = dict(H=H, R=R, L=L, pairs=pairs, D=D, syms=None)
    spm_kinds = [sp.csr_matrix, sp.coo_matrix]
    conv_spm = lambda M, k=0: spm_kinds[k % 2](implrun.to_numpy(M))  # noqa: E731
    if fmt not in PREBLOCKED:
        if desig == "indices":
            kw["subspace_indices"] = list(sub)
        elif desig == "eigsp":
            kw["subspace_eigenvectors"] = [sp.csr_matrix(conv_vec(R[b], vt)) for b in range(nb)]
        else:
            if pairs:
                kw["subspace_eigenvectors"] = [(conv_vec(R[b], vt), conv_vec(L[b], vt)) for b in range(nb)]
            else:
                kw["subspace_eigenvectors"] = [conv_vec(R[b], vt) for b in range(nb)]
    zero = (0,) * nparam
    units = [tuple(int(a == b) for b in range(nparam)) for a in range(nparam)]
    if fmt == "list":
        ham = [conv(H[zero], vt)] + [conv(H.get(u, gq.zeros(dim)), vt) for u in units]
    elif fmt == "dict":
        items = list(H.items())
        rng.shuffle(items)
        ham = {n: conv(M, vt) for n, M in items}
    elif fmt == "dict_dense":
        ham = {n: conv(M, "dense") for n, M in H.items()}
    elif fmt == "dict_spm":
        ham = {n: sp.csr_matrix(implrun.to_numpy(M)) for n, M in H.items()}
    elif fmt == "blocks_spm":
        ham = {n: [[conv_spm(gq.block(M, pos[i], pos[j]), i + j) for j in range(nb)] for i in range(nb)] for n, M in H.items()}
    elif fmt == "bseries_spm":
        from pymablock.series import BlockSeries
        data = {}
        for n, M in H.items():
            for i in range(nb):
                for j in range(nb):
                    B = gq.block(M, pos[i], pos[j])
                    if not gq.is_zero(B):
                        data[(i, j) + tuple(n)] = conv_spm(B, i + j)
        ham = BlockSeries(data=data, shape=(nb, nb), n_infinite=nparam)
    elif fmt == "mono":
        syms = symbols_for(nparam)
        items = list(H.items())
        rng.shuffle(items)
        ham = {}
        for n, M in items:
            key = sympy.Integer(1)
            for s, e in zip(syms, n):
                key = key * s ** e
            ham[key] = conv(M, vt)
        info["syms"] = syms
    elif fmt == "expr":
        syms, ranks = user_symbols(nparam, rng)
        info["ranks"] = ranks
        expr = sympy.zeros(dim)
        extra = view.extra
        for n, M in (H if extra is None else extra["H_poly"]).items():
            mono = sympy.Integer(1)
            for s, e in zip(syms, n):
                mono = mono * s ** e
            expr = expr + mono * implrun.to_sympy(M)
        if extra is not None:
            f = sympy.exp if extra["f"] == "exp" else sympy.cos
            expr = expr + f(syms[0]) * syms[1] * implrun.to_sympy(extra["C"])
        ham = sympy.Matrix(expr)
        info["syms"] = syms
        # symbols=None: all free symbols are perturbative, in the iteration order of a set (the
        # library's order is then read off the first-order elements); else the explicit list
        info["symmode"] = "none" if rng.random() < 0.35 else "explicit"
        if info["symmode"] == "explicit":
            kw["symbols"] = syms
    elif fmt == "blocks":
        ham = {n: [[conv(gq.block(M, pos[i], pos[j]), vt) for j in range(nb)] for i in range(nb)] for n, M in H.items()}
    elif fmt == "series":
        from pymablock.series import BlockSeries
        ham = BlockSeries(data={n: conv(M, vt) for n, M in H.items()}, shape=(), n_infinite=nparam)
    else:
        raise ValueError(fmt)
    return ham, kw, info


def strip_symbols(v, syms, n):
    """element of the expression format -> (coefficient, ok) with ok = the element is exactly
    coefficient * monomial."""
    if syms is None or not isinstance(v, sympy.MatrixBase):
        return v, True
    coeff = v.subs({s: 1 for s in syms})
    mono = sympy.Integer(1)
    for s, e in zip(syms, n):
        mono = mono * s ** e
    ok = (sympy.expand(v - coeff * mono)).is_zero_matrix is True
    return coeff, ok


# ---------------------------------------------------------------------------
# tie: operator_to_BlockSeries vs the model


def corder(n):
    return "[%s]" % "; ".join("%d%%nat" % x for x in n)


def named_poly(ranks, ids, free=None):
    """Coq: poly_in (resolve_symbols <given> <free order>) Q with Q keyed by the exponent of each name
    rank.  free=None: the explicit list (the user's order); else symbols=None and the library's
    set-iteration order `free`."""
    arms = "".join("if %s then %d%%Z else " % (" && ".join("(pw %d%%nat =? %d%%nat)%%nat" % (ranks[p], e) for p, e in enumerate(n)) or "true", ids[n])
                   for n in sorted(ids))
    given = ranks if free is None else []
    return "(poly_in ZVals (resolve_symbols [%s] [%s]) (fun pw => %s0%%Z))" % (
        "; ".join("%d%%nat" % r for r in given), "; ".join("%d%%nat" % r for r in (free or [])), arms)


def lib_order(series_list, nb, syms, nparam):
    """symbols=None: which parameter the q-th index of the library counts, read off the symbols in
    the first-order elements.  None if it cannot be determined."""
    perm = []
    for q in range(nparam):
        e = tuple(int(a == q) for a in range(nparam))
        found = set()
        for S in series_list:
            for i in range(nb):
                for j in range(nb):
                    v = S[(i, j) + e]
                    if isinstance(v, (sympy.MatrixBase, sympy.Expr)):
                        found |= set(v.free_symbols) & set(syms)
        if len(found) != 1:
            return None
        perm.append(syms.index(found.pop()))
    return perm if sorted(perm) == list(range(nparam)) else None


def model_term(inst, fmt, desig, info, queries):
    nparam = inst["nparam"]
    sub = inst["sub"]
    nb = max(sub) + 1
    dim = len(sub)
    pos = [[k for k in range(dim) if sub[k] == b] for b in range(nb)]
    H = info["H"]
    ids = {n: k + 1 for k, n in enumerate(sorted(H))}
    tbl = "[%s]" % "; ".join("(%d%%Z, %s)" % (ids[n], cmat(H[n])) for n in sorted(H))
    qs = "[%s]" % "; ".join("(%s, (%d%%nat, %d%%nat), %s)" % (corder(n), i, j, cmat(E)) for n, i, j, E in queries)
    if fmt in PREBLOCKED:
        tblb = []
        grids = []
        for n in sorted(H):
            g = []
            for i in range(nb):
                row = []
                for j in range(nb):
                    B = gq.block(H[n], pos[i], pos[j])
                    if gq.is_zero(B):
                        row.append(0)
                    else:
                        bid = len(tblb) + 1
                        tblb.append("(%d%%Z, %s)" % (bid, cmat(B)))
                        row.append(bid)
                g.append(row)
            grids.append("(%s, [%s])" % (corder(n), "; ".join("[%s]" % "; ".join("%d%%Z" % x for x in r) for r in g)))
        return "bcase [%s] [%s] %s" % ("; ".join(grids), "; ".join(tblb), qs)
    zero = (0,) * nparam
    units = [tuple(int(a == b) for b in range(nparam)) for a in range(nparam)]
    if fmt == "list":
        # absent first-order terms were passed as explicit zero matrices: label 0 is the zero value
        c = "(@CList ZVals [%s])" % "; ".join("%d%%Z" % ids.get(n, 0) for n in [zero] + units)
    elif fmt in ("dict", "series", "dict_dense", "dict_spm"):
        c = "(@CDict ZVals [%s])" % "; ".join("(%s, %d%%Z)" % (corder(n), ids[n]) for n in sorted(H))
    elif fmt == "mono":
        # symbol p has rank p in the name order
        c = "(@CMono ZVals [%s])" % "; ".join(
            "([%s], %d%%Z)" % ("; ".join("(%d%%nat, %d%%nat)" % (p, e) for p, e in enumerate(n) if e), ids[n]) for n in sorted(H))
    elif fmt == "expr":
        # the polynomial by named symbols (ranks in the name order); the explicit symbols list in
        # the user's order decides which index counts which symbol
        c = "(@CExpr ZVals %d%%nat %s)" % (nparam, named_poly(info["ranks"], {n: ids[n] for n in H}, free=info.get("lib_ranks")))
    else:
        raise ValueError(fmt)
    if desig == "indices":
        S = "(setup_of_indices FX [%s])" % "; ".join("%d%%nat" % s for s in sub)
    else:
        S = "(bases [%s] [%s] %d%%nat [%s])" % ("; ".join(cmat(M) for M in info["L"]), "; ".join(cmat(M) for M in info["R"]), dim,
                                              "; ".join("%d%%nat" % len(p) for p in pos))
    return "fcase %s %s %s %s %s" % (c, S, "true" if inst["hermitian"] else "false", tbl, qs)


def observe_otbs(inst, fmt, desig, rng):
    from pymablock.block_diagonalization import operator_to_BlockSeries
    p = present(inst, fmt, desig, rng)
    if p is None:
        return None
    ham, kw, info = p
    sub = inst["sub"]
    nb = max(sub) + 1
    sizes = [sum(1 for s in sub if s == b) for b in range(nb)]
    top = 3 if any(sum(gen.unkey(k)) >= 3 for k in inst["H"]) else 2
    orders = gq.orders_upto(inst["nparam"], top)
    queries = []
    problems = []
    with warnings.catch_warnings():
        warnings.simplefilter("ignore")
        S = operator_to_BlockSeries(ham, hermitian=inst["hermitian"], **kw)
        syms_lib, perm = info["syms"], None
        if fmt == "expr" and info.get("symmode") == "none":
            perm = lib_order([S], nb, info["syms"], inst["nparam"])
            if perm is None:
                return None
            syms_lib = [info["syms"][p_] for p_ in perm]
            info["lib_ranks"] = [info["ranks"][p_] for p_ in perm]
        for n in orders:
            n_lib = tuple(n) if perm is None else tuple(n[p_] for p_ in perm)
            for i in range(nb):
                for j in range(nb):
                    v = S[(i, j) + n_lib]
                    v, ok = strip_symbols(v, syms_lib if fmt == "expr" else None, n_lib)
                    if not ok:
                        problems.append("element %s is not coefficient * monomial" % ((i, j) + n_lib,))
                    queries.append((n_lib, i, j, implrun.from_value(v, (sizes[i], sizes[j]))))
        names = S.dimension_names
    want = tuple(info["syms"] or ())
    if fmt == "expr" and info.get("symmode") == "explicit" and tuple(names or ()) != want:
        problems.append("dimension_names %s, expected %s" % (names, want))
    if fmt == "mono":
        # operator_to_BlockSeries does not forward the derived symbols (dimension_names stay
        # n_0, n_1, ...: reported, metadata only); the symbol order is observed on
        # _symbolic_keys_to_tuples itself
        from pymablock.block_diagonalization import _symbolic_keys_to_tuples
        _, got = _symbolic_keys_to_tuples(dict(ham))
        used = tuple(s_ for s_ in want if any(s_ in k.free_symbols for k in ham))
        if tuple(got) != used:
            problems.append("_symbolic_keys_to_tuples symbols %s, expected %s" % (got, used))
    return info, queries, problems


def scalar_expr_case(rng):
    """a scalar sympy.Expr input (polynomial with mixed monomials): operator_to_BlockSeries returns a
    single 1x1 block per order = coefficient * monomial.  Returns (term, meta, problems)."""
    from pymablock.block_diagonalization import operator_to_BlockSeries
    nparam = rng.choice([2, 3])
    syms, ranks = user_symbols(nparam, rng)
    coeffs = {(0,) * nparam: Fr(rng.randint(1, 5), rng.randint(1, 3))}
    for o in gq.orders_upto(nparam, 3):
        if sum(o) == 1 or (sum(o) >= 2 and rng.random() < (0.7 if sum(1 for e in o if e) >= 2 else 0.3)):
            coeffs[tuple(o)] = Fr(rng.choice([-3, -2, -1, 1, 2, 3, 4]), rng.randint(1, 4))
    expr = sympy.Integer(0)
    for o, cf in coeffs.items():
        mono = sympy.Integer(1)
        for s_, e in zip(syms, o):
            mono = mono * s_ ** e
        expr = expr + sympy.Rational(cf.numerator, cf.denominator) * mono
    problems, queries = [], []
    with warnings.catch_warnings():
        warnings.simplefilter("ignore")
        S = operator_to_BlockSeries(expr, symbols=syms, hermitian=True)
        for n in gq.orders_upto(nparam, 3):
            v = S[(0, 0) + tuple(n)]
            if isinstance(v, sympy.Expr):
                v = sympy.Matrix([[v]])
            v, ok = strip_symbols(v, syms, n)
            if not ok:
                problems.append("scalar element %s is not coefficient * monomial" % (tuple(n),))
            queries.append((tuple(n), 0, 0, implrun.from_value(v, (1, 1))))
    ids = {o: k + 1 for k, o in enumerate(sorted(coeffs))}
    tbl = "[%s]" % "; ".join("(%d%%Z, %s)" % (ids[o], cmat([[G(coeffs[o])]])) for o in sorted(coeffs))
    qs = "[%s]" % "; ".join("(%s, (%d%%nat, %d%%nat), %s)" % (corder(n), i, j, cmat(E)) for n, i, j, E in queries)
    c = "(@CExpr ZVals %d%%nat %s)" % (nparam, named_poly(ranks, ids))
    names = S.dimension_names
    if tuple(names or ()) != tuple(syms):
        problems.append("scalar expression: dimension_names %s, expected %s" % (names, tuple(syms)))
    term = "fcase %s (setup_of_indices FX [0%%nat]) true %s %s" % (c, tbl, qs)
    meta = dict(inst=dict(scalar_expr=str(expr), nparam=nparam), fmt="scalar-expr", desig="none")
    return term, meta, problems


def tie_formats(ctx, ninst=None):
    n = ninst or ctx.n(18, 240)
    rng = ctx.rng
    terms, meta, disagreements, dist = [], [], [], {}
    nontriv = set()
    vts = ["sympy", "dense", "sparse"]
    for k in range(n):
        inst = make_instance(rng, vts[k % 3], k // 3)
        for fmt, desig in [(f, d) for f in FORMATS for d in DESIGNATIONS] + EXTRA_PRESENTATIONS:
            if True:
                try:
                    r = observe_otbs(inst, fmt, desig, rng)
                except Exception as e:  # noqa: BLE001
                    disagreements.append(dict(what="operator_to_BlockSeries raised %s: %s" % (type(e).__name__, str(e)[:200]),
                                              input=dict(inst=inst, fmt=fmt, desig=desig), impl=None, model=None))
                    continue
                if r is None:
                    continue
                info, queries, problems = r
                key = "%s/%s/%s" % (fmt, inst["fmt"], desig)
                dist[key] = dist.get(key, 0) + 1
                for pb in problems:
                    disagreements.append(dict(what=pb, input=dict(inst=inst, fmt=fmt, desig=desig), impl=None, model=None))
                terms.append(model_term(inst, fmt, desig, info, queries))
                meta.append(dict(inst=inst, fmt=fmt, desig=desig))
                if max(inst["sub"]) >= 1 and len(inst["H"]) >= 3:
                    nontriv.add(core.canon((inst, fmt, desig)))
    for _ in range(max(3, n // 3)):
        term, m, problems = scalar_expr_case(rng)
        dist["scalar-expr/sympy/none"] = dist.get("scalar-expr/sympy/none", 0) + 1
        for pb in problems:
            disagreements.append(dict(what=pb, input=m, impl=None, model=None))
        terms.append(term)
        meta.append(m)
        nontriv.add(core.canon(m))
    failing = core.coq_eval_cases("k_formats", HEADER, terms, shard=12, timeout=1500)
    for idx in failing:
        disagreements.append(dict(what="operator_to_BlockSeries differs from the model (%s, %s, %s)" % (meta[idx]["fmt"], meta[idx]["inst"].get("fmt", "sympy"), meta[idx]["desig"]),
                                  input=meta[idx], impl="elements encoded in the term", model="Coq term evaluates to false: " + terms[idx][:1500]))
    return dict(cases=len(terms), nontrivial=len(nontriv), rule="distinct presentations (format x value type x designation) of instances with >= 2 blocks and >= 3 terms, all elements of total order <= 2",
                samples=meta[:3], distribution=dist, disagreements=disagreements)


# ---------------------------------------------------------------------------
# oracle: block_diagonalize outputs across presentations


def run_bd(inst, fmt, desig, rng, N):
    from pymablock import block_diagonalize
    p = present(inst, fmt, desig, rng)
    if p is None:
        return None
    ham, kw, info = p
    sub = inst["sub"]
    nb = max(sub) + 1
    sizes = [sum(1 for s in sub if s == b) for b in range(nb)]
    pos = [[k for k in range(len(sub)) if sub[k] == b] for b in range(nb)]
    out = {}
    if fmt == "expr" and info.get("symmode") == "explicit" and inst["nparam"] == 1 and rng.random() < 0.5:
        kw["symbols"] = kw["symbols"][0]       # a single Symbol instead of a list
    with warnings.catch_warnings():
        warnings.simplefilter("ignore")
        res = block_diagonalize(ham, hermitian=inst["hermitian"], fully_diagonalize=implrun.build_fully(inst), **kw)
        syms_lib, perm = info["syms"], None
        if fmt == "expr" and info.get("symmode") == "none":
            perm = lib_order(list(res[:2]), nb, info["syms"], inst["nparam"])
            if perm is None:
                return None
            syms_lib = [info["syms"][p_] for p_ in perm]
        for name, S in zip(("H_tilde", "U", "Uinv"), res):
            for n in gq.orders_upto(inst["nparam"], N):
                n_lib = tuple(n) if perm is None else tuple(n[p_] for p_ in perm)
                for i in range(nb):
                    for j in range(nb):
                        v = S[(i, j) + n_lib]
                        if fmt == "expr":
                            v, ok = strip_symbols(v, syms_lib, n_lib)
                            if not ok:
                                return dict(error="element %s %s is not coefficient * monomial" % (name, (i, j) + tuple(n)))
                        X = implrun.from_value(v, (sizes[i], sizes[j]))
                        if info["D"] is not None:
                            # bases (R, L) = (Q D, Q D^-dagger): every series comes out conjugated by the
                            # diagonal D; undo it (X = D X' D^-1) before comparing
                            D = info["D"]
                            X = [[D[pos[i][a]] * X[a][b] * D[pos[j][b]].inv() for b in range(sizes[j])] for a in range(sizes[i])]
                        out[(name, i, j) + tuple(n)] = gq.enc(X)
    return out


def compare_instance(inst, rng, N, seed=None):
    """returns (number of presentations, list of failures)."""
    ref = None
    failures = []
    count = 0
    combos = [(fmt, desig) for fmt in ["dict"] + [f for f in FORMATS if f != "dict"] for desig in DESIGNATIONS] + EXTRA_PRESENTATIONS
    if inst.get("reduced") and not inst.get("light"):
        # quick tier, large symbolic instance: every format once, the designations on two formats
        combos = [(f, "indices") for f in ["dict"] + [f for f in FORMATS if f != "dict"]] + [("dict", "eigid"), ("dict", "eigrot"), ("expr", "eigrot")]
    if inst.get("light"):
        combos = [("dict", "indices"), ("mono", "indices"), ("expr", "indices"), ("expr", "eigid"), ("expr", "eigrot"), ("series", "eigrot")]
    for fmt, desig in combos:
        if True:
            state = rng.getstate()
            try:
                out = run_bd(inst, fmt, desig, rng, N)
            except Exception as e:  # noqa: BLE001
                failures.append(dict(what="block_diagonalize raised %s for presentation (%s, %s, %s): %s" % (type(e).__name__, fmt, inst["fmt"], desig, str(e)[:160]),
                                     input=dict(kind="formats", inst=inst, N=N, seed=seed)))
                continue
            if out is None:
                continue
            count += 1
            if "error" in out:
                failures.append(dict(what="(%s, %s, %s): %s" % (fmt, inst["fmt"], desig, out["error"]), input=dict(kind="formats", inst=inst, N=N, seed=seed)))
                continue
            if ref is None:
                ref = (fmt, desig, out)
                continue
            bad = [k for k in ref[2] if out.get(k) != ref[2][k]]
            if bad:
                failures.append(dict(what="%s%s differs between presentations (%s, %s) and (%s, %s), value type %s" % (bad[0][0], bad[0][1:], ref[0], ref[1], fmt, desig, inst["fmt"]),
                                     input=dict(kind="formats", inst=inst, N=N, seed=seed), differing=len(bad)))
    return count, failures


def _oracle_task(task):
    import random
    inst, seed, N = task
    return compare_instance(inst, random.Random(seed), N, seed=seed)


def oracle_formats(ctx, ninst=None):
    n = ninst or ctx.n(15, 180)
    rng = ctx.rng
    failures, samples, nt = [], [], set()
    vts = ["sympy", "dense", "sparse"]
    tasks = []
    for k in range(n):
        # every 5th instance: symbolic with a non-polynomial analytic factor exp(x)*y / cos(x)*y
        if k % 5 == 4:
            inst = make_instance(rng, "sympy", k, small=True, analytic=True)
        else:
            inst = make_instance(rng, vts[k % 3], k // 3, small=(vts[k % 3] == "sympy"))  # dim <= 6 for sympy
        # exact symbolic evaluation is slow: total order 3 there (4 in thorough when dim <= 2 and <= 2 parameters), 4 (thorough) for the float types
        N = 3 if (ctx.quick or (inst["fmt"] == "sympy" and (len(inst["sub"]) > 2 or inst["nparam"] > 2))) else 4
        if ctx.quick and inst["fmt"] == "sympy" and len(inst["sub"]) >= 4:
            inst["reduced"] = True
        tasks.append((inst, rng.getrandbits(32), N))
        if max(inst["sub"]) >= 1:
            nt.add(core.canon(inst))
        if k < 3:
            samples.append(inst)
    import multiprocessing
    with multiprocessing.Pool(4 if ctx.quick else 16) as pool:   # exact symbolic runs dominate the wall time
        results = pool.map(_oracle_task, tasks, chunksize=1)
    evals = sum(c for c, _ in results)
    for _, fs in results:
        failures += fs
    return dict(evaluations=evals, nontrivial=len(nt), rule="distinct instances with >= 2 blocks, each run through all its presentations, all elements of H_tilde, U, U† up to total order 3 (quick, symbolic) / 4 (thorough, dense and sparse)",
                samples=samples, failures=failures)


def replay_formats(inp):
    import random
    seed = inp.get("seed") or 0
    cnt, fs = compare_instance(inp["inst"], random.Random(seed), inp.get("N", 3), seed=seed)
    for f in fs:
        print(f["what"])
    print("presentations run:", cnt, "failures:", len(fs))
    return 1 if fs else 0
