"""Correspondence harness: the Coq specification `np_index` (PySeries/Index.v) of NumPy basic +
advanced indexing versus the real NumPy, on generated shapes (<= 3 dimensions of size <= 4) and
index expressions of the documented subset (ints incl. negative, lists, forward slices, mixed,
fewer indices than dimensions) plus malformed ones (out of bounds, too many indices, lists that
do not broadcast, step 0).  Compared: result shape, the flat row-major list of selected source
positions, np.isscalar, and the exception class."""
import sys

from vlib import core

sys.path.insert(0, str(core.REPO))
import numpy as np  # noqa: E402

from .k_cauchydot import cz, cnat, clist  # noqa: E402

HEADER = (
    "Require Import List ZArith Bool Arith.\nImport ListNotations.\n"
    "Require Import PV.PySeries.Sentinel PV.PySeries.Cache PV.PySeries.Index PV.PySeries.GetItem PV.PySeries.HarnessLib.\n"
)


def copt(x):
    return "None" if x is None else "(Some %s)" % cz(x)


def cix(e):
    """e: int | list[int] | ['slice', start, stop, step]"""
    if isinstance(e, int):
        return "(IInt %s)" % cz(e)
    if isinstance(e, list) and e and e[0] == "slice":
        return "(ISlice %s %s %s)" % (copt(e[1]), copt(e[2]), copt(e[3]))
    return "(IList %s)" % clist(cz(x) for x in e)


def citem(item):
    return clist(cix(e) for e in item)


def py_item(item):
    out = []
    for e in item:
        if isinstance(e, list) and e and e[0] == "slice":
            out.append(slice(e[1], e[2], e[3]))
        else:
            out.append(e)
    return tuple(out)


def rand_index(rng, d, kind=None, wild=0.08):
    """one index for a dimension of extent d"""
    kind = kind or rng.choice(["int", "int", "list", "slice", "slice"])
    lo, hi = (-d - 1, d) if (rng.random() < wild or d == 0) else (-d, d - 1)
    if kind == "int":
        return rng.randint(lo, hi)
    if kind == "list":
        n = rng.choice([0, 1, 1, 2, 2, 3])
        if d == 0 and rng.random() > wild:
            return []
        return [rng.randint(lo, hi) for _ in range(n)]
    st = rng.choice([None, None, 0, 1, 2, -1, -2, d, d + 2, -d - 1])
    sp = rng.choice([None, None, 0, 1, 2, 3, -1, d, d + 1, -d - 2])
    step = rng.choice([None, None, 1, 1, 2, 3]) if rng.random() > 0.03 else 0
    return ["slice", st, sp, step]


def gen_multi_error_case(rng):
    """malformed items with SEVERAL independent error conditions (which one wins is part of the spec):
    zero slice step, out-of-range integer, out-of-range list entry, lists that do not broadcast, too
    many indices - in random positions"""
    nd = rng.choice([1, 2, 2, 3, 3, 3])
    shape = [rng.choice([1, 2, 3, 4]) for _ in range(nd)]
    ni = nd + 1 if rng.random() < 0.2 else nd
    item = []
    for k in range(ni):
        d = shape[k] if k < nd else 2
        r = rng.random()
        if r < 0.25:
            item.append(["slice", rng.choice([None, 0, 1, -1, d + 1]), rng.choice([None, 1, d, -1, -d - 2]), 0])  # zero step
        elif r < 0.45:
            item.append(rng.choice([d, d + 1, -d - 1, -d - 2]))  # integer out of range
        elif r < 0.65:
            item.append([rng.choice([d, -d - 1, d + 2]) if rng.random() < 0.7 else rng.randint(-d, d - 1) for _ in range(rng.choice([1, 2, 3]))])  # list out of range
        elif r < 0.8:
            item.append([rng.randint(-d, d - 1) for _ in range(rng.choice([2, 3, 4]))])  # valid list (broadcast mismatch with others likely)
        else:
            item.append(rand_index(rng, d, wild=0.0))
    return dict(shape=shape, item=item)


def gen_case(rng):
    if rng.random() < 0.2:
        return gen_multi_error_case(rng)
    nd = rng.choice([0, 1, 2, 2, 3, 3, 3])
    shape = [rng.choice([1, 2, 2, 3, 3, 4, 4, 0] if rng.random() < 0.3 else [1, 2, 3, 4]) for _ in range(nd)]
    r = rng.random()
    if r < 0.08:
        ni = nd + 1
    elif r < 0.3 and nd > 0:
        ni = rng.randint(0, nd - 1)
    else:
        ni = nd
    item = []
    # make lists of equal length most of the time so that broadcasting succeeds
    L = rng.choice([1, 2, 2, 3])
    for k in range(ni):
        d = shape[k] if k < nd else 2
        e = rand_index(rng, d)
        if isinstance(e, list) and (not e or e[0] != "slice") and rng.random() < 0.8:
            if d > 0:
                e = [rng.randint(-d, d - 1) for _ in range(L if rng.random() < 0.8 else 1)]
        item.append(e)
    return dict(shape=shape, item=item)


def run_numpy(case):
    shape = tuple(case["shape"])
    n = int(np.prod(shape)) if shape else 1
    arr = np.arange(n).reshape(shape)
    obj = np.zeros(shape, dtype=object)
    try:
        r = arr[py_item(case["item"])]
    except IndexError:
        return dict(err="EIndex")
    except ValueError:
        return dict(err="EValue")
    except TypeError:
        return dict(err="EType")
    scalar = bool(np.isscalar(obj[py_item(case["item"])]))
    r = np.asarray(r)
    flat = [int(x) for x in r.reshape(-1)]
    pos = [[int(y) for y in np.unravel_index(x, shape)] if shape else [] for x in flat]
    return dict(shape=[int(x) for x in r.shape], pos=pos, scalar=scalar)


def coq_terms(case, out):
    shape = clist(cnat(x) for x in case["shape"])
    item = citem(case["item"])
    if "err" in out:
        return ["check_np_index %s %s (IErr %s)" % (shape, item, out["err"])]
    exp = "(IOk (%s, %s))" % (clist(cnat(x) for x in out["shape"]), clist(clist(cnat(y) for y in p) for p in out["pos"]))
    return [
        "check_np_index %s %s %s" % (shape, item, exp),
        "check_np_scalar %s %s %s" % (shape, item, "true" if out["scalar"] else "false"),
    ]


def features(case, out):
    item = case["item"]
    nl = sum(1 for e in item if isinstance(e, list) and (not e or e[0] != "slice"))
    ns = sum(1 for e in item if isinstance(e, list) and e and e[0] == "slice")
    ni = sum(1 for e in item if isinstance(e, int))
    sep = False
    adv = [k for k, e in enumerate(item) if not (isinstance(e, list) and e and e[0] == "slice")]
    if nl and adv:
        sep = any(k not in adv for k in range(adv[0], adv[-1] + 1))
    return dict(lists=nl, slices=ns, ints=ni, separated=sep, err=out.get("err"))


def tie_npindex(ctx, ncases=None):
    n = ncases or ctx.n(150, 4000)
    rng = ctx.rng
    cases, outs, terms, owner = [], [], [], []
    dist = {"error": {}, "lists": {}, "separated_advanced": 0, "fewer_indices": 0}
    nontrivial = set()
    for _ in range(n):
        case = gen_case(rng)
        out = run_numpy(case)
        ts = coq_terms(case, out)
        for t in ts:
            terms.append(t)
            owner.append(len(cases))
        cases.append(case)
        outs.append(out)
        f = features(case, out)
        if f["err"]:
            dist["error"][f["err"]] = dist["error"].get(f["err"], 0) + 1
        dist["lists"][str(f["lists"])] = dist["lists"].get(str(f["lists"]), 0) + 1
        dist["separated_advanced"] += int(f["separated"] and not f["err"])
        dist["fewer_indices"] += int(len(case["item"]) < len(case["shape"]))
        if not f["err"] and (f["lists"] >= 1 or f["slices"] >= 1) and len(out["pos"]) >= 2:
            nontrivial.add(core.canon(case))
    bad = core.coq_eval_cases("k_npindex", HEADER, terms, shard=ctx.n(60, 300), jobs=ctx.n(8, 16))
    disagreements = []
    for i in sorted({owner[b] for b in bad}):
        disagreements.append(dict(what="np_index specification differs from NumPy", input=cases[i], impl=outs[i], model="coq term false"))
    return dict(
        cases=len(cases),
        nontrivial=len(nontrivial),
        rule="distinct successful index expressions with at least one list or slice selecting >= 2 elements",
        samples=[dict(case=c, numpy=o) for c, o in list(zip(cases, outs))[:3]],
        distribution=dist,
        disagreements=disagreements,
    )
