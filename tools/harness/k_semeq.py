"""Correspondence between the implementation and the whole-series semantics DSL/Sem.v.

For generated exact problems the real block_diagonalize is run, the values of EVERY named
series of the algorithm (inputs, intermediate series, declared products, outputs - reached
through H_tilde.eval.__globals__["series"]) are collected up to total order N and loaded as
tables into Coq, where Alg/SemExec.check_alg decides by vm_compute whether they satisfy every
equation of the semantics of the GENERATED program (Gen/Algorithms_gen.v).  A change of
series.py / algorithm_parsing.py / block_diagonalization.py that alters any computed value
makes an equation fail; a change of algorithms.py changes the equations together with the
values (and breaks the proofs instead).
"""
import random
import sys
from fractions import Fraction as Fr

from vlib import core
from harness import gq, gen, implrun

HEADER = """Require Import List ZArith QArith String.
From PV.DSL Require Import Syntax.
From PV.Gen Require Import Algorithms_gen.
From PV.Alg Require Import SemExec TruncTie TruncTieNH TruncTieTB.
Import ListNotations.
Open Scope string_scope.
"""


def cq(x):
    x = Fr(x)
    return "(%d#%d)" % (x.numerator, x.denominator)


def cg(z):
    return "(%s,%s)" % (cq(z.re), cq(z.im))


def cstr(s):
    return '"' + s.replace('"', '""') + '"'


def cmat(M):
    return "[" + ";".join("[" + ";".join(cg(x) for x in r) + "]" for r in M) + "]"


def cser(S):
    items = []
    for n, M in sorted(S.d.items()):
        if gq.is_zero(M):
            continue
        items.append("([%s]%%nat, %s)" % (";".join(str(x) for x in n), cmat(M)))
    return "[" + ";".join(items) + "]"


def wiring_tables(case):
    nb, sizes, perm, offs = implrun.layout(case)
    bl = [b for b in range(nb) for _ in range(sizes[b])]
    K = implrun.keep_mask(case)
    f = case["fully"]
    if f is None and nb == 1:
        f = [0]
    if isinstance(f, dict):
        cb = [str(b) not in f for b in range(nb)]
    else:
        cb = [True] * nb
    tb = (nb == 2 and not f)
    E = gq.dec(case["H"][gen.key((0,) * case["nparam"])])
    El = [E[p][p] for p in perm]
    return bl, K, cb, El, tb


def coq_term(case, series, alg):
    bl, K, cb, El, tb = wiring_tables(case)
    D = len(case["sub"])
    sols = "[" + ";".join("(%s, %s)" % (cstr(n), cser(S)) for n, S in sorted(series.items())) + "]"
    return ("(check_alg %d %d %d [%s]%%nat [%s] [%s] [%s]%%Q %s (%s)%%Q %s_alg)"
            % (D, case["nparam"], case["N"], ";".join(str(b) for b in bl),
               ";".join("[" + ";".join("true" if x else "false" for x in r) + "]" for r in K),
               ";".join("true" if x else "false" for x in cb),
               ";".join(cg(e) for e in El), "true" if tb else "false", sols, alg))


def coq_inputs_term(case, series):
    """inputs_ok of Alg/TruncTie.v: with check_alg = true it makes C01_tie_conclusions applicable to this case
    (general wiring, i.e. not the two-block optimisation); None when the theorem is not stated for the case."""
    bl, K, cb, El, tb = wiring_tables(case)
    D = len(case["sub"])
    sols = "[" + ";".join("(%s, %s)" % (cstr(n), cser(S)) for n, S in sorted(series.items())) + "]"
    if not case["hermitian"]:
        # non-Hermitian algorithm: side conditions of C05_tie_similarity_partial (any wiring flag)
        return ("(nh_inputs_ok %d %d %d [%s]%%nat [%s] [%s] [%s]%%Q (%s)%%Q)"
                % (D, case["nparam"], case["N"], ";".join(str(b) for b in bl),
                   ";".join("[" + ";".join("true" if x else "false" for x in r) + "]" for r in K),
                   ";".join("true" if x else "false" for x in cb),
                   ";".join(cg(e) for e in El), sols))
    if tb:
        # two-block optimisation: side conditions of C01_tie_conclusions_two_block
        tabs = (";".join(str(b) for b in bl), ";".join("[" + ";".join("true" if x else "false" for x in r) + "]" for r in K),
                ";".join("true" if x else "false" for x in cb))
        return ("(inputs_ok %d %d %d [%s]%%nat [%s] [%s] [%s]%%Q (%s)%%Q && tb_ok %d [%s]%%nat [%s] [%s])"
                % ((D, case["nparam"], case["N"]) + tabs + (";".join(cg(e) for e in El), sols, D) + tabs))
    return ("(inputs_ok %d %d %d [%s]%%nat [%s] [%s] [%s]%%Q (%s)%%Q)"
            % (D, case["nparam"], case["N"], ";".join(str(b) for b in bl),
               ";".join("[" + ";".join("true" if x else "false" for x in r) + "]" for r in K),
               ";".join("true" if x else "false" for x in cb),
               ";".join(cg(e) for e in El), sols))


def symmetric_masks(case):
    f = case["fully"]
    if not isinstance(f, dict):
        return True
    return all(m == [list(r) for r in zip(*m)] for m in f.values())


def collect(case):
    res = implrun.run(case, want_internal=True)
    series = dict(res["out"])
    series["H"] = res["H"]
    return series


def tie_semeq(ctx, hermitian=True, ncases=None, N=None):
    n = ncases or ctx.n(14, 160)
    N = N or ctx.n(2, 3)
    alg = "main" if hermitian else "nonhermitian"
    ok, log = core.coq_build(["theories/Alg/SemExec.vo"])
    if not ok:
        return dict(cases=0, nontrivial=0, rule="k_semeq", samples=[], disagreements=[dict(what="Alg/SemExec.v does not build: " + log[-600:])])
    cases, terms, dis, sigs = [], [], [], {}
    iterms, iidx = [], []
    tries = 0
    while len(cases) < n and tries < 20 * n:
        tries += 1
        c = gen.random_case(ctx.rng, hermitian=hermitian, N=N, max_blocks=3, max_size=2, max_params=2)
        if len(c["sub"]) > 5 or not symmetric_masks(c):
            continue
        try:
            series = collect(c)
        except Exception as e:
            dis.append(dict(what="implementation raised %s: %s" % (type(e).__name__, str(e)[:200]), input=c))
            continue
        cases.append(c)
        terms.append(coq_term(c, series, alg))
        it = coq_inputs_term(c, series)
        if it is not None:
            iterms.append(it)
            iidx.append(len(cases) - 1)
        s = gen.case_signature(c)
        sigs[str(s)] = sigs.get(str(s), 0) + 1
    bad = core.coq_eval_cases("semeq_%s" % alg, HEADER, terms, shard=max(1, len(terms) // 14 + 1), timeout=1500, jobs=14)
    for i in bad:
        dis.append(dict(what="the implementation's series values do not satisfy the semantics of %s_alg (DSL/Sem.v) up to order %d" % (alg, N), input=cases[i]))
    applies = None
    if iterms:
        # side conditions of Props/C01.v C01_tie_conclusions: where they hold (and check_alg holds), the conclusions of
        # C01/C02/C03 up to order N are THEOREMS about the loaded tables; a case where they fail is outside the theorem
        # (not a disagreement), it is only counted
        ibad = set(core.coq_eval_cases("semeq_inputs", HEADER, iterms, shard=max(1, len(iterms) // 14 + 1), timeout=1500, jobs=14))
        badset = set(bad)
        applies = sum(1 for j, ci in enumerate(iidx) if j not in ibad and ci not in badset)
        if hermitian:
            sigs["C01_tie_conclusions(_two_block) applies (check_alg && inputs_ok [&& tb_ok])"] = "%d of %d cases" % (applies, len(iterms))
        else:
            sigs["C05_tie_conclusions applies (check_alg)"] = "%d of %d cases" % (len(cases) - len(badset), len(cases))
            sigs["C05_tie_similarity_partial applies (check_alg && nh_inputs_ok: kept pairs have equal energies)"] = "%d of %d cases" % (applies, len(iterms))
    return dict(cases=len(cases), nontrivial=len({gq_canon(c) for c in cases if len(c["sub"]) >= 2}),
                rule="random exact problems (dim<=5, blocks<=3, params<=2, order<=%d), ALL named series of %s_alg loaded into Coq and checked against every equation of Sem by vm_compute; non-trivial = distinct with dim>=2" % (N, alg),
                samples=[gen.case_signature(c) for c in cases[:3]], distribution=sigs, disagreements=dis)


def gq_canon(c):
    import json
    return json.dumps(c, sort_keys=True)
