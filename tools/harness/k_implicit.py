"""C06: implicit mode (incomplete subspace_eigenvectors) versus the explicit computation with a
complete eigenbasis on the same Hamiltonian.

compare(problem) runs block_diagonalize twice and checks, for all orders up to N,
  * H_tilde, U, U_inv on explicit-explicit blocks: equal,
  * blocks (i, B), (B, i), (B, B) involving the implicit subspace B: the implicit result
    (arrays of shape (k_i, n) / (n, k_i), LinearOperators applied to the identity for (B, B))
    equals the explicit block embedded with the complementary eigenvectors:
    X_iB L_B^H,  R_B X_Bi,  R_B X_BB L_B^H  (L_B = R_B for Hermitian problems).
tie_implicit   : exactly representable instances (dyadic unitary bases / Gaussian-integer
                 unimodular R with L = (R^-1)^H, integer levels with unit gaps), tolerance
                 1e-9 * scale (the path goes through SuperLU).
oracle_implicit: random float instances, direct solver; plus the KPM solver (Hermitian) within
                 a tolerance proportional to the solver's atol.
"""
import random
import sys
import warnings

import numpy as np

from vlib import core

sys.path.insert(0, str(core.REPO))
import scipy.sparse as sp  # noqa: E402
from scipy.sparse.linalg import LinearOperator  # noqa: E402
from pymablock import block_diagonalize  # noqa: E402
from pymablock.series import one, zero  # noqa: E402

from harness.k_projector import unimodular, rand_g  # noqa: E402
from harness.k_greens import dyadic_unitary  # noqa: E402


def make_problem(seed, exact, nmax, N, kpm=False):
    rng = random.Random(seed)
    rs = np.random.default_rng(seed)
    hermitian = True if kpm else rng.random() < 0.55
    cplx = rng.random() < 0.5
    nb = rng.randint(1, 3)
    sizes = [rng.randint(1, 3 if rng.random() < 0.3 else 2) for _ in range(nb)]
    # non-Hermitian extras: a REAL non-symmetric H_0 whose first two explicit eigenvalues are a complex-conjugate
    # pair a +- ib (eigenvectors complex, H_0 real dtype), or generic complex levels for complex H_0
    real_pair = (not hermitian) and (not kpm) and rng.random() < 0.35
    if real_pair:
        cplx = False
        if sum(sizes) < 2:
            sizes, nb = [2], 1
    cplx_levels = (not hermitian) and cplx and (not kpm) and rng.random() < 0.5
    lo = max(sum(sizes) + 1, 3 if kpm else 0)  # ARPACK (rescale -> eigsh, k=1) needs a sparse matrix of size >= 3
    n = rng.randint(lo, max(lo, nmax))
    nexp = sum(sizes)
    # bases
    if exact:
        if hermitian:
            R = dyadic_unitary(rng, n, cplx)
            Ri = R.conj().T
        else:
            R, Ri = unimodular(rng, n, cplx, bound=3)
    else:
        if hermitian:
            a = rs.standard_normal((n, n)) + (1j * rs.standard_normal((n, n)) if cplx else 0)
            R = np.linalg.qr(a)[0]
            Ri = R.conj().T
        else:
            R = np.eye(n) + 0.35 * (rs.standard_normal((n, n)) + (1j * rs.standard_normal((n, n)) if cplx else 0))
            while np.linalg.cond(R) > 30:  # keep the eigenproblem well conditioned (tolerances assume it)
                R = np.eye(n) + 0.2 * (rs.standard_normal((n, n)) + (1j * rs.standard_normal((n, n)) if cplx else 0))
            Ri = np.linalg.inv(R)
    # levels: explicit blocks around distinct integers, degenerate inside a block with prob 1/2; implicit levels beyond
    bases = rng.sample([-3, -1, 1, 3], nb)
    levels = []
    for s, b in zip(sizes, bases):
        if rng.random() < 0.4 or s == 1:
            lv = [float(b)] * s
        elif s == 3 and rng.random() < 0.6:
            lv = [float(b), float(b) + 0.5, float(b)]        # a degenerate level interleaved with another level
        else:
            lv = [float(b) + 0.5 * j for j in range(s)]
            if rng.random() < 0.6:
                lv.reverse()                                   # levels inside a block need not be ascending
        levels += lv
    rest = [6.0 + 1.0 * j for j in range(n - nexp)]
    if rng.random() < 0.3 and len(rest) > 1:
        rest[1] = rest[0]  # degenerate implicit levels are fine
    if cplx_levels:
        im = {}
        levels = [lv + 1j * im.setdefault(lv, rng.choice([-1.0, -0.5, 0.5, 1.0, 2.0])) for lv in levels]
        rest = [lv + 1j * rng.choice([-1.0, 0.0, 0.5, 1.0]) for lv in rest]
    D = np.array(levels + rest)
    if real_pair:
        a, b = levels[0], float(rng.choice([1, 2]))
        levels[0], levels[1] = a + 1j * b, a - 1j * b
        D = np.array(levels + rest, dtype=complex)
        # [[a,-b],[b,a]] has eigenvectors (1,-i) <-> a+ib and (1,i) <-> a-ib
        V = np.eye(n, dtype=complex)
        V[:2, :2] = [[1, 1], [-1j, 1j]]
        Vi = np.eye(n, dtype=complex)
        Vi[:2, :2] = [[0.5, 0.5j], [0.5, -0.5j]]
        R, Ri = R @ V, Vi @ Ri
    h0 = R @ np.diag(D) @ Ri
    if real_pair:
        assert np.abs(h0.imag).max() < 1e-9 * (1 + np.abs(h0).max())
        h0 = h0.real

    def pert():
        if exact:
            a = rand_g(rng, (n, n), cplx, -2, 2, density=0.6)
        else:
            a = rs.standard_normal((n, n)) + (1j * rs.standard_normal((n, n)) if cplx else 0)
        return (a + a.conj().T) / 2 if hermitian else a

    hs = [pert() for _ in range(1 if rng.random() < 0.75 else 2)]
    if real_pair:
        hs = [h.real for h in hs]
    elif not (cplx or np.any(np.iscomplex(h0))):
        h0 = h0.real
        hs = [h.real for h in hs]
        R, Ri = R.real, Ri.real
    fully = ()
    if rng.random() < 0.35:
        fully = tuple(sorted(rng.sample(range(nb), rng.randint(1, nb))))
    kpm_opts = None
    if kpm:
        # explicit solver options of the KPM clause: a share of the cases passes exact eigenvectors of
        # the implicit part as `auxiliary_vectors` (they must not change the result), optionally
        # together with `max_moments` (large enough not to bind) and `eps`; one case in six relies on
        # the default accuracy (no "atol" key)
        nB = n - nexp
        naux = 0 if rng.random() < 0.3 else rng.randint(1, nB)
        kpm_opts = dict(aux_idx=sorted(rng.sample(range(nB), naux)),
                        atol=None if rng.random() < 0.17 else 1e-4,
                        max_moments=rng.choice([None, None, 200000, 1e6]),
                        eps=rng.choice([None, None, 0.01, 0.05]))
    return dict(seed=seed, exact=exact, hermitian=hermitian, cplx=cplx, n=n, sizes=sizes, levels=levels, h0=h0, hs=hs,
                R=R, Ri=Ri, N=N, fully=fully, kpm=kpm, kpm_opts=kpm_opts, real_pair=real_pair, cplx_levels=cplx_levels)


def dense(x, n_in=None):
    if x is zero or x is one:
        return x
    if isinstance(x, LinearOperator):
        return x @ np.eye(x.shape[1])
    if sp.issparse(x):
        return x.toarray()
    return np.asarray(x)


def orders(nparam, N):
    if nparam == 1:
        return [(k,) for k in range(N + 1)]
    return [(a, b) for a in range(N + 1) for b in range(N + 1 - a)]


def compare(p, tol_rel, kpm_atol=None):
    """Returns (list of failure strings, number of compared non-sentinel blocks)."""
    n, sizes, R, Ri = p["n"], p["sizes"], p["R"], p["Ri"]
    nb, nexp = len(sizes), sum(sizes)
    offs = np.cumsum([0] + sizes)
    rights = [R[:, offs[i]:offs[i + 1]] for i in range(nb)]
    lefts = [Ri[offs[i]:offs[i + 1], :].conj().T for i in range(nb)]
    RB, LB = R[:, nexp:], Ri[nexp:, :].conj().T
    herm = p["hermitian"]
    expl = [r if herm else (r, l) for r, l in zip(rights, lefts)]
    complete = expl + [RB if herm else (RB, LB)]
    H = [p["h0"]] + p["hs"]
    if len(p["hs"]) == 2:  # two parameters
        H = {(0, 0): p["h0"], (1, 0): p["hs"][0], (0, 1): p["hs"][1]}
        Hs = {k: sp.csr_array(v) for k, v in H.items()}
        if p["kpm"] and p["seed"] % 2:
            Hs = dict(H)   # KPM also accepts dense (non-diagonal, possibly complex) arrays
        nparam = 2
    else:
        Hs = [sp.csr_array(h) for h in H]
        if p["kpm"] and p["seed"] % 2:
            Hs = list(H)   # KPM also accepts dense (non-diagonal, possibly complex) arrays
        nparam = 1
    kw = dict(hermitian=herm)
    if p["fully"]:
        kw["fully_diagonalize"] = p["fully"]
    fails, compared = [], 0
    solver_options = None
    if p["kpm"]:
        o = p.get("kpm_opts") or dict(aux_idx=[], atol=kpm_atol, max_moments=None, eps=None)
        solver_options = {}
        if o["atol"] is not None:
            solver_options["atol"] = o["atol"]
        if o["aux_idx"]:
            solver_options["auxiliary_vectors"] = np.ascontiguousarray(RB[:, o["aux_idx"]])
        if o["max_moments"] is not None:
            solver_options["max_moments"] = o["max_moments"]
        if o["eps"] is not None:
            solver_options["eps"] = o["eps"]
    with warnings.catch_warnings(record=True) as wlog:
        warnings.simplefilter("always")
        try:
            full = block_diagonalize(H, subspace_eigenvectors=complete, **kw)
        except Exception as e:
            return ["explicit computation raised %s: %s" % (type(e).__name__, e)], 0
        try:
            if p["kpm"]:
                impl = block_diagonalize(Hs, subspace_eigenvectors=expl, direct_solver=False, solver_options=solver_options, **kw)
            else:
                impl = block_diagonalize(Hs, subspace_eigenvectors=expl, **kw)
        except Exception as e:
            return ["implicit computation raised %s: %s" % (type(e).__name__, e)], 0
        scale = 1 + max(np.abs(h).max() for h in ([p["h0"]] + p["hs"]))
        for name, sf, si in zip(("H_tilde", "U", "U_inv"), full, impl):
            for od in orders(nparam, p["N"]):
                total = sum(od)
                for i in range(nb + 1):
                    for j in range(nb + 1):
                        try:
                            a = sf[(i, j) + od]
                            b = si[(i, j) + od]
                        except Exception as e:
                            fails.append("%s[%d,%d,%s] raised %s: %s" % (name, i, j, od, type(e).__name__, e))
                            continue
                        a, b = dense(a), dense(b)
                        # embed the explicit block
                        if a is zero or a is one:
                            if i == j == nb and a is one and b is not one and b is not zero:
                                emb = RB @ LB.conj().T
                            elif a is zero:
                                emb = None
                            else:
                                emb = "one"
                        else:
                            emb = a
                            if i == nb:
                                emb = RB @ emb
                            if j == nb:
                                emb = emb @ LB.conj().T
                        if emb is None:
                            ok = b is zero or (not isinstance(b, str) and b is not one and np.abs(b).max(initial=0) <= tol_rel * scale ** (total + 1))
                            if not ok:
                                fails.append("%s[%d,%d,%s]: explicit result is zero, implicit is not" % (name, i, j, od))
                            continue
                        if isinstance(emb, str):
                            if b is not one and not (not (b is zero) and np.allclose(b, np.eye(b.shape[0]), atol=tol_rel)):
                                fails.append("%s[%d,%d,%s]: explicit result is the identity sentinel, implicit is not" % (name, i, j, od))
                            continue
                        if b is zero:
                            if np.abs(emb).max(initial=0) > tol_rel * scale ** (total + 1) * 10:
                                fails.append("%s[%d,%d,%s]: implicit result is zero, explicit has norm %.3g" % (name, i, j, od, np.abs(emb).max()))
                            continue
                        if b is one:
                            b = np.eye(emb.shape[0])
                        compared += 1
                        if b.shape != emb.shape:
                            fails.append("%s[%d,%d,%s]: shapes %s vs embedded explicit %s" % (name, i, j, od, b.shape, emb.shape))
                            continue
                        err = np.abs(b - emb).max(initial=0)
                        bound = tol_rel * (1 + np.abs(emb).max(initial=0)) * scale ** total * (1 + np.linalg.cond(R))
                        if not err <= bound:
                            fails.append("%s[%d,%d,%s]: implicit differs from the embedded explicit result by %.3g (bound %.3g)" % (name, i, j, od, err, bound))
    if p["kpm"] and any(issubclass(w.category, RuntimeWarning) and "did not converge" in str(w.message) for w in wlog):
        # the KPM clause promises the accuracy only when no convergence warning was emitted ...
        excused = True
        if p["seed"] % 2 and fails:
            # ... but the same problem given as SPARSE arrays must then fail to converge as well: a dense presentation
            # that does not converge while the sparse one does is a defect of the dense path, not a hard problem
            Hsp = {k: sp.csr_array(v) for k, v in H.items()} if isinstance(H, dict) else [sp.csr_array(h) for h in H]
            with warnings.catch_warnings(record=True) as wlog2:
                warnings.simplefilter("always")
                try:
                    s2 = block_diagonalize(Hsp, subspace_eigenvectors=expl, direct_solver=False, solver_options=solver_options, **kw)
                    for od in orders(nparam, p["N"]):
                        for i in range(nb + 1):
                            for j in range(nb + 1):
                                for ser in s2:
                                    dense(ser[(i, j) + od])
                except Exception:
                    pass
            if not any(issubclass(w.category, RuntimeWarning) and "did not converge" in str(w.message) for w in wlog2):
                excused = False
                fails = ["KPM given dense arrays does not converge although the same problem given as sparse arrays does; " + f for f in fails]
        if excused:
            fails = [f for f in fails if " raised " in f]
    return fails, compared


def _run(ctx, exact, ncases, kpm_cases, as_tie):
    rng = ctx.rng
    fails, feats, samples, total, d13, nkpm_aux = [], set(), [], 0, 0, 0
    N = ctx.n(3, 4)
    for c in range(ncases + kpm_cases):
        kpm = c >= ncases
        seed = rng.randrange(2**31)
        p = make_problem(seed, exact, ctx.n(6, 9) if not kpm else 7, N if not kpm else 2, kpm=kpm)
        atol = 1e-4
        fs, cmpd = compare(p, 1e-9 if not kpm else 3 * atol, kpm_atol=atol)
        total += cmpd
        ko = p["kpm_opts"] or {}
        feats.add((p["hermitian"], p["cplx"], tuple(p["sizes"]), len(p["hs"]), bool(p["fully"]), len(set(p["levels"])) < len(p["levels"]), kpm, p["real_pair"], p["cplx_levels"],
                   len(ko.get("aux_idx", ())) > 0, ko.get("max_moments") is not None, ko.get("eps") is not None, kpm and ko.get("atol") is None))
        if kpm:
            nkpm_aux += len(ko.get("aux_idx", ())) > 0
        desc = dict(seed=seed, exact=exact, nmax=ctx.n(6, 9) if not kpm else 7, N=p["N"], kpm=kpm)
        if c < 2:
            samples.append(dict(desc, hermitian=p["hermitian"], complex=p["cplx"], n=p["n"], sizes=p["sizes"], levels=[str(x) for x in p["levels"]], fully=list(p["fully"]), real_pair=p["real_pair"], complex_levels=p["cplx_levels"]))
        if any("raised IndexError" in f for f in fs) and not p["hermitian"] and p["fully"]:
            # known finding C06-nh-implicit-fully-diagonalize (non-Hermitian implicit mode + fully_diagonalize): keep one representative
            d13 += 1
            fs = [f for f in fs if "raised IndexError" in f][:1] if d13 == 1 else []
        for f in fs[:2]:
            if as_tie:
                fails.append(dict(what=f, input=dict(oracle="implicit", **desc), model="explicit computation embedded by the complementary eigenvectors (C06_embedding)", impl="implicit mode"))
            else:
                fails.append(dict(what=f, input=dict(oracle="implicit", **desc)))
        if len(fails) >= 10:
            break
    rule = "distinct (hermitian, complex, explicit block sizes, #parameters, fully_diagonalize?, degenerate explicit levels, KPM?, real H_0 with complex-conjugate explicit pair?, complex levels?, auxiliary_vectors?, max_moments?, eps?, default atol?)"
    if as_tie:
        return dict(cases=ncases + kpm_cases, nontrivial=len(feats), rule=rule, samples=samples,
                    distribution=dict(compared_blocks=total, kpm_cases=kpm_cases, kpm_with_auxiliary_vectors=nkpm_aux), disagreements=fails)
    return dict(evaluations=ncases + kpm_cases, nontrivial=len(feats), rule=rule, samples=samples, failures=fails)


def tie_implicit(ctx, ncases=None):
    return _run(ctx, True, ncases or ctx.n(25, 400), ctx.n(6, 40), True)


def oracle_implicit(ctx, ncases=None):
    r = _run(ctx, False, ncases or ctx.n(25, 400), ctx.n(8, 60), False)
    # the witness of the known finding is always evaluated
    e, inside = witness_known()
    r["evaluations"] += 1
    if e is not None:
        r["failures"].insert(0, dict(what="U[1,1,(3,)] raised %s: %s (witness of the known finding; inside the implicit diagonal solve: %s)" % (type(e).__name__, e, inside),
                                     input=dict(oracle="implicit_witness")))
    return r


KNOWN_ID = "C06-nh-implicit-fully-diagonalize"


def witness_known():
    """The minimal witness of the known finding: non-Hermitian implicit mode (direct solver) with
    fully_diagonalize on the explicit block; U[B,B,3] asks solve_sylvester_direct for the
    implicit-implicit diagonal block and raises IndexError.  Returns (exception or None, frame info)."""
    h0 = np.diag([0.0, 2.0, 3.0])
    h1 = np.array([[1.0, 2, 0], [1, 0, 1], [2, 1, 1]])
    e0 = np.eye(3)[:, :1]
    with warnings.catch_warnings():
        warnings.simplefilter("ignore")
        Ht, U, Ui = block_diagonalize([sp.csr_array(h0), sp.csr_array(h1)], subspace_eigenvectors=[(e0, e0)], hermitian=False, fully_diagonalize=(0,))
        try:
            U[1, 1, 3]
        except Exception as e:  # noqa: BLE001
            return e, _implicit_diagonal_solve(e, 1)
    return None, False


def _implicit_diagonal_solve(exc, nb):
    """True iff the exception was raised inside solve_sylvester_direct's solve_sylvester called
    with index[0] == index[1] == number of explicit blocks."""
    tb = exc.__traceback__
    hit = False
    while tb is not None:
        fr = tb.tb_frame
        if fr.f_code.co_name == "solve_sylvester" and fr.f_code.co_filename.endswith("block_diagonalization.py") and "greens_functions_left" in fr.f_code.co_freevars:
            idx = fr.f_locals.get("index")
            if idx is not None and len(idx) >= 2 and idx[0] == nb and idx[1] == nb:
                hit = True
        tb = tb.tb_next
    return hit


def _rerun_implicit_exception(p):
    """Re-run the implicit computation of problem p and return the first exception of a block access."""
    n, sizes, R, Ri = p["n"], p["sizes"], p["R"], p["Ri"]
    nb = len(sizes)
    offs = np.cumsum([0] + sizes)
    expl = [(R[:, offs[i]:offs[i + 1]], Ri[offs[i]:offs[i + 1], :].conj().T) for i in range(nb)]
    H = [p["h0"]] + p["hs"]
    Hs = {(0, 0): sp.csr_array(H[0]), (1, 0): sp.csr_array(H[1]), (0, 1): sp.csr_array(H[2])} if len(H) == 3 else [sp.csr_array(h) for h in H]
    with warnings.catch_warnings():
        warnings.simplefilter("ignore")
        impl = block_diagonalize(Hs, subspace_eigenvectors=expl, hermitian=False, fully_diagonalize=p["fully"])
        for s in impl:
            for od in orders(len(H) - 1, p["N"]):
                try:
                    s[(nb, nb) + od]
                except Exception as e:  # noqa: BLE001
                    return e, nb
    return None, nb


def classify_known(failure):
    """Known-finding classification.  Returns KNOWN_ID only for: hermitian=False, implicit mode with
    the direct solver, fully_diagonalize non-empty, and an IndexError raised inside
    solve_sylvester_direct for index[0] == index[1] == number of explicit blocks."""
    inp = failure.get("input") or {}
    if "raised IndexError" not in str(failure.get("what")):
        return None
    if inp.get("oracle") == "implicit_witness":
        e, inside = witness_known()
        return KNOWN_ID if isinstance(e, IndexError) and inside else None
    if inp.get("oracle") != "implicit" or inp.get("kpm"):
        return None
    p = make_problem(inp["seed"], inp["exact"], inp["nmax"], inp["N"], kpm=False)
    if p["hermitian"] or not p["fully"]:
        return None
    e, nb = _rerun_implicit_exception(p)
    return KNOWN_ID if isinstance(e, IndexError) and _implicit_diagonal_solve(e, nb) else None


def replay(inp):
    if inp.get("oracle") == "implicit_witness":
        e, inside = witness_known()
        print("  witness:", "no exception" if e is None else "%s: %s" % (type(e).__name__, e))
        return 1 if e is not None else 0
    p = make_problem(inp["seed"], inp["exact"], inp["nmax"], inp["N"], kpm=inp.get("kpm", False))
    fs, _ = compare(p, 1e-9 if not p["kpm"] else 3e-4, kpm_atol=1e-4)
    for f in fs:
        print("  still failing:", f)
    return 1 if fs else 0
