"""Run pymablock.block_diagonalize on a generated case and return exact dense results.

Everything returned is in the *block-ordered* basis (states of block 0 first, ...).
"""
import sys, warnings, itertools
from fractions import Fraction as Fr
from vlib import core
sys.path.insert(0, str(core.REPO))
import numpy as np  # noqa: E402
import sympy  # noqa: E402
import scipy.sparse as sp  # noqa: E402
from . import gq, gen  # noqa: E402
from .gq import G  # noqa: E402


def to_sympy(M):
    return sympy.Matrix([[sympy.Rational(x.re.numerator, x.re.denominator) + sympy.I * sympy.Rational(x.im.numerator, x.im.denominator) for x in r] for r in M])


def to_numpy(M, real_if_possible=True):
    if real_if_possible and all(x.im == 0 for r in M for x in r):
        return np.array([[float(x.re) for x in r] for r in M], dtype=float)
    return np.array([[complex(float(x.re), float(x.im)) for x in r] for r in M], dtype=complex)


def from_value(v, shp):
    """library value -> exact gq matrix. Floats are converted exactly."""
    from pymablock.series import zero, one
    if v is zero:
        return gq.zeros(*shp)
    if v is one:
        assert shp[0] == shp[1]
        return gq.eye(shp[0])
    if isinstance(v, sympy.MatrixBase):
        out = []
        for i in range(v.shape[0]):
            row = []
            for j in range(v.shape[1]):
                e = sympy.expand(v[i, j])
                re, im = e.as_real_imag()
                if not (re.is_Rational and im.is_Rational):
                    raise TypeError('non-rational symbolic value %s' % e)
                row.append(G(Fr(int(re.p), int(re.q)), Fr(int(im.p), int(im.q))))
            out.append(row)
        return out
    if sp.issparse(v):
        v = v.toarray()
    v = np.asarray(v)
    if v.ndim != 2:
        raise TypeError("unexpected value %r" % (v,))
    if not np.all(np.isfinite(v)):
        raise FloatingPointError("non-finite value")
    return [[G(Fr(float(np.real(x))), Fr(float(np.imag(x)))) for x in r] for r in v]


def build_input(case):
    fmt = case["fmt"]
    H = {}
    for k, M in case["H"].items():
        M = gq.dec(M)
        n = gen.unkey(k)
        if fmt == "sympy":
            H[n] = to_sympy(M)
        elif fmt == "dense":
            H[n] = to_numpy(M)
        elif fmt == "sparse":
            H[n] = sp.csr_array(to_numpy(M))
        else:
            raise ValueError(fmt)
    return H


def build_fully(case, bare_ok=False):
    f = case["fully"]
    if f is None:
        return ()
    if isinstance(f, list):
        if len(f) > 1 and (len(case["sub"]) + case["nparam"]) % 2 == 1:
            return tuple(reversed(f))   # the order in which the caller lists the blocks must not matter
        return tuple(f)
    if bare_ok and set(f) == {"0"} and max(case["sub"]) == 0 and (len(case["sub"]) + case["nparam"]) % 2 == 0:
        # single block: the mask may be given bare (the library wraps it as {0: mask}); half of such cases
        return np.array(f["0"], dtype=bool)
    return {int(k): np.array(m, dtype=bool) for k, m in f.items()}


def layout(case):
    sub = case["sub"]
    nb = max(sub) + 1
    sizes = [sum(1 for s in sub if s == b) for b in range(nb)]
    perm = [k for b in range(nb) for k in range(len(sub)) if sub[k] == b]
    offs = [sum(sizes[:b]) for b in range(nb)]
    return nb, sizes, perm, offs


def permuted(M, perm):
    return [[M[i][j] for j in perm] for i in perm]


def run(case, names=("H_tilde", "U", "U†"), extra_kwargs=None, want_internal=False):
    """Returns dict(out={name: Series}, H=Series (block-ordered basis), layout, internal=...)."""
    from pymablock import block_diagonalize
    nb, sizes, perm, offs = layout(case)
    H = build_input(case)
    kw = dict(subspace_indices=case["sub"], fully_diagonalize=build_fully(case, bare_ok=True), hermitian=case["hermitian"])
    if case.get("atol") is not None:
        kw["atol"] = case["atol"]
    kw.update(extra_kwargs or {})
    Hin = dict(H)
    one_subs = None
    if case.get("present") == "expr" and case["fmt"] == "sympy":
        # one sympy Matrix that depends polynomially on the perturbative symbols (the library Taylor-expands it);
        # the symbol names are in reverse alphabetical order, the order of the parameters is the order of the list
        syms = [sympy.Symbol(chr(ord("z") - i) + "_p", real=True) for i in range(case["nparam"])]
        Hin = sympy.zeros(len(case["sub"]), len(case["sub"]))
        for n, M in H.items():
            Hin = Hin + M * sympy.Mul(*[x ** e for x, e in zip(syms, n)])
        if all(x in Hin.free_symbols for x in syms):
            kw["symbols"] = syms
            one_subs = {x: 1 for x in syms}
        else:
            # a parameter that does not occur in the expression is (legitimately) rejected by the library: present the terms as a dict
            Hin = dict(H)
    with warnings.catch_warnings():
        warnings.simplefilter("ignore")
        res = block_diagonalize(Hin, **kw)
        dim = len(case["sub"])
        nparam = case["nparam"]
        out = {}
        series_objs = dict(zip(("H_tilde", "U", "U†"), res))
        if want_internal:
            series_objs.update({k: v for k, v in res[0].eval.__globals__["series"].items() if k not in series_objs})
        for name in (names if not want_internal else list(series_objs)):
            S = series_objs[name]
            ser = gq.Series(dim, nparam)
            for n in gq.orders_upto(nparam, case["N"]):
                M = gq.zeros(dim)
                nz = False
                for i in range(nb):
                    for j in range(nb):
                        v = S[(i, j) + tuple(n)]
                        if one_subs and isinstance(v, sympy.MatrixBase):
                            v = v.subs(one_subs)   # Taylor-path values carry their monomial: coefficient * x**n
                        B = from_value(v, (sizes[i], sizes[j]))
                        for a in range(sizes[i]):
                            for b in range(sizes[j]):
                                if not B[a][b].is_zero():
                                    nz = True
                                M[offs[i] + a][offs[j] + b] = B[a][b]
                if nz:
                    ser.d[tuple(n)] = M
            out[name] = ser
    Hs = gq.Series(dim, nparam, {gen.unkey(k): permuted(gq.dec(M), perm) for k, M in case["H"].items()})
    return dict(out=out, H=Hs, layout=(nb, sizes, perm, offs))


def keep_mask(case):
    """0/1 matrix (block-ordered basis) of the matrix elements that are KEPT (S); the rest is eliminated."""
    nb, sizes, perm, offs = layout(case)
    dim = len(case["sub"])
    E = gq.dec(case["H"][gen.key((0,) * case["nparam"])])
    Ed = [E[p][p] for p in perm]
    f = case["fully"]
    if f is None and nb == 1:
        f = [0]
    K = [[0] * dim for _ in range(dim)]
    for b in range(nb):
        idx = range(offs[b], offs[b] + sizes[b])
        for i in idx:
            for j in idx:
                if f is None or (isinstance(f, list) and b not in f) or (isinstance(f, dict) and str(b) not in f):
                    K[i][j] = 1
                elif isinstance(f, list):
                    K[i][j] = 1 if Ed[i] == Ed[j] else 0
                else:
                    K[i][j] = 0 if f[str(b)][i - offs[b]][j - offs[b]] else 1
    return K
