"""Correspondence harness + implementation oracle for C12 (lazy and causal evaluation).

Model level (tie_calllog): series_computation on the shipped algorithms and generated programs
with a call log in the eval of every input series; after a random schedule the multiset of
evaluated input elements must equal the model's event log (DSL/Exec.v); on the
implementation each request may touch only orders <= the requested multi-order and no
element is evaluated twice.

Implementation level (oracle_calllog_bd): block_diagonalize on a lazily defined Hamiltonian
BlockSeries (1-3 parameters, terms at arbitrary orders, a raising term outside the cone):
the definition may touch only zeroth-order elements, each request only the cone, every
element at most once, and perturbing terms outside the cone must not change the value.
"""
import itertools
import sys

from vlib import core

sys.path.insert(0, str(core.REPO))
from harness import k_seriescomp as KS  # noqa: E402
from harness import proggen as PG  # noqa: E402

HEADER = KS.HEADER


def leq(m, n):
    return all(a <= b for a, b in zip(m, n))


def tie_calllog(ctx):
    rng = ctx.rng
    ship = KS.shipped_programs()
    cases = []
    for k in range(ctx.n(10, 150)):
        p = ship[k % 2]
        cases.append((p, p["fn"], KS.shipped_world(rng, p["name"], max_order=3)))
    for k in range(ctx.n(50, 900)):
        p = PG.random_program(rng, idx=30000 + k)
        cases.append((p, PG.load_function(p), KS.random_world(rng, p, max_order=3)))
    terms, owners, failures = [], [], []
    nontrivial = 0
    dist = {}
    for p, fn, w in cases:
        log = []
        if p.get("shipped"):
            w["extra_scope"] = KS.shipped_scope(w)
            w["extra_scope"]["solve_sylvester"] = PG.scope_functions()["f_lmul"]
        series, lin, inputs = KS.build(p, fn, w, eval_hook=lambda x, idx: log.append((x, idx)))
        del log[:]  # definition-time evaluations (zeroth order of the inputs) are the model's initial state
        names = sorted(series.keys())
        mt = 3 if w["np"] == 1 else 2
        sched = KS.random_schedule(rng, names, w["nb"], w["np"], mt, ctx.n(6, 10))
        inp = dict(source=p["source"], shipped=p["name"] if p.get("shipped") else None, world=PG.world_to_json(w),
                   schedule=[[r[0], r[1], list(r[2])] for r in sched])
        for r in sched:
            before = len(log)
            KS.observe(series, r)
            for (x, idx) in log[before:]:
                if not leq(idx[2:], r[2][2:]):
                    failures.append(dict(what="request %s%s evaluated the input element %s%s outside the cone" % (r[1], list(r[2]), x, list(idx)), input=inp))
        model_log = list(log)
        if w["np"] >= 2:
            # implementation only (the model has no list indices): paired list indices on two order axes select
            # the elements (a,b) and (b,a) - not their bounding box
            a, b = rng.choice([(2, 0), (1, 0)])
            name = rng.choice(names)
            item = (rng.randrange(w["nb"]), rng.randrange(w["nb"]), [a, b], [b, a]) + (0,) * (w["np"] - 2)
            cones = [(a, b) + (0,) * (w["np"] - 2), (b, a) + (0,) * (w["np"] - 2)]
            before = len(log)
            try:
                series[name][item]
            except Exception:  # noqa: BLE001
                pass
            for (x, idx) in log[before:]:
                if not in_cones(idx[2:], cones):
                    failures.append(dict(what="request %s%s evaluated the input element %s%s outside the cones" % (name, list(map(str, item)), x, list(idx)),
                                         input=dict(inp, list_request=[name, [item[0], item[1], [a, b], [b, a]] + [0] * (w["np"] - 2)])))
                    break
        if len(set(log)) != len(log):
            dup = [e for e in set(log) if log.count(e) > 1][0]
            failures.append(dict(what="input element %s%s evaluated more than once" % (dup[0], list(dup[1])), input=inp))
        log = model_log
        if any(sum(e[1][2:]) >= 2 for e in log):
            nontrivial += 1
        dist[min(len(log), 20)] = dist.get(min(len(log), 20), 0) + 1
        js = KS.rename_solver(p["json"]) if p.get("shipped") else p["json"]
        reqs = "[" + "; ".join(PG.creq(*r) for r in sched) + "]"
        exp = "[" + "; ".join("(%s, %s)" % (PG.cstr(x), PG.cidx(idx)) for x, idx in log) + "]"
        terms.append("check_log %d %s %s 0 %s %s" % (KS.EXEC_FUEL, PG.coq_alg(js), KS.world_cfg(p, w), reqs, exp))
        owners.append(inp)
    bad = core.coq_eval_cases("k_calllog", HEADER, terms, shard=10, timeout=1500, jobs=16)
    disagreements = [dict(what="set of evaluated input elements differs from the Coq model's event log", input=owners[i]) for i in bad]
    disagreements += [dict(what="(implementation) " + f["what"], input=f["input"]) for f in failures]
    PG.cleanup()
    return dict(cases=len(cases), nontrivial=nontrivial,
                rule="schedules during which an input element of total order >= 2 was evaluated",
                samples=owners[:1], distribution={"log_len=%s" % k: v for k, v in sorted(dist.items())},
                disagreements=disagreements, impl_failures=failures)


# ------------------------------------------------------------------ block_diagonalize level


def bd_problem(rng):
    npar = rng.choice([1, 1, 2, 3])
    n0, n1 = rng.choice([(1, 1), (1, 2), (2, 2)])
    N = n0 + n1
    E = sorted(rng.sample(range(0, 5), n0)) + sorted(rng.sample(range(7, 14), n1))
    # an identically zero H_0 diagonal block (a degenerate level at zero energy filling a whole block): the
    # eval returns the `zero` sentinel for it, and the front end must not look at higher orders to size it
    zero_block = rng.random() < 0.4
    if zero_block:
        E = [0] * n0 + E[n0:]
        if npar == 1 and rng.random() < 0.7:
            npar = rng.choice([2, 3])
    terms = {}
    maxo = 3 if npar == 1 else 2
    for o in itertools.product(range(maxo + 2), repeat=npar):
        if sum(o) == 0 or sum(o) > maxo + 1:
            continue
        if sum(o) == 1 or rng.random() < 0.5:
            a = [[rng.randint(-2, 2) for _ in range(N)] for _ in range(N)]
            terms[",".join(map(str, o))] = [[a[i][j] + a[j][i] for j in range(N)] for i in range(N)]
    return dict(npar=npar, sizes=[n0, n1], E=E, terms=terms, hermitian=rng.random() < 0.6, zero_block=zero_block,
                unsplit=rng.random() < 0.35, solver1=rng.random() < 0.3,
                implicit=(not zero_block) and rng.random() < 0.25, sparse=rng.random() < 0.5)


def in_cones(n, cones):
    return any(leq(n, c) for c in cones)


def expand_request(ix):
    """index with ints and paired list entries ["l", [..]] -> (what the user writes, list of the selected
    elements as integer tuples; numpy pairs the lists element-wise)"""
    L = max([len(x[1]) for x in ix if isinstance(x, list)] or [1])
    elems = [tuple((x[1][k] if isinstance(x, list) else x) for x in ix) for k in range(L)]
    item = tuple((list(x[1]) if isinstance(x, list) else x) for x in ix)
    return item, elems


def bd_build(prob, log, forbid=None, scale_outside=None):
    """forbid: list of multi-orders -> eval raises if an element outside the union of their cones is touched;
    scale_outside: (list of multi-orders, c) -> terms outside the union of the cones are multiplied by c"""
    import numpy as np
    from pymablock import block_diagonalize
    from pymablock.series import BlockSeries, zero

    n0, n1 = prob["sizes"]
    sl = [slice(0, n0), slice(n0, n0 + n1)]
    E = np.array(prob["E"], dtype=float)
    terms = {tuple(int(x) for x in k.split(",")): np.array(v, dtype=float) for k, v in prob["terms"].items()}
    npar = prob["npar"]

    def ev(*idx):
        idx = tuple(int(i) for i in idx)
        log.append(idx)
        i, j, n = idx[0], idx[1], idx[2:]
        if forbid is not None and not in_cones(n, forbid):
            raise AssertionError("Hamiltonian term %s touched outside the cones <= %s" % (n, forbid))
        if not any(n):
            if i == j and prob.get("zero_block") and i == 0:
                return zero
            return np.diag(E[sl[i]]) if i == j else zero
        if n in terms:
            t = terms[n][sl[i], sl[j]]
            if scale_outside is not None and not in_cones(n, scale_outside[0]):
                t = t * scale_outside[1]
            return t
        return zero

    def ev_full(*orders):
        # the Hamiltonian as one (not yet split) lazily defined series; the front end splits it
        n = tuple(int(i) for i in orders)
        log.append((-1, -1) + n)
        if forbid is not None and not in_cones(n, forbid):
            raise AssertionError("Hamiltonian term %s touched outside the cones <= %s" % (n, forbid))
        if not any(n):
            return wrap(np.diag(E))
        if n in terms:
            t = terms[n]
            if scale_outside is not None and not in_cones(n, scale_outside[0]):
                t = t * scale_outside[1]
            return wrap(t)
        return zero

    def wrap(m):
        if prob.get("implicit") and prob.get("sparse"):
            import scipy.sparse as sp

            return sp.csr_array(m)
        return m

    import warnings
    from pymablock.block_diagonalization import solve_sylvester_diagonal

    kw = dict(hermitian=prob["hermitian"])
    if prob.get("solver1") and prob["hermitian"]:
        # third solver flavour: a user solver with the deprecated ONE-argument signature (wrapped by
        # _preprocess_sylvester; two blocks, Hermitian only)
        base = solve_sylvester_diagonal((E[sl[0]], E[sl[1]]))
        kw["solve_sylvester"] = lambda Y: base(Y, (0, 1))
    with warnings.catch_warnings():
        warnings.simplefilter("ignore")
        if prob.get("implicit"):
            # implicit mode: only the eigenvectors of the first block are given (default direct solver, real h_0);
            # the Hamiltonian is one lazily defined series of full matrices
            H = BlockSeries(eval=ev_full, shape=(), n_infinite=npar, name="H")
            out = block_diagonalize(H, subspace_eigenvectors=[np.eye(n0 + n1)[:, :n0]])
            return out, H
        if prob.get("unsplit"):
            H = BlockSeries(eval=ev_full, shape=(), n_infinite=npar, name="H")
            out = block_diagonalize(H, subspace_indices=[0] * n0 + [1] * n1, **kw)
            return out, H
        H = BlockSeries(eval=ev, shape=(2, 2), n_infinite=npar, name="H")
        out = block_diagonalize(H, **kw)
    return out, H


def bd_check(prob, reqs):
    """reqs: (series number, index); the index holds integers and, for list (advanced) indices, ["l", [..]]
    entries that numpy pairs element-wise - on the order axes and / or on the block axes"""
    import numpy as np
    from pymablock.series import one, zero

    def val(v):
        if v is zero:
            return "zero"
        if v is one:
            return "one"
        if isinstance(v, np.ma.MaskedArray):
            return [val(x) for x in v.filled(zero).reshape(-1)]
        if isinstance(v, np.ndarray) and v.dtype == object:
            return [val(x) for x in v.reshape(-1)]
        if not isinstance(v, np.ndarray) and hasattr(v, "matvec"):
            v = v @ np.eye(v.shape[1])  # a LinearOperator (implicit block)
        if hasattr(v, "toarray"):
            v = v.toarray()
        return np.array(v).tolist()

    def same(x, y):
        if isinstance(x, str) or isinstance(y, str):
            return x == y
        if isinstance(x, list) and isinstance(y, list):
            return len(x) == len(y) and all(same(p, q) for p, q in zip(x, y))
        if isinstance(x, list) or isinstance(y, list):
            return False
        # exact for the explicit problems (integer data, exact float arithmetic); the implicit mode goes through
        # a sparse LU solve
        return x == y or (bool(prob.get("implicit")) and abs(x - y) <= 1e-9 * (1 + abs(x) + abs(y)))

    reqs = [(r[0], list(r[1])) for r in reqs]
    log = []
    try:
        bd_build(prob, [], forbid=[(0,) * prob["npar"]])
    except AssertionError as e:
        return "defining the block diagonalization failed when only zeroth-order terms are available: %s" % e
    out, H = bd_build(prob, log)
    if any(any(e[2:]) for e in log):
        return "defining the block diagonalization evaluated a non-zeroth-order term %s" % ([e for e in log if any(e[2:])][0],)
    values = []
    for (s, ix) in reqs:
        item, elems = expand_request(ix)
        cones = [e[2:] for e in elems]
        before = len(log)
        values.append(val(out[s][item]))
        for e in log[before:]:
            if not in_cones(e[2:], cones):
                return "request %s evaluated the Hamiltonian term %s outside the cone(s) %s" % ((s, ix), e, cones)
    if len(set(log)) != len(log):
        return "a Hamiltonian term was evaluated more than once: %s" % ([e for e in set(log) if log.count(e) > 1][0],)
    # fresh computations: (a) terms outside the cones raise if touched, (b) are scaled by 7
    for k, (s, ix) in enumerate(reqs):
        item, elems = expand_request(ix)
        cones = [e[2:] for e in elems]
        out2, _ = bd_build(prob, [], forbid=cones)
        try:
            v2 = val(out2[s][item])
        except AssertionError as e:
            return "request %s: %s" % ((s, ix), e)
        out3, _ = bd_build(prob, [], scale_outside=(cones, 7.0))
        v3 = val(out3[s][item])
        if not same(v2, values[k]) or not same(v3, values[k]):
            return "value of %s changed when Hamiltonian terms outside the cone were altered" % ((s, ix),)
    return None


def bd_requests(rng, prob):
    """plain requests and, for two or more parameters, paired list indices on the order axes (whose pairs do
    not fill the bounding box) and on the block axes"""
    npar = prob["npar"]
    maxo = 3 if npar == 1 else 2
    orders = [o for o in itertools.product(range(maxo + 1), repeat=npar) if sum(o) <= maxo]
    reqs = []
    for _ in range(4):
        s, i, j = rng.randrange(3), rng.randrange(2), rng.randrange(2)
        kind = rng.choice(["plain", "plain", "orders", "orders", "blocks"]) if npar >= 2 else rng.choice(["plain", "plain", "blocks"])
        if kind == "plain":
            ix = [i, j] + list(rng.choice(orders))
        elif kind == "orders":
            a, b = rng.choice([(2, 0), (2, 0), (1, 0)])
            lists = [["l", [a, b]], ["l", [b, a]]] + [0] * (npar - 2)
            rng.shuffle(lists)
            ix = [i, j] + lists
        else:
            n = list(rng.choice(orders))
            ix = [["l", [0, 1]], ["l", [1, 0]]] + n if rng.random() < 0.5 else [["l", [0, 1]], ["l", [0, 1]]] + n
        reqs.append((s, ix))
    return reqs


def oracle_calllog_bd(ctx):
    rng = ctx.rng
    evaluations = nontrivial = 0
    failures, samples = [], []
    for _ in range(ctx.n(25, 400)):
        prob = bd_problem(rng)
        reqs = bd_requests(rng, prob)
        evaluations += 1
        if any(sum(e[2:]) >= 2 for r in reqs for e in expand_request(r[1])[1]):
            nontrivial += 1
        try:
            what = bd_check(prob, reqs)
        except Exception as e:  # noqa: BLE001
            what = "block_diagonalize request raised %s: %s" % (type(e).__name__, str(e)[:200])
        if what:
            failures.append(dict(what=what, input=dict(level="block_diagonalize", problem=prob, requests=[[r[0], r[1]] for r in reqs])))
        if len(samples) < 1:
            samples.append(dict(problem=prob, requests=reqs))
    return dict(evaluations=evaluations, nontrivial=nontrivial,
                rule="lazily defined Hamiltonians (1-3 parameters) with a request at total order >= 2",
                samples=samples, failures=failures)


# ------------------------------------------------------------------ second-quantised lazily defined Hamiltonians

SQ_TERMS_SCALAR = ["xa", "na", "xb", "hop", "nb", "nanb", "nc", "xa_nc"]
SQ_TERMS_MATRIX = ["off_a", "diag_na", "id_xa", "diag_const", "off_b", "diag_nb"]


def sq_problem(rng):
    """H_0 is a number-conserving operator expression (every operator of the perturbation occurs in H_0);
    JSON-able description: the terms are codes with rational coefficients"""
    npar = rng.choice([1, 2])
    kind = rng.choice(["scalar", "matrix"])
    has_b = rng.random() < 0.5
    has_c = kind == "scalar" and rng.random() < 0.3
    wa, wb, wc = rng.sample([2, 3, 5, 7], 3)
    # the detuning is a non-integer rational: no integer combination of the (integer, pairwise different) mode
    # energies equals it, so no pair of coupled levels is degenerate (a vanishing energy denominator makes the
    # second-quantised solver return nan - an ill-posed input, not a question of causality)
    delta = rng.choice(["1/2", "4/3", "5/7", "7/3"])
    pool = [t for t in (SQ_TERMS_SCALAR if kind == "scalar" else SQ_TERMS_MATRIX)
            if ("b" not in t.replace("nb", "b") or has_b) and ("nc" not in t or has_c)]
    if not has_b:
        pool = [t for t in pool if t not in ("xb", "hop", "nb", "nanb", "off_b", "diag_nb")]
    maxo = 2
    terms = []
    for o in itertools.product(range(maxo + 2), repeat=npar):
        if sum(o) == 0 or sum(o) > maxo + 1:
            continue
        if sum(o) == 1 or rng.random() < 0.45:
            chosen = rng.sample(pool, min(len(pool), rng.randint(1, 2)))
            terms.append([list(o), [[t, "%d/%d" % (rng.choice([-2, -1, 1, 2, 3]), rng.choice([1, 2, 3]))] for t in chosen]])
    return dict(npar=npar, kind=kind, has_b=has_b, has_c=has_c, w=[wa, wb, wc], delta=delta, terms=terms)


def sq_build(prob, log, forbid=None, scale_outside=None):
    import warnings
    import sympy
    from sympy.physics.quantum import Dagger
    from sympy.physics.quantum.boson import BosonOp
    from sympy.physics.quantum.fermion import FermionOp
    from pymablock import block_diagonalize
    from pymablock.series import BlockSeries, zero

    a, b, c = BosonOp("a"), BosonOp("b"), FermionOp("c")
    na, nb_, nc = Dagger(a) * a, Dagger(b) * b, Dagger(c) * c
    wa, wb, wc = prob["w"]
    delta = sympy.Rational(prob["delta"])
    sc = dict(xa=a + Dagger(a), na=na, xb=b + Dagger(b), hop=Dagger(a) * b + Dagger(b) * a, nb=nb_, nanb=na * nb_,
              nc=nc, xa_nc=(a + Dagger(a)) * nc)
    M = sympy.Matrix
    mx = dict(off_a=M([[0, Dagger(a)], [a, 0]]), diag_na=M([[na, 0], [0, -na]]), id_xa=M([[a + Dagger(a), 0], [0, a + Dagger(a)]]),
              diag_const=M([[1, 0], [0, -2]]), off_b=M([[0, Dagger(b)], [b, 0]]), diag_nb=M([[nb_, 0], [0, 2 * nb_]]))
    npar = prob["npar"]
    if prob["kind"] == "scalar":
        h0 = wa * na + (wb * nb_ if prob["has_b"] else 0) + (wc * nc if prob["has_c"] else 0)
        table = {tuple(o): sum((sympy.Rational(cf) * sc[t] for t, cf in ts), sympy.Integer(0)) for o, ts in prob["terms"]}
    else:
        e0 = wa * na + (wb * nb_ if prob["has_b"] else 0)
        h0 = M([[e0, 0], [0, e0 + delta]])
        table = {tuple(o): sum((sympy.Rational(cf) * mx[t] for t, cf in ts), sympy.zeros(2, 2)) for o, ts in prob["terms"]}

    def ev(*orders):
        n = tuple(int(i) for i in orders)
        log.append((-1, -1) + n)
        if forbid is not None and not in_cones(n, forbid):
            raise AssertionError("Hamiltonian term %s touched outside the cones <= %s" % (n, forbid))
        if not any(n):
            return h0
        if n in table:
            t = table[n]
            if scale_outside is not None and not in_cones(n, scale_outside[0]):
                t = scale_outside[1] * t
            return t
        return zero

    H = BlockSeries(eval=ev, shape=(), n_infinite=npar, name="H")
    with warnings.catch_warnings():
        warnings.simplefilter("ignore")
        out = block_diagonalize(H) if prob["kind"] == "scalar" else block_diagonalize(H, subspace_indices=[0, 1])
    return out, H


def sq_same(v, w):
    import sympy
    from pymablock.series import one, zero

    def flat(x):
        if x is zero:
            return [sympy.Integer(0)]
        if x is one:
            return [sympy.Integer(1)]
        if isinstance(x, sympy.MatrixBase):
            return list(x)
        return [x]

    fv, fw = flat(v), flat(w)
    if len(fv) != len(fw):
        # a zero block of any shape
        return all(sq_is_zero(x) for x in fv) and all(sq_is_zero(x) for x in fw)
    return all(sq_is_zero(x - y) for x, y in zip(fv, fw))


def sq_is_zero(d):
    import sympy

    if d == 0:
        return True
    if hasattr(d, "as_expr"):
        d = d.as_expr()
    try:
        return sympy.simplify(sympy.expand(d)) == 0
    except Exception:  # noqa: BLE001
        return False


def sq_ill_posed(v):
    """a value containing nan / zoo: some energy denominator vanished - the input is outside the valid class"""
    import sympy
    from pymablock.series import one, zero

    if v is zero or v is one:
        return False
    items = list(v) if isinstance(v, sympy.MatrixBase) else [v]
    for x in items:
        x = x.as_expr() if hasattr(x, "as_expr") else sympy.sympify(x)
        if x.has(sympy.nan, sympy.zoo, sympy.oo, -sympy.oo):
            return True
    return False


def sq_check(prob, reqs):
    log = []
    zeros = (0,) * prob["npar"]
    try:
        sq_build(prob, [], forbid=[zeros])
    except AssertionError as e:
        return "defining the block diagonalization failed when only zeroth-order terms are available: %s" % e
    out, H = sq_build(prob, log)
    if any(any(e[2:]) for e in log):
        return "defining the block diagonalization evaluated a non-zeroth-order term %s" % ([e[2:] for e in log if any(e[2:])][0],)
    values = []
    for (s, ix) in reqs:
        n = tuple(ix[2:])
        before = len(log)
        values.append(out[s][tuple(ix)])
        for e in log[before:]:
            if not leq(e[2:], n):
                return "request %s evaluated the Hamiltonian term %s outside the cone" % ((s, ix), e[2:])
    if len(set(log)) != len(log):
        return "a Hamiltonian term was evaluated more than once: %s" % ([e[2:] for e in set(log) if log.count(e) > 1][0],)
    for k, (s, ix) in enumerate(reqs):
        n = tuple(ix[2:])
        out2, _ = sq_build(prob, [], forbid=[n])
        try:
            v2 = out2[s][tuple(ix)]
        except AssertionError as e:
            return "request %s: %s" % ((s, ix), e)
        out3, _ = sq_build(prob, [], scale_outside=([n], 7))
        v3 = out3[s][tuple(ix)]
        if sq_ill_posed(values[k]) or sq_ill_posed(v2) or sq_ill_posed(v3):
            continue  # degenerate coupled levels (nan): no statement about values
        if not sq_same(v2, values[k]) or not sq_same(v3, values[k]):
            return "value of %s changed when Hamiltonian terms outside the cone were altered" % ((s, ix),)
    return None


def oracle_calllog_2q(ctx):
    rng = ctx.rng
    evaluations = nontrivial = 0
    failures, samples = [], []
    dist = {}
    for _ in range(ctx.n(10, 120)):
        prob = sq_problem(rng)
        orders = [o for o in itertools.product(range(3), repeat=prob["npar"]) if sum(o) <= 2]
        nblk = 1 if prob["kind"] == "scalar" else 2
        reqs = [(rng.randrange(3), [rng.randrange(nblk), rng.randrange(nblk)] + list(rng.choice(orders))) for _ in range(3)]
        reqs[0] = (reqs[0][0], reqs[0][1][:2] + [0] * prob["npar"])  # a request at order 0 first
        evaluations += 1
        if any(sum(r[1][2:]) >= 2 for r in reqs):
            nontrivial += 1
        key = "%s/%dp" % (prob["kind"], prob["npar"])
        dist[key] = dist.get(key, 0) + 1
        try:
            what = sq_check(prob, reqs)
        except Exception as e:  # noqa: BLE001
            what = "block_diagonalize request raised %s: %s" % (type(e).__name__, str(e)[:200])
        if what:
            failures.append(dict(what=what, input=dict(level="second_quantised", problem=prob, requests=[[r[0], r[1]] for r in reqs])))
        if len(samples) < 1:
            samples.append(dict(problem=prob, requests=reqs))
    return dict(evaluations=evaluations, nontrivial=nontrivial,
                rule="second-quantised lazily defined Hamiltonians (scalar and 2x2, 1-2 parameters) with a request at total order >= 2; %s" % dist,
                samples=samples, failures=failures)


def replay_input(inp):
    if inp.get("level") == "second_quantised":
        try:
            return sq_check(inp["problem"], [(r[0], r[1]) for r in inp["requests"]])
        except Exception as e:  # noqa: BLE001
            return "block_diagonalize request raised %s" % type(e).__name__
    if inp.get("level") == "block_diagonalize":
        try:
            return bd_check(inp["problem"], [(r[0], r[1]) for r in inp["requests"]])
        except Exception as e:  # noqa: BLE001
            return "block_diagonalize request raised %s" % type(e).__name__
    w = PG.world_from_json(inp["world"])
    if inp.get("shipped"):
        p = [q for q in KS.shipped_programs() if q["name"] == inp["shipped"]][0]
        fn = p["fn"]
        w["extra_scope"] = KS.shipped_scope(w)
        w["extra_scope"]["solve_sylvester"] = PG.scope_functions()["f_lmul"]
    else:
        p = PG.program_from_source(inp["source"])
        fn = PG.load_function(p)
    log = []
    series, lin, inputs = KS.build(p, fn, w, eval_hook=lambda x, idx: log.append((x, idx)))
    del log[:]
    for r in inp["schedule"]:
        before = len(log)
        KS.observe(series, (r[0], r[1], tuple(r[2])))
        for (x, idx) in log[before:]:
            if not leq(idx[2:], r[2][2:]):
                return "request %s evaluated the input element %s%s outside the cone" % (r, x, list(idx))
    if inp.get("list_request"):
        name, item = inp["list_request"]
        item = tuple(item)
        cones = [tuple(x[k] if isinstance(x, list) else x for x in item[2:]) for k in range(2)]
        before = len(log)
        try:
            series[name][item]
        except Exception:  # noqa: BLE001
            pass
        for (x, idx) in log[before:]:
            if not in_cones(idx[2:], cones):
                return "request %s%s evaluated the input element %s%s outside the cones" % (name, list(item), x, list(idx))
    if len(set(log)) != len(log):
        return "an input element was evaluated more than once"
    return None
