"""Correspondence harness for C18: Coq model of cauchy_dot_product / product_by_order
(PySeries/CauchyDot.v, ProductByOrder.v on top of Cache.v) versus the implementation.

A case = factor series given by tables (values: 2x2 Gaussian-integer matrices, the
sentinels zero / one, absent elements, raising elements), some elements pre-filled in
`data=`, a product built by cauchy_dot_product(..., hermitian=flag) and a script of
requests (product elements in random order, `in`, `pop`).  Compared after the run:
every observation (value / sentinel / exception class), the ordered log of eval calls
of the factor series and of the product, and the key sets of their caches.
"""
import sys
import itertools

from vlib import core

sys.path.insert(0, str(core.REPO))
import numpy as np  # noqa: E402

HEADER = (
    "Require Import List ZArith Bool Arith.\nImport ListNotations.\n"
    "Require Import PV.PySeries.Sentinel PV.PySeries.Cache PV.PySeries.ProductByOrder "
    "PV.PySeries.CauchyDot PV.PySeries.HarnessLib.\n"
)

EXC_CLASSES = {
    "IndexError": "IndexError",
    "RuntimeError": "RuntimeError",
    "TypeError": "(Other TypeError)",
    "SympifyError": "(Other SympifyError)",
    "ValueError": "(Other ValueError)",
    "KeyboardInterrupt": "(Other KeyboardInterrupt)",
}


# ---------------------------------------------------------------------------
# printing Coq terms


def cz(n):
    return "(%d)%%Z" % int(n)


def cnat(n):
    n = int(n)
    assert 0 <= n < 5000
    return "%d%%nat" % n


def cidx(idx):
    return "[" + "; ".join(cnat(x) for x in idx) + "]"


def clist(items):
    return "[" + "; ".join(items) + "]"


def cval(v):
    """v: 'zero' | 'one' | [[re,im]*4]"""
    if v == "zero":
        return "SZero"
    if v == "one":
        return "SOne"
    return "(SVal (M2 %s))" % " ".join("(%s, %s)" % (cz(a), cz(b)) for a, b in v)


def cexn(name):
    if name not in EXC_CLASSES:
        return "(Other (UserError 0))"
    return EXC_CLASSES[name]


def cres(r):
    """r: ('ok', v) | ('exc', classname)"""
    if r[0] == "ok":
        return "(Ok %s)" % cval(r[1])
    return "(Raise %s)" % cexn(r[1])


def cobs(o):
    if o[0] == "get":
        return "(OGet %s)" % cres(o[1])
    if o[0] == "has":
        return "(OHas %s)" % ("true" if o[1] else "false")
    if o[0] == "pop":
        if o[1] is None:
            return "(OPop None)"
        if o[1] == "pending":
            return "(OPop (Some Pending))"
        return "(OPop (Some (Done %s)))" % cval(o[1])
    raise ValueError(o)


def creq(q):
    kind, s, idx = q
    return "(%s %s %s)" % ({"get": "RGet", "has": "RHas", "pop": "RPop"}[kind], cnat(s), cidx(idx))


# ---------------------------------------------------------------------------
# values


def to_np(v):
    return np.array([[complex(*v[0]), complex(*v[1])], [complex(*v[2]), complex(*v[3])]])


def from_impl(x):
    """implementation value -> 'zero' | 'one' | 4 Gaussian integers (exact)"""
    from pymablock.series import zero, one

    if x is zero:
        return "zero"
    if x is one:
        return "one"
    a = np.asarray(x)
    if a.shape != (2, 2):
        raise TypeError("unexpected value %r" % (x,))
    out = []
    for z in a.reshape(-1):
        z = complex(z)
        re, im = z.real, z.imag
        if re != int(re) or im != int(im) or abs(re) > 2**50 or abs(im) > 2**50:
            raise TypeError("inexact value %r" % (x,))
        out.append([int(re), int(im)])
    return out


def rand_val(rng, small=2):
    return [[rng.randint(-small, small), rng.randint(-small, small)] for _ in range(4)]


def adj_val(v):
    return [[v[0][0], -v[0][1]], [v[2][0], -v[2][1]], [v[1][0], -v[1][1]], [v[3][0], -v[3][1]]]


# ---------------------------------------------------------------------------
# cases


def all_orders(N):
    return list(itertools.product(*(range(n + 1) for n in N)))


def gen_case(rng, kind=None):
    kind = kind or rng.choice(["plain", "plain", "plain", "herm_adjoint", "herm_unitary", "herm_any", "herm_any", "raising", "ones"])
    nparam = rng.choice([1, 1, 2, 2, 3])
    nfac = rng.choice([2, 2, 3, 3, 4])
    N = tuple(rng.randint(0, {1: 3, 2: 2, 3: 1}[nparam]) for _ in range(nparam))
    if sum(N) == 0:
        N = (1,) + N[1:]
    herm = kind in ("herm_adjoint", "herm_unitary", "herm_any") or (kind in ("ones", "raising") and rng.random() < 0.3)
    if kind in ("herm_adjoint", "herm_unitary"):
        nfac = 2
    dims = [rng.randint(1, 3) for _ in range(nfac + 1)]
    if kind == "herm_unitary":
        dims = [dims[0]] * 3
        if sum(N) < 2:
            N = (2,) + N[1:]
    if herm:
        dims[-1] = dims[0]
    p_zero = rng.choice([0.0, 0.3, 0.5, 0.7])
    p_one = {"ones": 0.35}.get(kind, rng.choice([0.0, 0.0, 0.1]))
    tables = []
    for f in range(nfac):
        t = {}
        for i in range(dims[f]):
            for k in range(dims[f + 1]):
                for o in all_orders(N):
                    r = rng.random()
                    if r < p_zero:
                        v = "zero"
                    elif r < p_zero + p_one:
                        v = "one"
                    elif kind == "raising" and rng.random() < 0.12:
                        v = ["raise", rng.choice(["RuntimeError", "ValueError", "KeyboardInterrupt"])]
                    else:
                        v = rand_val(rng)
                    t[(i, k) + o] = v
        tables.append(t)
    if kind == "herm_unitary":  # `one` on the diagonal at order zero, zero off the diagonal (the U pattern)
        for idx in list(tables[0]):
            if sum(idx[2:]) == 0:
                tables[0][idx] = "one" if idx[0] == idx[1] else "zero"
    if kind in ("herm_adjoint", "herm_unitary"):
        t0 = tables[0]
        tables[1] = {(k, i) + tuple(o): (adj_val(v) if isinstance(v, list) and v[0] != "raise" else v) for (i, k, *o), v in t0.items()}
    # pre-filled data (known elements, in particular known zeros)
    data = []
    p_pre = rng.choice([0.0, 0.3, 0.6])
    for f in range(nfac):
        d = {}
        for idx, v in tables[f].items():
            if isinstance(v, list) and v and v[0] == "raise":
                continue
            if rng.random() < p_pre:
                d[idx] = v
        data.append(d)
    # script
    P = 2 * nfac - 2
    script = []
    prod_idx = [(i, j) + o for i in range(dims[0]) for j in range(dims[-1]) for o in all_orders(N)]
    nreq = rng.randint(3, 10)
    for _ in range(nreq):
        r = rng.random()
        if r < 0.75:
            script.append(["get", P, list(rng.choice(prod_idx))])
        elif r < 0.85:
            script.append(["has", P, list(rng.choice(prod_idx))])
        elif r < 0.92:
            f = rng.randrange(nfac)
            script.append(["has", f, list(rng.choice(list(tables[f])))])
        elif r < 0.96:
            script.append(["pop", P, list(rng.choice(prod_idx))])
        else:
            f = rng.randrange(nfac)
            script.append(["pop", f, list(rng.choice(list(tables[f])))])
    if kind == "herm_unitary":  # all product elements in order of increasing total order
        script = [["get", P, list(i)] for i in sorted(prod_idx, key=lambda i: (sum(i[2:]), rng.random()))]
    return dict(
        kind=kind,
        nparam=nparam,
        dims=dims,
        N=list(N),
        herm=herm,
        tables=[[[list(k), v] for k, v in t.items()] for t in tables],
        data=[[[list(k), v] for k, v in d.items()] for d in data],
        script=script,
    )


# ---------------------------------------------------------------------------
# running the implementation


class Raiser:
    classes = {"RuntimeError": RuntimeError, "ValueError": ValueError, "KeyboardInterrupt": KeyboardInterrupt}


def impl_value(v):
    from pymablock.series import zero, one

    if v == "zero":
        return zero
    if v == "one":
        return one
    return to_np(v)


def build_factors(case, log):
    from pymablock.series import BlockSeries, zero

    factors = []
    for f, (tab, dat) in enumerate(zip(case["tables"], case["data"])):
        table = {tuple(k): v for k, v in tab}

        def ev(*index, _f=f, _table=table):
            idx = tuple(int(x) for x in index)
            log.append((_f, idx))
            v = _table.get(idx, "zero")
            if isinstance(v, list) and v and v[0] == "raise":
                raise Raiser.classes[v[1]]("injected")
            return impl_value(v)

        factors.append(
            BlockSeries(
                eval=ev,
                data={tuple(k): impl_value(v) for k, v in dat},
                shape=(case["dims"][f], case["dims"][f + 1]),
                n_infinite=case["nparam"],
            )
        )
    return factors


def run_impl(case):
    """-> dict(obs, calls, keys) or dict(construct_error=classname)"""
    from pymablock import series as S

    log = []
    factors = build_factors(case, log)
    nfac = len(factors)
    P = 2 * nfac - 2
    try:
        prod = S.cauchy_dot_product(*factors, hermitian=case["herm"])
    except Exception as e:  # noqa: BLE001
        return dict(construct_error=type(e).__name__)
    inner = prod.eval

    def logged(*index):
        log.append((P, tuple(int(x) for x in index)))
        return inner(*index)

    prod.eval = logged
    objs = {f: factors[f] for f in range(nfac)}
    objs[P] = prod
    obs = []
    for kind, s, idx in case["script"]:
        ser = objs[s]
        idx = tuple(idx)
        if kind == "get":
            try:
                v = ser[idx]
                obs.append(["get", ["ok", from_impl(v)]])
            except BaseException as e:  # noqa: BLE001
                obs.append(["get", ["exc", type(e).__name__]])
        elif kind == "has":
            obs.append(["has", bool(idx in ser)])
        else:
            sentinel = object()
            v = ser.pop(idx, sentinel)
            if v is sentinel:
                obs.append(["pop", None])
            elif v is S.PENDING:
                obs.append(["pop", "pending"])
            else:
                obs.append(["pop", from_impl(v)])
    keys = {s: sorted(tuple(int(x) for x in k) for k in ser._data) for s, ser in objs.items()}
    return dict(obs=obs, calls=[[s, list(i)] for s, i in log], keys=[[s, [list(k) for k in ks]] for s, ks in keys.items()])


# ---------------------------------------------------------------------------
# the Coq term


def ctable(tab):
    items = []
    for k, v in tab:
        if isinstance(v, list) and v and v[0] == "raise":
            r = "(Raise %s)" % cexn(v[1])
        else:
            r = "(Ok %s)" % cval(v)
        items.append("(%s, %s)" % (cidx(k), r))
    return "(table %s (Ok SZero))" % clist(items)


def coq_term(case, out):
    nfac = len(case["tables"])
    descs = []
    for f in range(nfac):
        head = "(mkHead %s %s %s)" % (cnat(case["dims"][f]), cnat(case["dims"][f + 1]), cnat(case["nparam"]))
        descs.append("(SBase %s %s)" % (head, ctable(case["tables"][f])))
    base = clist(descs)
    factors = clist(cnat(f) for f in range(nfac))
    herm = "true" if case["herm"] else "false"
    if "construct_error" in out:
        return "check_cdp_valueerror %s %s %s" % (base, factors, herm)
    data = clist(clist("(%s, %s)" % (cidx(k), cval(v)) for k, v in d) for d in case["data"])
    script = clist(creq(q) for q in case["script"])
    obs = clist(cobs(o) for o in out["obs"])
    P = 2 * nfac - 2
    log_sids = clist([cnat(f) for f in range(nfac)] + [cnat(P)])
    calls = clist("(%s, %s)" % (cnat(s), cidx(i)) for s, i in out["calls"])
    keys = clist("(%s, %s)" % (cnat(s), clist(cidx(k) for k in ks)) for s, ks in out["keys"])
    return "check_cdp %s %s %s %s 60%%nat %s %s %s %s %s" % (base, factors, herm, data, script, obs, log_sids, calls, keys)


def nontrivial(case, out):
    """rule: some requested product element needed at least two non-zero terms or a Hermitian shortcut,
    i.e. the eval log has >= 4 factor calls, and some returned value is not a sentinel"""
    if "obs" not in out:
        return False
    vals = [o for o in out["obs"] if o[0] == "get" and o[1][0] == "ok" and isinstance(o[1][1], list)]
    return len(out["calls"]) >= 4 and len(vals) >= 1


def tie_cauchydot(ctx, ncases=None):
    n = ncases or ctx.n(120, 2400)
    rng = ctx.rng
    cases, outs, terms = [], [], []
    dist = {}
    disagreements = []
    for _ in range(n):
        case = gen_case(rng)
        try:
            out = run_impl(case)
        except Exception as e:  # noqa: BLE001  (harness-level failure: report, do not hide)
            disagreements.append(dict(what="implementation run crashed in the harness: %r" % (e,), input=case))
            continue
        cases.append(case)
        outs.append(out)
        terms.append(coq_term(case, out))
        key = "%s/f%d/p%d/%s" % (case["kind"], len(case["tables"]), case["nparam"], "herm" if case["herm"] else "plain")
        dist[key] = dist.get(key, 0) + 1
    bad = core.coq_eval_cases("k_cauchydot", HEADER, terms, shard=ctx.n(20, 75), jobs=ctx.n(8, 16))
    for i in bad:
        disagreements.append(dict(what="model and implementation differ (values / eval log / cache keys)", input=cases[i], impl=outs[i], model="see replay: coq term false"))
    seen = set()
    for c, o in zip(cases, outs):
        if nontrivial(c, o):
            seen.add(core.sha(core.canon(c))[:16])
    excs = {}
    for o in outs:
        for ob in o.get("obs", []):
            if ob[0] == "get" and ob[1][0] == "exc":
                excs[ob[1][1]] = excs.get(ob[1][1], 0) + 1
    dist["exceptions_observed"] = excs
    return dict(
        cases=len(cases),
        nontrivial=len(seen),
        rule="distinct cases whose eval log has >= 4 calls and that returned at least one non-sentinel value",
        samples=[dict(case=c, impl=o) for c, o in list(zip(cases, outs))[:2]],
        distribution=dist,
        disagreements=disagreements,
    )
