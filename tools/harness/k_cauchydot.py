"""Correspondence harness for C18: Coq model of cauchy_dot_product / product_by_order
(PySeries/CauchyDot.v, ProductByOrder.v on top of Cache.v) versus the implementation.

A case = factor series given by tables (values: 2x2 Gaussian-integer matrices, the
sentinels zero / one, absent elements, raising elements), some elements pre-filled in
`data=`, a product built by cauchy_dot_product(..., hermitian=flag) and a script of
requests (product elements in random order, `in`, `pop`).  Compared after the run:
every observation (value / sentinel / exception class), the ordered log of eval calls
of the factor series and of the product, and the key sets of their caches.
"""
import sys
import itertools

from vlib import core

sys.path.insert(0, str(core.REPO))
import numpy as np  # noqa: E402

HEADER = (
    "Require Import List ZArith Bool Arith.\nImport ListNotations.\n"
    "Require Import PV.PySeries.Sentinel PV.PySeries.Cache PV.PySeries.ProductByOrder "
    "PV.PySeries.CauchyDot PV.PySeries.HarnessLib.\n"
)

EXC_CLASSES = {
    "IndexError": "IndexError",
    "RuntimeError": "RuntimeError",
    "TypeError": "(Other TypeError)",
    "SympifyError": "(Other SympifyError)",
    "ValueError": "(Other ValueError)",
    "KeyboardInterrupt": "(Other KeyboardInterrupt)",
}


# ---------------------------------------------------------------------------
# printing Coq terms


def cz(n):
    return "(%d)%%Z" % int(n)


def cnat(n):
    n = int(n)
    assert 0 <= n < 5000
    return "%d%%nat" % n


def cidx(idx):
    return "[" + "; ".join(cnat(x) for x in idx) + "]"


def clist(items):
    return "[" + "; ".join(items) + "]"


def cval(v):
    """v: 'zero' | 'one' | [[re,im]*4]"""
    if v == "zero":
        return "SZero"
    if v == "one":
        return "SOne"
    return "(SVal (M2 %s))" % " ".join("(%s, %s)" % (cz(a), cz(b)) for a, b in v)


def cexn(name):
    if name not in EXC_CLASSES:
        return "(Other (UserError 0))"
    return EXC_CLASSES[name]


def cres(r):
    """r: ('ok', v) | ('exc', classname)"""
    if r[0] == "ok":
        return "(Ok %s)" % cval(r[1])
    return "(Raise %s)" % cexn(r[1])


def cobs(o):
    if o[0] == "get":
        return "(OGet %s)" % cres(o[1])
    if o[0] == "has":
        return "(OHas %s)" % ("true" if o[1] else "false")
    if o[0] == "pop":
        if o[1] is None:
            return "(OPop None)"
        if o[1] == "pending":
            return "(OPop (Some Pending))"
        return "(OPop (Some (Done %s)))" % cval(o[1])
    raise ValueError(o)


def creq(q):
    kind, s, idx = q
    return "(%s %s %s)" % ({"get": "RGet", "has": "RHas", "pop": "RPop"}[kind], cnat(s), cidx(idx))


# ---------------------------------------------------------------------------
# values


SPARSE_FORMATS = ["csr_array", "csc_array", "coo_array", "csr_matrix"]


def to_np(v, fmt="numpy"):
    a = np.array([[complex(*v[0]), complex(*v[1])], [complex(*v[2]), complex(*v[3])]])
    if fmt and fmt != "numpy":
        import scipy.sparse as sp

        return getattr(sp, fmt)(a)
    return a


def from_impl(x):
    """implementation value -> 'zero' | 'one' | 4 Gaussian integers (exact)"""
    from pymablock.series import zero, one

    if x is zero:
        return "zero"
    if x is one:
        return "one"
    if hasattr(x, "toarray") and hasattr(x, "format"):  # scipy sparse array / matrix
        x = x.toarray()
    a = np.asarray(x)
    if a.shape != (2, 2):
        raise TypeError("unexpected value %r" % (x,))
    out = []
    for z in a.reshape(-1):
        z = complex(z)
        re, im = z.real, z.imag
        if re != int(re) or im != int(im) or abs(re) > 2**50 or abs(im) > 2**50:
            raise TypeError("inexact value %r" % (x,))
        out.append([int(re), int(im)])
    return out


def rand_val(rng, small=2):
    return [[rng.randint(-small, small), rng.randint(-small, small)] for _ in range(4)]


def adj_val(v):
    return [[v[0][0], -v[0][1]], [v[2][0], -v[2][1]], [v[1][0], -v[1][1]], [v[3][0], -v[3][1]]]


# ---------------------------------------------------------------------------
# cases


def all_orders(N):
    return list(itertools.product(*(range(n + 1) for n in N)))


def gen_case(rng, kind=None):
    kind = kind or rng.choice(["plain", "plain", "plain", "herm_adjoint", "herm_unitary", "herm_any", "herm_any", "raising", "ones", "bad_construct"])
    nparam = rng.choice([1, 1, 2, 2, 3])
    if kind == "plain" and rng.random() < 0.06:
        nparam = 0  # no order axes at all: reduce() of an empty iterable -> TypeError (modelled)
    nfac = rng.choice([2, 2, 3, 3, 4])
    N = tuple(rng.randint(0, {1: 3, 2: 2, 3: 1}[nparam]) for _ in range(nparam))
    if nparam and sum(N) == 0:
        N = (1,) + N[1:]
    herm = kind in ("herm_adjoint", "herm_unitary", "herm_any") or (kind in ("ones", "raising") and rng.random() < 0.3)
    if kind in ("herm_adjoint", "herm_unitary"):
        nfac = 2
    dims = [rng.randint(1, 3) for _ in range(nfac + 1)]
    if kind == "herm_unitary":
        dims = [dims[0]] * 3
        if sum(N) < 2:
            N = (2,) + N[1:]
    if kind == "bad_construct":
        herm = False
    if herm:
        dims[-1] = dims[0]
    p_zero = rng.choice([0.0, 0.3, 0.5, 0.7])
    p_one = {"ones": 0.35}.get(kind, rng.choice([0.0, 0.0, 0.1]))
    tables = []
    for f in range(nfac):
        t = {}
        for i in range(dims[f]):
            for k in range(dims[f + 1]):
                for o in all_orders(N):
                    r = rng.random()
                    if r < p_zero:
                        v = "zero"
                    elif r < p_zero + p_one:
                        v = "one"
                    elif kind == "raising" and rng.random() < 0.12:
                        v = ["raise", rng.choice(["RuntimeError", "ValueError", "KeyboardInterrupt"])]
                    else:
                        v = rand_val(rng)
                    t[(i, k) + o] = v
        tables.append(t)
    if kind == "herm_unitary":  # `one` on the diagonal at order zero, zero off the diagonal (the U pattern)
        for idx in list(tables[0]):
            if sum(idx[2:]) == 0:
                tables[0][idx] = "one" if idx[0] == idx[1] else "zero"
    if kind in ("herm_adjoint", "herm_unitary"):
        t0 = tables[0]
        tables[1] = {(k, i) + tuple(o): (adj_val(v) if isinstance(v, list) and v[0] != "raise" else v) for (i, k, *o), v in t0.items()}
    # pre-filled data (known elements, in particular known zeros)
    data = []
    p_pre = rng.choice([0.0, 0.3, 0.6])
    for f in range(nfac):
        d = {}
        for idx, v in tables[f].items():
            if isinstance(v, list) and v and v[0] == "raise":
                continue
            if rng.random() < p_pre:
                d[idx] = v
        data.append(d)
    # script
    P = 2 * nfac - 2
    script = []
    prod_idx = [(i, j) + o for i in range(dims[0]) for j in range(dims[-1]) for o in all_orders(N)]
    nreq = rng.randint(3, 10)
    for _ in range(nreq):
        r = rng.random()
        if r < 0.75:
            script.append(["get", P, list(rng.choice(prod_idx))])
        elif r < 0.85:
            script.append(["has", P, list(rng.choice(prod_idx))])
        elif r < 0.92:
            f = rng.randrange(nfac)
            script.append(["has", f, list(rng.choice(list(tables[f])))])
        elif r < 0.96:
            script.append(["pop", P, list(rng.choice(prod_idx))])
        else:
            f = rng.randrange(nfac)
            script.append(["pop", f, list(rng.choice(list(tables[f])))])
    if kind == "herm_unitary":  # all product elements in order of increasing total order
        script = [["get", P, list(i)] for i in sorted(prod_idx, key=lambda i: (sum(i[2:]), rng.random()))]
    # heads of the factors: shape, n_infinite, dimension_names (codes: k < 100 is the default name n_k)
    names = list(range(nparam))
    if rng.random() < 0.2:
        names = [100 + k for k in range(nparam)] if rng.random() < 0.7 else [100 + k for k in range(nparam + 1)]
    heads = [dict(shape=[dims[f], dims[f + 1]], ninf=nparam, names=list(names)) for f in range(nfac)]
    if kind == "bad_construct":
        f = rng.randrange(nfac)
        what = rng.choice(["ninf", "names", "shape", "shape", "ninf+names"])
        if "ninf" in what:
            heads[f]["ninf"] = nparam + 1
            if what == "ninf":
                pass  # the default names differ too, but the n_infinite test comes first
        if "names" in what:
            heads[f]["names"] = [200 + k for k in range(len(names))] or [200]
        if what == "shape":
            if f == 0:
                heads[0]["shape"][1] += 1
            else:
                heads[f]["shape"][0] += 1
        if what == "ninf" and heads[f]["names"] == names:
            heads[f]["names"] = list(range(nparam + 1)) if names == list(range(nparam)) else names
    # value type: numpy arrays or scipy sparse arrays / matrices (genuinely complex entries)
    fmt = "numpy" if rng.random() < 0.6 else rng.choice(SPARSE_FORMATS)
    return dict(
        kind=kind,
        fmt=fmt,
        nparam=nparam,
        dims=dims,
        heads=heads,
        N=list(N),
        herm=herm,
        tables=[[[list(k), v] for k, v in t.items()] for t in tables],
        data=[[[list(k), v] for k, v in d.items()] for d in data],
        script=script,
    )


# ---------------------------------------------------------------------------
# running the implementation


class Raiser:
    classes = {"RuntimeError": RuntimeError, "ValueError": ValueError, "KeyboardInterrupt": KeyboardInterrupt}


def impl_value(v, fmt="numpy"):
    from pymablock.series import zero, one

    if v == "zero":
        return zero
    if v == "one":
        return one
    return to_np(v, fmt)


def build_factors(case, log):
    from pymablock.series import BlockSeries, zero

    factors = []
    for f, (tab, dat) in enumerate(zip(case["tables"], case["data"])):
        table = {tuple(k): v for k, v in tab}

        def ev(*index, _f=f, _table=table):
            idx = tuple(int(x) for x in index)
            log.append((_f, idx))
            v = _table.get(idx, "zero")
            if isinstance(v, list) and v and v[0] == "raise":
                raise Raiser.classes[v[1]]("injected")
            return impl_value(v, case.get("fmt", "numpy"))

        factors.append(
            BlockSeries(
                eval=ev,
                data={tuple(k): impl_value(v, case.get("fmt", "numpy")) for k, v in dat},
                shape=tuple(case["heads"][f]["shape"]),
                n_infinite=case["heads"][f]["ninf"],
                dimension_names=names_of_codes(case["heads"][f]["names"], case["heads"][f]["ninf"]),
                name="F%d" % f,
            )
        )
    return factors


def names_of_codes(codes, ninf):
    """None (library default n_0, n_1, ...) when the codes are the default ones"""
    if list(codes) == list(range(ninf)):
        return None
    return tuple(("n_%d" % k) if k < 100 else ("x%d" % k) for k in codes) or None


def codes_of_names(names):
    out = []
    for nm in names:
        nm = str(nm)
        out.append(int(nm[2:]) if nm.startswith("n_") else int(nm[1:]))
    return out


def run_impl(case):
    """-> dict(obs, calls, keys) or dict(construct_error=classname)"""
    from pymablock import series as S

    log = []
    factors = build_factors(case, log)
    nfac = len(factors)
    P = 2 * nfac - 2
    try:
        prod = S.cauchy_dot_product(*factors, hermitian=case["herm"])
    except Exception as e:  # noqa: BLE001
        return dict(construct_error=type(e).__name__)
    head = dict(shape=[int(x) for x in prod.shape], ninf=int(prod.n_infinite), names=codes_of_names(prod.dimension_names), name=prod.name)
    inner = prod.eval

    def logged(*index):
        log.append((P, tuple(int(x) for x in index)))
        return inner(*index)

    prod.eval = logged
    objs = {f: factors[f] for f in range(nfac)}
    objs[P] = prod
    obs = []
    for kind, s, idx in case["script"]:
        ser = objs[s]
        idx = tuple(idx)
        if kind == "get":
            try:
                v = ser[idx]
                obs.append(["get", ["ok", from_impl(v)]])
            except BaseException as e:  # noqa: BLE001
                obs.append(["get", ["exc", type(e).__name__]])
        elif kind == "has":
            obs.append(["has", bool(idx in ser)])
        else:
            sentinel = object()
            v = ser.pop(idx, sentinel)
            if v is sentinel:
                obs.append(["pop", None])
            elif v is S.PENDING:
                obs.append(["pop", "pending"])
            else:
                obs.append(["pop", from_impl(v)])
    keys = {s: sorted(tuple(int(x) for x in k) for k in ser._data) for s, ser in objs.items()}
    return dict(obs=obs, calls=[[s, list(i)] for s, i in log], keys=[[s, [list(k) for k in ks]] for s, ks in keys.items()], head=head)


# ---------------------------------------------------------------------------
# the Coq term


def ctable(tab):
    items = []
    for k, v in tab:
        if isinstance(v, list) and v and v[0] == "raise":
            r = "(Raise %s)" % cexn(v[1])
        else:
            r = "(Ok %s)" % cval(v)
        items.append("(%s, %s)" % (cidx(k), r))
    return "(table %s (Ok SZero))" % clist(items)


def cbase(case):
    descs = []
    for f in range(len(case["tables"])):
        h = case["heads"][f]
        head = "(mkHead %s %s %s %s)" % (cnat(h["shape"][0]), cnat(h["shape"][1]), cnat(h["ninf"]), clist(cnat(k) for k in h["names"]))
        descs.append("(SBase %s %s)" % (head, ctable(case["tables"][f])))
    return clist(descs)


def coq_terms(case, out):
    """the main term, and (when the product was built) the term checking its head"""
    nfac = len(case["tables"])
    base = cbase(case)
    factors = clist(cnat(f) for f in range(nfac))
    herm = "true" if case["herm"] else "false"
    if "construct_error" in out:
        return ["check_cdp_valueerror %s %s %s" % (base, factors, herm)]
    h = out["head"]
    return [
        coq_term(case, out),
        "check_cdp_head %s %s %s %s %s %s %s" % (base, factors, herm, cnat(h["shape"][0]), cnat(h["shape"][1]), cnat(h["ninf"]), clist(cnat(k) for k in h["names"])),
    ]


def coq_term(case, out):
    nfac = len(case["tables"])
    base = cbase(case)
    factors = clist(cnat(f) for f in range(nfac))
    herm = "true" if case["herm"] else "false"
    if "construct_error" in out:
        return "check_cdp_valueerror %s %s %s" % (base, factors, herm)
    data = clist(clist("(%s, %s)" % (cidx(k), cval(v)) for k, v in d) for d in case["data"])
    script = clist(creq(q) for q in case["script"])
    obs = clist(cobs(o) for o in out["obs"])
    P = 2 * nfac - 2
    log_sids = clist([cnat(f) for f in range(nfac)] + [cnat(P)])
    calls = clist("(%s, %s)" % (cnat(s), cidx(i)) for s, i in out["calls"])
    keys = clist("(%s, %s)" % (cnat(s), clist(cidx(k) for k in ks)) for s, ks in out["keys"])
    return "check_cdp %s %s %s %s 60%%nat %s %s %s %s %s" % (base, factors, herm, data, script, obs, log_sids, calls, keys)


def run_pbo_direct(case, idx, herm):
    """product_by_order(idx, A, B, hermitian=herm) with operator left at its default, on fresh factors"""
    from pymablock import series as S

    log = []
    factors = build_factors(case, log)
    try:
        r = ["ok", from_impl(S.product_by_order(tuple(idx), factors[0], factors[1], hermitian=herm))]
    except BaseException as e:  # noqa: BLE001
        r = ["exc", type(e).__name__]
    keys = [[f, sorted([int(x) for x in k] for k in factors[f]._data)] for f in range(2)]
    return dict(res=r, calls=[[s, list(i)] for s, i in log], keys=keys)


def coq_term_pbo(case, idx, herm, out):
    data = clist(clist("(%s, %s)" % (cidx(k), cval(v)) for k, v in d) for d in case["data"])
    return "check_pbo %s %s 60%%nat %s %s %s %s %s %s %s" % (
        cbase(case),
        data,
        "true" if herm else "false",
        cnat(idx[0]),
        cnat(idx[1]),
        cidx(idx[2:]),
        cres(out["res"]),
        clist("(%s, %s)" % (cnat(s), cidx(i)) for s, i in out["calls"]),
        clist("(%s, %s)" % (cnat(s), clist(cidx(k) for k in ks)) for s, ks in out["keys"]),
    )


SOPS = {"add": "OpAdd", "sub": "OpSub", "neg": "OpNeg", "dagger": "OpDagger"}


def run_sop(op, x, y):
    """the Python operator on sentinels / numpy arrays -> ('ok', value) | ('err', class)"""
    from sympy.physics.quantum import Dagger

    a, b = impl_value(x), impl_value(y)
    try:
        if op == "add":
            r = a + b
        elif op == "sub":
            r = a - b
        elif op == "neg":
            r = -a
        else:
            r = Dagger(a)
        return ["ok", from_impl(r)]
    except Exception as e:  # noqa: BLE001
        return ["err", type(e).__name__]


def coq_term_sop(op, x, y, out):
    if out[0] == "ok":
        exp = "(SOk %s)" % cval(out[1])
    else:
        exp = "(SErr %s)" % {"TypeError": "TypeError", "SympifyError": "SympifyError"}.get(out[1], "(UserError 0)")
    return "check_sop %s %s %s %s" % (SOPS[op], cval(x), cval(y), exp)


def nontrivial(case, out):
    """rule: some requested product element needed at least two non-zero terms or a Hermitian shortcut,
    i.e. the eval log has >= 4 factor calls, and some returned value is not a sentinel"""
    if "obs" not in out:
        return False
    vals = [o for o in out["obs"] if o[0] == "get" and o[1][0] == "ok" and isinstance(o[1][1], list)]
    return len(out["calls"]) >= 4 and len(vals) >= 1


def tie_cauchydot(ctx, ncases=None):
    n = ncases or ctx.n(120, 2400)
    rng = ctx.rng
    cases, outs, terms, owner = [], [], [], []
    dist = {}
    disagreements = []
    for _ in range(n):
        case = gen_case(rng)
        try:
            out = run_impl(case)
        except Exception as e:  # noqa: BLE001  (harness-level failure: report, do not hide)
            disagreements.append(dict(what="implementation run crashed in the harness: %r" % (e,), input=case))
            continue
        if "construct_error" in out and out["construct_error"] != "ValueError":
            disagreements.append(dict(what="cauchy_dot_product raised %s at construction (model: ValueError)" % out["construct_error"], input=case, impl=out))
        for t in coq_terms(case, out):
            terms.append(t)
            owner.append(len(cases))
        cases.append(case)
        outs.append(out)
        key = "%s/f%d/p%d/%s" % (case["kind"], len(case["tables"]), case["nparam"], "herm" if case["herm"] else "plain")
        dist[key] = dist.get(key, 0) + 1
        dist["fmt:" + case["fmt"]] = dist.get("fmt:" + case["fmt"], 0) + 1
        if "construct_error" in out:
            dist["construct_ValueError"] = dist.get("construct_ValueError", 0) + 1
        # product_by_order called directly (operator=None) on fresh copies of the first two factors
        if "construct_error" not in out and case["kind"] != "bad_construct" and rng.random() < 0.3:
            sub = dict(case, tables=case["tables"][:2], data=case["data"][:2], heads=case["heads"][:2])
            h = sub["heads"]
            idx = [rng.randrange(h[0]["shape"][0]), rng.randrange(h[1]["shape"][1])] + [rng.randint(0, n_) for n_ in case["N"]]
            herm = rng.random() < 0.4
            try:
                po = run_pbo_direct(sub, idx, herm)
            except Exception as e:  # noqa: BLE001
                disagreements.append(dict(what="direct product_by_order run crashed in the harness: %r" % (e,), input=sub))
                continue
            terms.append(coq_term_pbo(sub, idx, herm, po))
            owner.append(len(cases))
            cases.append(dict(sub, kind="pbo_direct", index=idx, pbo_herm=herm))
            outs.append(po)
            dist["pbo_direct"] = dist.get("pbo_direct", 0) + 1
    # sentinel arithmetic (Sentinel.v): zero/one/array combinations of + - unary- Dagger
    vals = ["zero", "one", rand_val(rng), rand_val(rng)]
    for op in SOPS:
        for x in vals:
            for y in (vals if op in ("add", "sub") else ["zero"]):
                so = run_sop(op, x, y)
                terms.append(coq_term_sop(op, x, y, so))
                owner.append(len(cases))
                cases.append(dict(kind="sentinel_op", op=op, x=x, y=y))
                outs.append(so)
    dist["sentinel_op"] = len(SOPS) and sum(1 for c in cases if c["kind"] == "sentinel_op")
    bad = core.coq_eval_cases("k_cauchydot", HEADER, terms, shard=ctx.n(25, 75), jobs=ctx.n(8, 16))
    for i in sorted({owner[b] for b in bad}):
        disagreements.append(dict(what="model and implementation differ (%s)" % ("values / eval log / cache keys / product head" if "script" in cases[i] else cases[i]["kind"]), input=cases[i], impl=outs[i], model="see replay: coq term false"))
    seen = set()
    for c, o in zip(cases, outs):
        if "script" in c and nontrivial(c, o):
            seen.add(core.sha(core.canon(c))[:16])
    excs = {}
    for o in outs:
        for ob in (o.get("obs", []) if isinstance(o, dict) else []):
            if ob[0] == "get" and ob[1][0] == "exc":
                excs[ob[1][1]] = excs.get(ob[1][1], 0) + 1
    dist["exceptions_observed"] = excs
    return dict(
        cases=len(cases),
        nontrivial=len(seen),
        rule="distinct cases whose eval log has >= 4 calls and that returned at least one non-sentinel value",
        samples=[dict(case=c, impl=o) for c, o in list(zip(cases, outs)) if "script" in c][:2],
        distribution=dist,
        disagreements=disagreements,
    )
