"""Correspondence harness: Coq model PV.NOF.Model  vs  pymablock.number_ordered_form.

tie_nof(ctx)  : random expression trees are evaluated with the real NumberOrderedForm API and
                with the model's [teval]; the resulting term dictionaries {powers -> coefficient}
                are compared after evaluating the coefficients on a grid of occupation numbers
                (keys must coincide exactly; values exactly, Gaussian rationals).
                A second family compares from_expr(<whole sympy expression>) semantically
                (a missing key counts as coefficient zero), since sympy reorders / pre-simplifies.
tie_mask(ctx), oracle_mask(ctx) : see the C07 section at the end.
"""

import json
import multiprocessing
import time

from vlib import core
from harness import nof_common as nc


# ---------------------------------------------------------------------------
# case generation


def _ops_word(rng, modes, n, left):
    atoms = [["op", rng.randrange(len(modes)), rng.randint(0, 1)] for _ in range(n)]
    if rng.random() < 0.3:
        atoms[rng.randrange(n)] = nc.rand_numfun(rng, modes, 0)
    if left:
        t = atoms[0]
        for a in atoms[1:]:
            t = ["mul", t, a]
    else:
        t = atoms[-1]
        for a in reversed(atoms[:-1]):
            t = ["mul", a, t]
    return t


WITNESSES = [
    # the three defects repaired by fix: commits (7b3f9ab, 63f1ea6, b7cf6e5) stay covered
    dict(modes=["B"], tree=["mul", ["mul", ["num", 0], ["pow", ["op", 0, 0], 2]], ["op", 0, 1]], grid=[[0], [1], [2], [3]], kind="witness"),
    dict(modes=["F", "F"], tree=["mul", ["op", 1, 1], ["mul", ["op", 0, 0], ["op", 1, 0]]], grid=[[0, 0], [0, 1], [1, 0], [1, 1]], kind="witness"),
    dict(modes=["F"], tree=["mul", ["mul", ["add", ["num", 0], ["const", "2", "0"]], ["op", 0, 0]], ["op", 0, 1]], grid=[[0], [1]], kind="witness"),
]


for _m, _t in nc.POWTERM_WITNESSES:  # integer powers of single-term forms: through x**k and through from_expr
    WITNESSES.append(dict(modes=_m, tree=_t, grid=[[0], [1], [2], [3]] if _m == ["B"] else [[-2], [0], [1], [3]], kind="witness"))
    WITNESSES.append(dict(modes=_m, tree=_t, grid=[[0], [1], [2], [3]] if _m == ["B"] else [[-2], [0], [1], [3]], kind="whole"))


def _bin_grid(modes):
    import itertools
    pts = []
    for conf in itertools.product((0, 1), repeat=sum(m in "SF" for m in modes)):
        it = iter(conf)
        pts.append([next(it) if m in "SF" else 1 for m in modes])
    return pts[:8]


for _m, _l, _r in nc.SIGN_WITNESSES:  # spin modes next to fermions: every branch of the fermionic sign rule
    WITNESSES.append(dict(modes=_m, tree=["mul", _l, _r], grid=_bin_grid(_m), kind="witness"))


WITNESSES.append(  # finding D25: (a + f† N_f) + form; the vanishing term f† N_f used to hide the operator f from find_operators
    dict(modes=["B", "F"], tree=["add", ["add", ["op", 0, 0], ["mul", ["op", 1, 1], ["num", 1]]], ["mul", ["num", 0], ["op", 1, 0]]],
         grid=[[0, 0], [1, 1], [2, 0], [3, 1]], kind="mixed",
         mixed=dict(x=["mul", ["num", 0], ["op", 1, 0]], e=["add", ["op", 0, 0], ["mul", ["op", 1, 1], ["num", 1]]], op="radd")))


for _m, _l, _r in nc.LADDER_WITNESSES:  # ladder modes: creation/annihilation powers around a function of N_m
    WITNESSES.append(dict(modes=_m, tree=["mul", _l, _r], grid=[[v] * len(_m) for v in (-2, 0, 1, 3)], kind="witness"))


def gen_case(rng, kind=None):
    modes = nc.rand_modes(rng)
    kind = kind or rng.choice(
        ["mul", "mul", "fermi", "fermi", "assocL", "assocR", "sum", "adj", "pow", "powterm", "powterm", "mulsum", "whole", "whole", "roundtrip",
         "negpow", "mixed", "ladder", "ladder"]
    )
    if kind == "ladder":
        modes, l, r = nc.rand_ladder_pair(rng)
        return dict(modes=modes, tree=["mul", l, r], grid=nc.rand_grid(rng, modes, 5), kind="ladder" if rng.random() < 0.7 else "whole")
    if kind == "negpow":
        # negative integer powers of particle-conserving forms and __truediv__ by them (l. 1556-1575)
        f = nc.rand_numfun(rng, modes, 1)
        w = nc.rand_sum(rng, modes, 2, 2)
        r = rng.random()
        if r < 0.35:
            t = ["div", w, f]
        elif r < 0.55:
            t = ["div", w, nc.rand_const(rng)]
        elif r < 0.8:
            t = ["mul", w, ["pow", f, rng.choice([-1, -2])]]
        else:
            t = ["mul", ["pow", f, rng.choice([-1, -2, -3])], w]
        return dict(modes=modes, tree=t, grid=nc.rand_grid(rng, modes, 6), kind="negpow")
    if kind == "mixed":
        # arithmetic of a form with a PLAIN sympy expression on either side (__radd__, __rmul__, __add__/__sub__/__mul__
        # converting the other operand with from_expr)
        x, e = nc.rand_sum(rng, modes, 2, 2), nc.rand_sum(rng, modes, 2, 2)
        op = rng.choice(["radd", "add", "sub", "rmul", "mul"])
        t = {"radd": ["add", e, x], "add": ["add", x, e], "sub": ["sub", x, e], "rmul": ["mul", e, x], "mul": ["mul", x, e]}[op]
        return dict(modes=modes, tree=t, grid=nc.rand_grid(rng, modes, 5), kind="mixed", mixed=dict(x=x, e=e, op=op))
    if kind == "powterm":
        # x**k of a single-term form with a number-dependent coefficient, half of them through from_expr of the
        # sympy Pow with a compound base (kind "whole")
        modes, t = nc.rand_powterm(rng)
        if rng.random() < 0.3:
            t = ["mul", t, nc.rand_word(rng, modes, 1)]
        return dict(modes=modes, tree=t, grid=nc.rand_grid(rng, modes, 5), kind="powterm" if rng.random() < 0.5 else "whole")
    if kind == "fermi":
        # several fermionic modes, right factor with >= 2 operators (the order of the annihilation pass and
        # the preceding_fermions counting only matter here)
        modes = sorted(["F"] * rng.randint(2, 3) + [rng.choice("BLSF")] * rng.randint(0, 1), key=nc.KIND_ORDER.index)
        t = ["mul", _ops_word(rng, modes, rng.randint(1, 3), True), _ops_word(rng, modes, rng.randint(2, 3), rng.random() < 0.3)]
    elif kind == "mul":
        t = ["mul", nc.rand_word(rng, modes, 3), nc.rand_word(rng, modes, 3)]
    elif kind == "assocL":
        t = ["mul", ["mul", nc.rand_word(rng, modes, 2), nc.rand_word(rng, modes, 2)], nc.rand_word(rng, modes, 2)]
    elif kind == "assocR":
        t = ["mul", nc.rand_word(rng, modes, 2), ["mul", nc.rand_word(rng, modes, 2), nc.rand_word(rng, modes, 2)]]
    elif kind == "sum":
        t = [rng.choice(["add", "sub"]), nc.rand_sum(rng, modes, 2, 3), nc.rand_sum(rng, modes, 2, 3)]
    elif kind == "adj":
        t = ["adj", nc.rand_sum(rng, modes, 2, 3)]
        if rng.random() < 0.5:
            t = ["mul", t, nc.rand_word(rng, modes, 2)]
    elif kind == "pow":
        t = ["pow", nc.rand_sum(rng, modes, 2, 2), rng.choice([0, 2, 2, 3])]
    elif kind == "mulsum":
        t = ["mul", nc.rand_sum(rng, modes, 2, 2), nc.rand_sum(rng, modes, 2, 2)]
    elif kind == "roundtrip":
        # the model re-multiplies every node of the coefficient expression (each product linearises the binary
        # number operators again), so keep at most one spin/fermion mode and small expressions
        modes = sorted([rng.choice("BBL") for _ in range(rng.randint(0, 2))] + [rng.choice("BLSF")], key=nc.KIND_ORDER.index)
        t = ["mul", nc.rand_sum(rng, modes, 2, 2), nc.rand_word(rng, modes, 2)] if rng.random() < 0.4 else nc.rand_sum(rng, modes, 2, 2)
    else:  # whole
        t = nc.rand_sum(rng, modes, 3, 4)
        if rng.random() < 0.3:
            t = ["adj", t] if rng.random() < 0.5 else ["pow", nc.rand_sum(rng, modes, 2, 2), 2]
    if rng.random() < 0.15 and kind not in ("whole", "roundtrip"):
        t = ["neg", t]
    grid = nc.rand_grid(rng, modes, 5)
    return dict(modes=modes, tree=t, grid=grid, kind=kind)


def run_impl(case):
    """Returns (obs dict, exact flag) or raises."""
    ops = nc.make_ops(case["modes"])
    if case["kind"] == "whole":
        expr = nc.to_sympy(case["tree"], ops)
        x = nc.NumberOrderedForm.from_expr(expr, operators=ops)
        exact = False
    elif case["kind"] == "mixed":
        m = case["mixed"]
        X, E = nc.build_impl(m["x"], ops), nc.to_sympy(m["e"], ops)
        x = {"radd": lambda: E + X, "add": lambda: X + E, "sub": lambda: X - E, "rmul": lambda: E * X, "mul": lambda: X * E}[m["op"]]()
        if not isinstance(x, nc.NumberOrderedForm):
            raise TypeError("%s of a NumberOrderedForm and a sympy expression returned %s" % (m["op"], type(x).__name__))
        exact = False
    elif case["kind"] == "roundtrip":
        x0 = nc.build_impl(case["tree"], ops)
        x = nc.NumberOrderedForm.from_expr(x0.as_expr(), operators=ops)
        exact = False
    else:
        x = nc.build_impl(case["tree"], ops)
        exact = True
    return nc.observe(x, ops, case["grid"]), exact


class SkipCase(Exception):
    pass


def _impl_worker(case):
    try:
        t0 = time.time()
        obs, exact = run_impl(case)
        return dict(ok=True, obs=[(list(k), v) for k, v in obs.items()], exact=exact, dt=time.time() - t0)
    except SkipCase as e:
        return dict(ok=False, skip=True, err=str(e))
    except Exception as e:  # noqa: BLE001
        return dict(ok=False, err="%s: %s" % (type(e).__name__, str(e)[:300]))


def coq_expr(t):
    """tree -> PV.NOF.FromExpr.expr, the way sympy represents it (a - b = a + (-1)*b, -a = (-1)*a)"""
    k = t[0]
    if k == "op":
        return "(EOp %d %s)" % (t[1], "true" if t[2] else "false")
    if k == "num":
        return "(ENum %d)" % t[1]
    if k == "const":
        re, im = nc.gconst(t)
        return "(EConst %s)" % nc.cg(re, im)
    if k == "neg":
        return "(EMul (EConst (gopp g1)) %s)" % coq_expr(t[1])
    if k == "adj":
        return "(EDag %s)" % coq_expr(t[1])
    if k == "pow":
        return "(EPow %s %d)" % (coq_expr(t[1]), t[2])
    if k == "sub":
        return "(EAdd %s (EMul (EConst (gopp g1)) %s))" % (coq_expr(t[1]), coq_expr(t[2]))
    return "(%s %s %s)" % ({"mul": "EMul", "add": "EAdd"}[k], coq_expr(t[1]), coq_expr(t[2]))


def coq_case(case, obs, exact):
    if case["kind"] == "whole":  # model of from_expr on the expression AST
        return "check_fromexpr %s %s %s %s" % (
            nc.coq_sig(case["modes"]), coq_expr(case["tree"]), nc.clist([nc.coq_occ(p) for p in case["grid"]]), nc.coq_obs(obs))
    if case["kind"] == "roundtrip":  # from_expr(x.as_expr())
        return "check_roundtrip %s %s %s %s" % (
            nc.coq_sig(case["modes"]), nc.coq_tree(case["tree"]), nc.clist([nc.coq_occ(p) for p in case["grid"]]), nc.coq_obs(obs))
    return "check_tree %s %s %s %s %s" % (
        nc.coq_sig(case["modes"]),
        nc.coq_tree(case["tree"]),
        nc.clist([nc.coq_occ(p) for p in case["grid"]]),
        nc.coq_obs(obs),
        "true" if exact else "false",
    )


def replay_case(case):
    """Re-run one case on implementation and model; True when they still disagree."""
    print("expression:", nc.tree_str(case["tree"], case["modes"]), " modes:", "".join(case["modes"]), " kind:", case["kind"])
    r = _impl_worker(case)
    if not r["ok"]:
        print("implementation raised:", r["err"])
        return True
    obs = {tuple(k): [None if v is None else tuple(v) for v in vals] for k, vals in r["obs"]}
    for k, v in obs.items():
        print("  impl term", k, "->", ["undef" if x is None else "%s%+si" % x for x in v])
    bad = core.coq_eval_cases("k_nof_replay", nc.COQ_HEADER, [coq_case(case, obs, r["exact"])])
    print("model agrees" if not bad else "model DISAGREES")
    return bool(bad)


def nontrivial_key(case):
    """A case is non-trivial if it multiplies, has >= 2 operator leaves, and is not a duplicate."""
    ops = nc.tree_ops(case["tree"])
    return ops.get("mul", 0) >= 1 and ops.get("op", 0) >= 2


def tie_nof(ctx, ncases=None):
    n = ncases or ctx.n(150, 3000)
    cases = [dict(w) for w in WITNESSES] + [gen_case(ctx.rng) for _ in range(n)]
    # bound the size: sympy's cost explodes with binary modes (linearisation doubles coefficients)
    cases = [c for c in cases if nc.tree_size(c["tree"]) <= 40]
    with multiprocessing.Pool(8 if ctx.quick else 16) as pool:
        res = pool.map(_impl_worker, cases, chunksize=1)
    terms, kept, disagreements = [], [], []
    dist = {}
    for c, r in zip(cases, res):
        if not r["ok"]:
            if r.get("skip"):
                dist["skipped"] = dist.get("skipped", 0) + 1
                continue
            disagreements.append(dict(what="implementation raised on a valid expression", input=c, impl=r["err"], model="Ok"))
            continue
        obs = {tuple(k): [None if v is None else tuple(v) for v in vals] for k, vals in r["obs"]}
        terms.append(coq_case(c, obs, r["exact"]))
        kept.append(c)
        key = "%s/%s" % (c["kind"], "".join(c["modes"]))
        dist[c["kind"]] = dist.get(c["kind"], 0) + 1
    # NumberOrderedForm.filter_terms (multi-condition, multi-mode reference powers incl. symbolic ones) vs PV.NOF.Mask
    fcases = [dict(w) for w in FILTER_WITNESSES] + [gen_filter_case(ctx.rng) for _ in range(ctx.n(20, 400))]
    with multiprocessing.Pool(8 if ctx.quick else 16) as pool:
        fres = pool.map(_filter_worker, fcases, chunksize=1)
    nmain = len(terms)
    fkept = []
    for c, r in zip(fcases, fres):
        if not r["ok"]:
            disagreements.append(dict(what="filter_terms raised: " + mask_str(c), input=dict(kind="filter", case=c), impl=r["err"], model="Ok"))
            continue
        terms.append(coq_mask_case(c, r["keys"]))
        fkept.append((c, r))
        dist["filter"] = dist.get("filter", 0) + 1
    bad = core.coq_eval_cases("k_nof", MASK_HEADER, terms, shard=max(10, len(terms) // 8 + 1), jobs=8 if ctx.quick else 16)
    for i in bad:
        if i >= nmain:
            c, r = fkept[i - nmain]
            disagreements.append(dict(what="terms kept by filter_terms differ from the model (PV.NOF.Mask): " + mask_str(c),
                                      input=dict(kind="filter", case=c), impl=r["keys"], model="check_mask = false"))
            continue
        c = kept[i]
        disagreements.append(
            dict(
                what="term dictionary of the model differs from NumberOrderedForm: %s" % nc.tree_str(c["tree"], c["modes"]),
                input=c,
                impl=res[cases.index(c)]["obs"],
                model="check_tree = false",
            )
        )
    distinct = {core.canon([c["modes"], c["tree"]]) for c in kept if nontrivial_key(c)}
    distinct |= {core.canon([c["modes"], c["x"], c["conds"], c["keep"]]) for c, r in fkept if 0 < len(r["keys"]) < r["nterms"]}
    stat_modes = {}
    for c in kept:
        for m in set(c["modes"]):
            stat_modes[m] = stat_modes.get(m, 0) + 1
    return dict(
        cases=len(kept) + len(fkept),
        nontrivial=len(distinct),
        rule="distinct (modes, tree) with at least one product and two operator leaves; plus distinct filter_terms cases "
        "that keep some but not all terms",
        samples=[dict(modes=c["modes"], expr=nc.tree_str(c["tree"], c["modes"]), kind=c["kind"]) for c in kept[:5]],
        distribution=dict(kinds=dist, cases_with_mode_kind=stat_modes, n_modes={k: sum(1 for c in kept if len(c["modes"]) == k) for k in (1, 2, 3, 4)}),
        disagreements=disagreements,
    )


# ---------------------------------------------------------------------------
# C07: apply_mask_to_operator  (model PV.NOF.Mask)

from pymablock.second_quantization import apply_mask_to_operator  # noqa: E402

_NSYM = nc.sympy.Symbol("n", positive=True, integer=True)
MASK_HEADER = nc.COQ_HEADER + "Require Import PV.NOF.Mask.\n"


def rand_pat(rng, binary):
    """condition entry: ["eq", k] | ["gt", k] (k + n) | ["lt", k] (k - n)"""
    if binary:
        return ["eq", rng.choice([0, 0, 1, -1])]
    r = rng.random()
    if r < 0.7:
        return ["eq", rng.choice([0, 0, 0, 1, -1, 2, -2, 3])]
    return [rng.choice(["gt", "lt"]), rng.choice([-1, 0, 0, 1, 2])]


def pat_opp(p):
    return {"eq": ["eq", -p[1]], "gt": ["lt", -p[1]], "lt": ["gt", -p[1]]}[p[0]]


def gen_mask_case(rng):
    modes = nc.rand_modes(rng, 1, 3)
    x = nc.rand_sum(rng, modes, 4, 3)
    y = nc.rand_sum(rng, modes, 3, 3)
    ops = nc.make_ops(modes)
    # conditions: some taken from the keys that actually occur (so that the mask selects something)
    keys = [tuple(int(p) for p in k) for k, _ in nc.build_impl(["add", x, y], ops).args[1]]
    conds = []
    for _ in range(rng.choice([0, 1, 2, 2, 3])):
        if keys and rng.random() < 0.85:
            k = rng.choice(keys)
            c = [["eq", v] for v in k]
            if rng.random() < 0.3:
                i = rng.randrange(len(modes))
                if modes[i] in "BL":
                    c[i] = ["gt", k[i] - 1] if rng.random() < 0.5 else ["lt", k[i] + 1]
        else:
            c = [rand_pat(rng, m in "SF") for m in modes]
        conds.append(c)
    if rng.random() < 0.4:  # close under negation of powers
        conds = conds + [[pat_opp(p) for p in c] for c in conds]
    # dict keys must be distinct
    uniq = []
    for c in conds:
        if c not in uniq:
            uniq.append(c)
    return dict(modes=modes, x=x, y=y, conds=uniq, keep=rng.random() < 0.5)


def sym_pat(p):
    return {"eq": nc.sympy.Integer(p[1]), "gt": p[1] + _NSYM, "lt": p[1] - _NSYM}[p[0]]


def impl_mask(nof, conds, keep, ops):
    M = nc.sympy.Matrix([[nof]]) if not isinstance(nof, nc.sympy.MatrixBase) else nof
    if conds:
        mask = nc.NumberOrderedForm(ops, {tuple(sym_pat(p) for p in c): nc.sympy.S.One for c in conds})
    else:
        mask = nc.sympy.S.Zero
    r = apply_mask_to_operator(M, nc.sympy.Matrix([[mask]]), keep=keep)[0, 0]
    if not isinstance(r, nc.NumberOrderedForm):
        r = nc.NumberOrderedForm.from_expr(nc.sympy.sympify(r), operators=ops)
        if r.args[1] and all(c == 0 for _, c in r.args[1]):  # the literal 0 of an untouched matrix element
            r = nc.NumberOrderedForm(ops, {}, validate=False)
    return nc.expand_to(r, ops)


def _mask_worker(case):
    try:
        ops = nc.make_ops(case["modes"])
        x = nc.build_impl(case["x"], ops)
        if x.is_zero:
            # every coefficient is sympy's literal 0: a sympy Matrix stores such an element as the number 0
            # (the term list is lost), so there are no keys to compare; the operator is zero on both sides
            return dict(ok=True, skip=True, keys=[], nterms=len(x.args[1]))
        r = impl_mask(x, case["conds"], case["keep"], ops)
        return dict(ok=True, keys=[[int(p) for p in k] for k, _ in r.args[1]], nterms=len(x.args[1]))
    except Exception as e:  # noqa: BLE001
        return dict(ok=False, err="%s: %s" % (type(e).__name__, str(e)[:300]))


def coq_pat(p):
    return "(%s %s)" % ({"eq": "PEq", "gt": "PGt", "lt": "PLt"}[p[0]], nc.cz(p[1]))


def coq_mask_case(case, keys):
    return "check_mask %s %s %s %s %s" % (
        nc.coq_sig(case["modes"]),
        nc.coq_tree(case["x"]),
        nc.clist([nc.clist([coq_pat(p) for p in c]) for c in case["conds"]]),
        "true" if case["keep"] else "false",
        nc.clist([nc.clist([nc.cz(v) for v in k]) for k in keys]),
    )


def mask_str(c):
    def ps(p):
        return {"eq": "%d", "gt": "%d+n", "lt": "%d-n"}[p[0]] % p[1]
    return "modes=%s keep=%s x=%s mask=%s" % ("".join(c["modes"]), c["keep"], nc.tree_str(c["x"], c["modes"]),
                                             [tuple(ps(p) for p in cond) for cond in c["conds"]])


def tie_mask(ctx, ncases=None):
    n = ncases or ctx.n(80, 1500)
    cases = [gen_mask_case(ctx.rng) for _ in range(n)]
    with multiprocessing.Pool(8 if ctx.quick else 16) as pool:
        res = pool.map(_mask_worker, cases, chunksize=1)
    terms, kept, disagreements = [], [], []
    skipped = 0
    for c, r in zip(cases, res):
        if not r["ok"]:
            disagreements.append(dict(what="apply_mask_to_operator raised: " + mask_str(c), input=dict(kind="mask", case=c), impl=r["err"], model="Ok"))
            continue
        if r.get("skip"):
            skipped += 1
            continue
        terms.append(coq_mask_case(c, r["keys"]))
        kept.append((c, r))
    bad = core.coq_eval_cases("k_mask", MASK_HEADER, terms, shard=max(10, len(terms) // 8 + 1), jobs=8 if ctx.quick else 16)
    for i in bad:
        c, r = kept[i]
        disagreements.append(dict(what="kept keys differ between model and apply_mask_to_operator: " + mask_str(c),
                                  input=dict(kind="mask", case=c), impl=r["keys"], model="check_mask = false"))
    nontrivial = {core.canon([c["modes"], c["x"], c["conds"], c["keep"]]) for c, r in kept if 0 < len(r["keys"]) < r["nterms"]}
    return dict(
        cases=len(kept),
        nontrivial=len(nontrivial),
        rule="distinct (modes, x, mask, keep) where the mask keeps some but not all terms of x",
        samples=[mask_str(c) for c, _ in kept[:4]],
        distribution=dict(symbolic=sum(1 for c, _ in kept if any(p[0] != "eq" for cond in c["conds"] for p in cond)),
                          empty_mask=sum(1 for c, _ in kept if not c["conds"]), keep_true=sum(1 for c, _ in kept if c["keep"]),
                          skipped_zero_operator=skipped),
        disagreements=disagreements,
    )


def mask_law_failures(case):
    """additivity, idempotence, keep/discard partition, adjoint (negation-closed masks): implementation only,
    compared as term dictionaries evaluated on a grid (a missing key = coefficient 0)."""
    import random as _r

    ops = nc.make_ops(case["modes"])
    conds, keep = case["conds"], case["keep"]
    x, y = nc.build_impl(case["x"], ops), nc.build_impl(case["y"], ops)
    grid = nc.rand_grid(_r.Random(core.canon(case)), case["modes"], 4)

    def same(a, b):
        oa, ob = nc.observe(a, ops, grid), nc.observe(b, ops, grid)
        zero = [(0, 0)] * len(grid)
        for k in set(oa) | set(ob):
            va = [(0, 0) if v is None else tuple(v) for v in oa.get(k, zero)]
            vb = [(0, 0) if v is None else tuple(v) for v in ob.get(k, zero)]
            if va != vb:
                return False
        return True

    m = lambda z, kp=keep: impl_mask(z, conds, kp, ops)  # noqa: E731
    fails = []
    if not same(m(x + y), m(x) + m(y)):
        fails.append("additivity")
    if not same(m(m(x)), m(x)):
        fails.append("idempotence")
    if not same(m(x, True) + m(x, False), nc.expand_to(x, ops)):
        fails.append("keep=True part + keep=False part != operator")
    closed = all([pat_opp(p) for p in c] in conds for c in conds)
    if closed and not same(m(nc.Dagger(x)), nc.Dagger(m(x))):
        fails.append("does not commute with the adjoint although the mask is closed under negation")
    return [dict(what="apply_mask_to_operator: %s fails for %s" % (f, mask_str(case)), input=dict(kind="mask", case=case)) for f in fails]


def _mask_law_worker(case):
    try:
        return mask_law_failures(case)
    except Exception as e:  # noqa: BLE001
        return [dict(what="oracle_mask crashed on %s: %s: %s" % (mask_str(case), type(e).__name__, str(e)[:200]), input=dict(kind="mask", case=case), crash=True)]


def oracle_mask(ctx, ncases=None):
    n = ncases or ctx.n(40, 800)
    cases = [gen_mask_case(ctx.rng) for _ in range(n)]
    with multiprocessing.Pool(8 if ctx.quick else 16) as pool:
        res = pool.map(_mask_law_worker, cases, chunksize=1)
    return dict(
        evaluations=4 * len(cases),
        nontrivial=len({core.canon(c) for c in cases if c["conds"]}),
        rule="distinct (modes, x, y, mask, keep) with a non-empty mask; four laws each",
        samples=[mask_str(c) for c in cases[:3]],
        failures=[f for r in res for f in r],
    )


def replay_mask(case):
    print(mask_str(case))
    r = _mask_worker(case)
    if not r["ok"]:
        print("implementation raised:", r["err"])
        return True
    print("kept keys:", r["keys"])
    bad = core.coq_eval_cases("k_mask_replay", MASK_HEADER, [coq_mask_case(case, r["keys"])])
    print("model agrees" if not bad else "model DISAGREES")
    laws = mask_law_failures(case)
    for f in laws:
        print(f["what"])
    return bool(bad) or bool(laws)


# ---------------------------------------------------------------------------
# NumberOrderedForm.filter_terms directly (C08 tie): conditions that differ in several modes


def gen_filter_case(rng):
    modes = sorted([rng.choice("BBL"), rng.choice("BLSF")] + [rng.choice("BLSF")] * rng.randint(0, 1), key=nc.KIND_ORDER.index)
    x = nc.rand_sum(rng, modes, 4, 3)
    if rng.random() < 0.6:  # make sure cross terms of two modes occur
        i, j = rng.sample(range(len(modes)), 2)
        x = ["add", x, ["add", ["mul", ["op", i, 1], ["op", j, 0]], ["mul", ["op", i, 0], ["op", j, rng.randint(0, 1)]]]]
    ops = nc.make_ops(modes)
    keys = [tuple(int(p) for p in k) for k, _ in nc.build_impl(x, ops).args[1]]
    conds = []
    for _ in range(rng.randint(2, 4)):
        if keys and rng.random() < 0.8:
            k = list(rng.choice(keys))
            if rng.random() < 0.4:  # recombine the powers of two existing terms: matches only if the matcher works per MODE
                k2 = rng.choice(keys)
                m = rng.randrange(len(modes))
                k[m] = k2[m]
            c = [["eq", v] for v in k]
            if rng.random() < 0.3:
                i = rng.randrange(len(modes))
                if modes[i] in "BL":
                    c[i] = ["gt", k[i] - 1] if rng.random() < 0.5 else ["lt", k[i] + 1]
        else:
            c = [rand_pat(rng, m in "SF") for m in modes]
        if c not in conds:
            conds.append(c)
    return dict(modes=modes, x=x, y=["const", "0", "0"], conds=conds, keep=rng.random() < 0.5)


FILTER_WITNESSES = [
    # conditions (1,1), (-1,-1), (1,0), (-1,0): the product of the per-mode powers would also select a b†, a† b
    dict(modes=["B", "B"], x=["add", ["add", ["mul", ["op", 0, 0], ["op", 1, 1]], ["mul", ["op", 0, 1], ["op", 1, 0]]],
                             ["add", ["mul", ["op", 0, 0], ["op", 1, 0]], ["add", ["op", 0, 0], ["num", 1]]]], y=["const", "0", "0"],
         conds=[[["eq", 1], ["eq", 1]], [["eq", -1], ["eq", -1]], [["eq", 1], ["eq", 0]], [["eq", -1], ["eq", 0]]], keep=k) for k in (True, False)
]


def _filter_worker(case):
    try:
        ops = nc.make_ops(case["modes"])
        x = nc.expand_to(nc.build_impl(case["x"], ops), ops)
        r = x.filter_terms(tuple(tuple(sym_pat(p) for p in c) for c in case["conds"]), case["keep"])
        return dict(ok=True, keys=[[int(p) for p in k] for k, _ in r.args[1]], nterms=len(x.args[1]))
    except Exception as e:  # noqa: BLE001
        return dict(ok=False, err="%s: %s" % (type(e).__name__, str(e)[:300]))
