"""Correspondence harness: Coq model PV.NOF.Model  vs  pymablock.number_ordered_form.

tie_nof(ctx)  : random expression trees are evaluated with the real NumberOrderedForm API and
                with the model's [teval]; the resulting term dictionaries {powers -> coefficient}
                are compared after evaluating the coefficients on a grid of occupation numbers
                (keys must coincide exactly; values exactly, Gaussian rationals).
                A second family compares from_expr(<whole sympy expression>) semantically
                (a missing key counts as coefficient zero), since sympy reorders / pre-simplifies.
tie_mask(ctx), oracle_mask(ctx) : see the C07 section at the end.
"""

import json
import multiprocessing
import time

from vlib import core
from harness import nof_common as nc


# ---------------------------------------------------------------------------
# case generation


def _ops_word(rng, modes, n, left):
    atoms = [["op", rng.randrange(len(modes)), rng.randint(0, 1)] for _ in range(n)]
    if rng.random() < 0.3:
        atoms[rng.randrange(n)] = nc.rand_numfun(rng, modes, 0)
    if left:
        t = atoms[0]
        for a in atoms[1:]:
            t = ["mul", t, a]
    else:
        t = atoms[-1]
        for a in reversed(atoms[:-1]):
            t = ["mul", a, t]
    return t


WITNESSES = [
    # the three defects repaired by fix: commits (7b3f9ab, 63f1ea6, b7cf6e5) stay covered
    dict(modes=["B"], tree=["mul", ["mul", ["num", 0], ["pow", ["op", 0, 0], 2]], ["op", 0, 1]], grid=[[0], [1], [2], [3]], kind="witness"),
    dict(modes=["F", "F"], tree=["mul", ["op", 1, 1], ["mul", ["op", 0, 0], ["op", 1, 0]]], grid=[[0, 0], [0, 1], [1, 0], [1, 1]], kind="witness"),
    dict(modes=["F"], tree=["mul", ["mul", ["add", ["num", 0], ["const", "2", "0"]], ["op", 0, 0]], ["op", 0, 1]], grid=[[0], [1]], kind="witness"),
]


def gen_case(rng, kind=None):
    modes = nc.rand_modes(rng)
    kind = kind or rng.choice(
        ["mul", "mul", "fermi", "fermi", "assocL", "assocR", "sum", "adj", "pow", "mulsum", "whole", "whole"]
    )
    if kind == "fermi":
        # several fermionic modes, right factor with >= 2 operators (the order of the annihilation pass and
        # the preceding_fermions counting only matter here)
        modes = sorted(["F"] * rng.randint(2, 3) + [rng.choice("BLSF")] * rng.randint(0, 1), key=nc.KIND_ORDER.index)
        t = ["mul", _ops_word(rng, modes, rng.randint(1, 3), True), _ops_word(rng, modes, rng.randint(2, 3), rng.random() < 0.3)]
    elif kind == "mul":
        t = ["mul", nc.rand_word(rng, modes, 3), nc.rand_word(rng, modes, 3)]
    elif kind == "assocL":
        t = ["mul", ["mul", nc.rand_word(rng, modes, 2), nc.rand_word(rng, modes, 2)], nc.rand_word(rng, modes, 2)]
    elif kind == "assocR":
        t = ["mul", nc.rand_word(rng, modes, 2), ["mul", nc.rand_word(rng, modes, 2), nc.rand_word(rng, modes, 2)]]
    elif kind == "sum":
        t = [rng.choice(["add", "sub"]), nc.rand_sum(rng, modes, 2, 3), nc.rand_sum(rng, modes, 2, 3)]
    elif kind == "adj":
        t = ["adj", nc.rand_sum(rng, modes, 2, 3)]
        if rng.random() < 0.5:
            t = ["mul", t, nc.rand_word(rng, modes, 2)]
    elif kind == "pow":
        t = ["pow", nc.rand_sum(rng, modes, 2, 2), rng.choice([0, 2, 2, 3])]
    elif kind == "mulsum":
        t = ["mul", nc.rand_sum(rng, modes, 2, 2), nc.rand_sum(rng, modes, 2, 2)]
    else:  # whole
        t = nc.rand_sum(rng, modes, 3, 4)
    if rng.random() < 0.15 and kind != "whole":
        t = ["neg", t]
    grid = nc.rand_grid(rng, modes, 5)
    return dict(modes=modes, tree=t, grid=grid, kind=kind)


def run_impl(case):
    """Returns (obs dict, exact flag) or raises."""
    ops = nc.make_ops(case["modes"])
    if case["kind"] == "whole":
        expr = nc.to_sympy(case["tree"], ops)
        x = nc.NumberOrderedForm.from_expr(expr, operators=ops)
        exact = False
    else:
        x = nc.build_impl(case["tree"], ops)
        exact = True
    return nc.observe(x, ops, case["grid"]), exact


def _impl_worker(case):
    try:
        t0 = time.time()
        obs, exact = run_impl(case)
        return dict(ok=True, obs=[(list(k), v) for k, v in obs.items()], exact=exact, dt=time.time() - t0)
    except Exception as e:  # noqa: BLE001
        return dict(ok=False, err="%s: %s" % (type(e).__name__, str(e)[:300]))


def coq_case(case, obs, exact):
    return "check_tree %s %s %s %s %s" % (
        nc.coq_sig(case["modes"]),
        nc.coq_tree(case["tree"]),
        nc.clist([nc.coq_occ(p) for p in case["grid"]]),
        nc.coq_obs(obs),
        "true" if exact else "false",
    )


def replay_case(case):
    """Re-run one case on implementation and model; True when they still disagree."""
    print("expression:", nc.tree_str(case["tree"], case["modes"]), " modes:", "".join(case["modes"]), " kind:", case["kind"])
    r = _impl_worker(case)
    if not r["ok"]:
        print("implementation raised:", r["err"])
        return True
    obs = {tuple(k): [None if v is None else tuple(v) for v in vals] for k, vals in r["obs"]}
    for k, v in obs.items():
        print("  impl term", k, "->", ["undef" if x is None else "%s%+si" % x for x in v])
    bad = core.coq_eval_cases("k_nof_replay", nc.COQ_HEADER, [coq_case(case, obs, r["exact"])])
    print("model agrees" if not bad else "model DISAGREES")
    return bool(bad)


def nontrivial_key(case):
    """A case is non-trivial if it multiplies, has >= 2 operator leaves, and is not a duplicate."""
    ops = nc.tree_ops(case["tree"])
    return ops.get("mul", 0) >= 1 and ops.get("op", 0) >= 2


def tie_nof(ctx, ncases=None):
    n = ncases or ctx.n(150, 3000)
    cases = [dict(w) for w in WITNESSES] + [gen_case(ctx.rng) for _ in range(n)]
    # bound the size: sympy's cost explodes with binary modes (linearisation doubles coefficients)
    cases = [c for c in cases if nc.tree_size(c["tree"]) <= 40]
    with multiprocessing.Pool(8 if ctx.quick else 16) as pool:
        res = pool.map(_impl_worker, cases, chunksize=1)
    terms, kept, disagreements = [], [], []
    dist = {}
    for c, r in zip(cases, res):
        if not r["ok"]:
            disagreements.append(dict(what="implementation raised on a valid expression", input=c, impl=r["err"], model="Ok"))
            continue
        obs = {tuple(k): [None if v is None else tuple(v) for v in vals] for k, vals in r["obs"]}
        terms.append(coq_case(c, obs, r["exact"]))
        kept.append(c)
        key = "%s/%s" % (c["kind"], "".join(c["modes"]))
        dist[c["kind"]] = dist.get(c["kind"], 0) + 1
    bad = core.coq_eval_cases("k_nof", nc.COQ_HEADER, terms, shard=max(10, len(terms) // 8 + 1), jobs=8 if ctx.quick else 16)
    for i in bad:
        c = kept[i]
        disagreements.append(
            dict(
                what="term dictionary of the model differs from NumberOrderedForm: %s" % nc.tree_str(c["tree"], c["modes"]),
                input=c,
                impl=res[cases.index(c)]["obs"],
                model="check_tree = false",
            )
        )
    distinct = {core.canon([c["modes"], c["tree"]]) for c in kept if nontrivial_key(c)}
    stat_modes = {}
    for c in kept:
        for m in set(c["modes"]):
            stat_modes[m] = stat_modes.get(m, 0) + 1
    return dict(
        cases=len(kept),
        nontrivial=len(distinct),
        rule="distinct (modes, tree) with at least one product and two operator leaves",
        samples=[dict(modes=c["modes"], expr=nc.tree_str(c["tree"], c["modes"]), kind=c["kind"]) for c in kept[:5]],
        distribution=dict(kinds=dist, cases_with_mode_kind=stat_modes, n_modes={k: sum(1 for c in kept if len(c["modes"]) == k) for k in (1, 2, 3, 4)}),
        disagreements=disagreements,
    )
