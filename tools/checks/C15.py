"""C15 - covariance under block relabelling, basis-state permutation, rotation inside a degenerate
level, complex conjugation, shift of H_0, positive scaling, direct sums.

Proof: Props/C15.v (LAHom instances + transport by uniqueness; shift/scale/direct sum directly
from the least-action conditions).  Oracle: oracles/o_relations.py on the real implementation.
"""
from oracles import o_relations as R
from checks import C13 as base

RELS = R.C15_RELATIONS
VFILE = "Props/C15.v"


def targeted(ctx):
    ctx.oracle("o_relations[corpus]", R.corpus)
    # numeric (exact-float) problems whose fully diagonalised block has a degenerate level and an unsorted diagonal
    for herm in (True, False):
        ctx.oracle("o_relations[numeric,degenerate unsorted fully-diagonalised block,hermitian=%s]" % herm, R.sweep,
                   ("basis_perm", "relabel", "rotation", "shift", "conjugation", "pos_scale"), ctx.n(6, 40),
                   base.kw_for(ctx, herm, special="degnum"), parallel=True)


def run(ctx):
    return base.run_common(ctx, VFILE, RELS, "the covariance relations", targeted)


def replay(rp):
    return base.replay_common(rp)
