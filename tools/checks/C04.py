"""C04 - Truncated effective Hamiltonian has the exact spectrum to requested order.

proof   : coq/theories/Props/C04.v (MathComp; Spectrum/CharPoly.v)
tie     : harness/k_charpoly.py  - premises and conclusion of C04_charpoly_trunc evaluated inside Coq
                                    (Spectrum/CharPolyExec.v) on the implementation's U, U†, H_tilde
oracle  : oracles/o_charpoly.py  - exact characteristic polynomials + Rayleigh-Schroedinger series,
                                    never looks at U
"""
import json

from vlib import core
from harness import k_charpoly
from oracles import o_charpoly


def classify(failure):
    return None  # no recorded (unrepaired) finding concerns C04: every failure is a violation


def run(ctx):
    ctx.assumptions += [
        "The premises of C04_charpoly_trunc (U†U == 1 and U†HU == H_tilde modulo x^(N+1), entry-wise, for matrices of "
        "polynomials) are the conclusions of C01/C02, proved in a different development (stdlib Ncring, series of "
        "matrices); the identification 'series of matrices = matrix of series' between the two is not formalised "
        "(trusted base). It is tested by k_charpoly, which evaluates these premises inside Coq on the implementation's output.",
        "Several parameters: the theorem is over an arbitrary commutative coefficient ring F; the total-order statement is "
        "its instance F = K[c_1..c_k] under lambda_j := c_j x (comment in Spectrum/CharPoly.v, not a formal statement). The "
        "oracle exercises it with integer scale vectors c (N+1 distinct ratios per two-parameter case in the thorough tier).",
        "Rayleigh-Schroedinger clause: proved as 'the diagonal entry is a root of char_poly H modulo x^(N+1) and the unique "
        "one with its constant term' (C04_rs_diag_block, C04_rs_unique); that the textbook RS recursion/closed formulas "
        "compute that root is tested by the oracle, not proved.",
        "The list-based executable definitions of Spectrum/CharPolyExec.v used by the tie are proved correct against "
        "MathComp (C04_tie_charpoly_correct, C04_tie_premises_sound) for the operations of any comRingType; the tie runs "
        "the same Gallina terms with stdlib Q (Qred after each operation, Qeq_bool), and that this instance is such a "
        "ring is not proved - the tie is a test of the theorem's premises and conclusion under that reading.",
        "Input presentations exercised by the oracle: full matrices with subspace_indices (SymPy, dense ndarray, "
        "csr_array) and - exact-float, tuple-form fully_diagonalize - the Hamiltonian already separated into blocks held as "
        "scipy.sparse csr_matrix / coo_matrix objects (nested lists per order, or a BlockSeries). subspace_eigenvectors "
        "input and implicit mode are not exercised here (C06/C14).",
        "Only Hermitian inputs (hermitian=True). Inputs with H_0 = 0 are rejected by the library (ValueError) and excluded. "
        "Exact arithmetic only: SymPy Gaussian rationals and exact-float (dyadic, energies in {0,1,2}) dense/sparse inputs; "
        "floating-point rounding on generic inputs is outside the statement. One toleranced family: numerical H_0 given as an "
        "unsorted diagonal with a degenerate level in a fully diagonalised block, decimal (non-dyadic) levels and entries; "
        "the implementation's float output is converted exactly and char-poly / RS coefficients are compared up to 1e-9 "
        "relative to the largest reference coefficient (gaps >= 0.4, N <= 3, rounding ~1e-15).",
    ]
    ctx.proof("Props/C04.v")
    ctx.tie("k_charpoly", k_charpoly.tie_charpoly)
    ctx.oracle("o_charpoly", o_charpoly.oracle_charpoly)
    ctx.searcher(o_charpoly.search_charpoly)
    return ctx.finish(classify)


def replay(rp):
    f = rp.get("failure")
    if not f or not isinstance(f.get("input"), dict) or "case" not in f["input"]:
        print("C04 replay: no failing input recorded (kind=%s)." % rp.get("kind"))
        for w in rp.get("no_longer_checks", []):
            print("  no longer checks:", w)
        print("Re-run: tools/check.py C04 --tier quick")
        return 2
    inp = f["input"]
    case = inp["case"]
    scales = inp.get("scales") or [[1] * case["nparam"]]
    if scales and not isinstance(scales[0], list):
        scales = [scales]
    print("C04 replay: %s" % f.get("what"))
    print("case:", json.dumps({k: v for k, v in case.items() if k != "H"}), "H orders:", sorted(case["H"]))
    print("scales (lambda_k := c_k x):", scales)
    r = o_charpoly.eval_case(case, scales)
    if not r["failures"]:
        print("implementation now satisfies C04 on this input (%d evaluations, %d RS states)" % (r["evals"], r["rs_checked"]))
        return 0
    for g in r["failures"]:
        print("STILL FAILS:", g["what"])
        if "expected" in g:
            print("  expected (coefficients of x^0..x^N, [re, im]):", g["expected"])
            print("  observed                                     :", g["observed"])
            if case.get("approx"):  # generic-float family: also show decimals
                from fractions import Fraction as Fr
                fl = lambda poly: [complex(float(Fr(a)), float(Fr(b))) for a, b in poly]
                print("  as floats: expected", fl(g["expected"]), "observed", fl(g["observed"]))
        if g.get("detail"):
            print(g["detail"])
    return 1
