"""C14 - All input formats and eigenbases give the same result."""
from vlib import core
from harness import k_formats
from oracles import o_front


def search(ctx):
    return k_formats.oracle_formats(ctx, ninst=ctx.n(45, 200))["failures"]


def classify(failure):
    return None


def run(ctx):
    ctx.assumptions += [
        "dense, sparse and symbolic values are one model; their equivalence is the correspondence of the three implementations with it (k_formats, exact data)",
        "non-polynomial analytic dependence of a sympy-matrix input (sympy's diff) is outside the model (C14_taylor_partial)",
        "'passing an eigenbasis = rotating first' is taken from the naturality theorem of the algebra layer; here only C14_projection",
        "block_diagonalize consumes only the normalised series (determinism), checked by the pairwise oracle",
    ]
    ctx.proof("Props/C14.v")
    ctx.tie("k_formats", k_formats.tie_formats)
    ctx.oracle("o_formats", o_front.oracle_formats)
    ctx.searcher(search)
    return ctx.finish(classify)


def replay(rp):
    f = rp.get("failure") or {}
    inp = f.get("input") or {}
    if inp.get("kind") == "formats":
        return k_formats.replay_formats(inp)
    print("nothing to replay:", rp.get("kind"), rp.get("no_longer_checks", rp.get("broken")))
    return 1
