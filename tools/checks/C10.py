"""C10 - Results independent of evaluation order/history; returned values not mutated."""
import json

from vlib import core


def run(ctx):
    from harness import k_schedules

    ctx.assumptions += [
        "C10_history is a corollary of soundness (values of the model are immutable); the clause about in-place modification of arrays is enforced by the harness only (read-only flags, deep copies) - partial",
        "slice requests are sequences of element requests (numpy indexing itself is property C19)",
    ]
    ctx.translate()
    ctx.proof("Props/C10.v")
    t = ctx.tie("k_schedules", k_schedules.tie_schedules)
    ctx.oracle("o_schedules", lambda c: dict(evaluations=t.get("cases", 0), nontrivial=t.get("nontrivial", 0),
                                             rule="implementation half of k_schedules: every request has the same value in every permutation / shared-input computation",
                                             samples=[], failures=t.get("impl_failures", [])))
    ctx.oracle("o_schedules_block_diagonalize", k_schedules.oracle_schedules_bd)
    ctx.oracle("o_caller_dict", k_schedules.oracle_caller_dict)
    ctx.oracle("o_user_products", k_schedules.oracle_user_products)
    ctx.oracle("o_sq_masked", k_schedules.oracle_sq_masked)
    ctx.oracle("o_dict_inputs", k_schedules.oracle_dict_inputs)
    return ctx.finish(lambda f: None)


def replay(rp):
    from harness import k_schedules

    f = rp.get("failure")
    if not f or "input" not in f:
        print("nothing to replay (no failing input recorded):", json.dumps(rp.get("no_longer_checks"), indent=1)[:2000])
        return 1
    what = k_schedules.replay_input(f["input"])
    if what:
        print("still failing:", what)
        return 1
    print("no longer failing")
    return 0
