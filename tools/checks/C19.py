"""C19 - BlockSeries indexing follows numpy semantics with exactly-once evaluation."""
import json

from vlib import core
from harness import k_npindex, k_getitem
from oracles import o_series


def classify(failure):
    return None  # no known finding for C19: every failure is a violation


def search_getitem(ctx):
    r = o_series.oracle_getitem(ctx, ncases=ctx.n(1500, 6000))
    return r["failures"]


def run(ctx):
    ctx.assumptions += [
        "np_index (PySeries/Index.v) is a SPECIFICATION of NumPy basic+advanced indexing for ints, lists and forward slices; it is tied to the installed NumPy by k_npindex only (shapes <= 3 dims of extent <= 4)",
        "the Coq models PySeries/{Cache,Index,GetItem}.v are tied to pymablock/series.py only by the differential harness k_getitem (observations, ordered eval log, cache key sets)",
        "evals are modelled as functions that act on caches only through element requests (and pop): hypothesis eval_respects, proved for all evals of the model (tables, views) but an assumption about arbitrary user evals",
        "empty lists on an order dimension (TypeError) and negative slice steps are outside the documented subset",
    ]
    ctx.proof("Props/C19.v")
    ctx.tie("k_npindex", k_npindex.tie_npindex)
    ctx.tie("k_getitem", k_getitem.tie_getitem)
    ctx.oracle("o_getitem", o_series.oracle_getitem)
    ctx.searcher(search_getitem)
    return ctx.finish(classify)


def replay(rp):
    f = rp.get("failure") or {}
    case = f.get("input")
    if not isinstance(case, dict):
        print("replay: no replayable input in", json.dumps(rp)[:300])
        return 2
    if "kind" not in case and "item" in case and "shape" in case and "table" not in case and "base" not in case:  # k_npindex case
        out = k_npindex.run_numpy(case)
        print("numpy:", out)
        bad = core.coq_eval_cases("replay_c19", k_npindex.HEADER, k_npindex.coq_terms(case, out))
        print("np_index agrees with NumPy" if not bad else "np_index specification differs from NumPy")
        return 1 if bad else 0
    if "base" in case:  # k_getitem case: replay the recorded script on the implementation
        import random

        from harness.k_getitem import coq_term

        print("recorded script:", json.dumps(case["script"])[:1500])
        print("recorded observations:", json.dumps(case["obs"])[:1500])
        bad = core.coq_eval_cases("replay_c19", k_getitem.HEADER, [coq_term(case["base"], case["script"], case["obs"], case["calls"], case["keys"], case["visible"])])
        print("model agrees with the recorded observations" if not bad else "model differs from the recorded implementation behaviour")
        return 1 if bad else 0
    fails = o_series.run_c19_case(case)
    for x in fails:
        print(x["what"], "| item", x.get("item"), "| expected", x.get("expected"), "| observed", x.get("observed"))
    if not fails:
        print("no failure: the implementation satisfies the oracle on this input")
    return 1 if fails else 0
