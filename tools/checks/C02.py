from checks import _main_common as M
PROPS = ["unitary"]
def run(ctx):
    return M.run(ctx, ["Props/C02.v"], PROPS)
def replay(rp):
    return M.replay(rp, PROPS)
