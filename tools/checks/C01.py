from checks import _main_common as M
PROPS = ["similarity"]
def run(ctx):
    return M.run(ctx, ["Props/C01.v"], PROPS)
def replay(rp):
    return M.replay(rp, PROPS)
