"""C05 - non-Hermitian mode."""
import random
from checks import _main_common as M
from harness import gen, gq
from oracles import o_main

PROPS = ["similarity", "unitary", "gauge", "coincide"]
KNOWN = "C05-kept-distinct-energies"


def classify(f):
    case = f.get("input")
    if not isinstance(case, dict) or case.get("hermitian", True) or "sub" not in case:
        return None  # (the float family of o_float is generated outside the known class)
    if f.get("prop") not in ("kept", "eliminated", "coincide"):
        return None
    if f.get("prop") == "eliminated" and "H_tilde has an eliminated element" in f.get("what", ""):
        return None
    return KNOWN if o_main.kept_connects_distinct_energies(case) else None


def witness():
    """fixed witness of the known finding: H0 = diag(0,1,3,7), blocks 2|2"""
    rng = random.Random(7)
    n = 4
    E = [gq.G(v) for v in (0, 1, 3, 7)]
    H = {"0": gq.enc(gen.diag_matrix(E)), "1": gq.enc(gen.rand_matrix(rng, n, herm=False, cplx=False))}
    return dict(sub=[0, 0, 1, 1], nparam=1, N=2, H=H, hermitian=False, fully=None, fmt="sympy")


def extra(ctx):
    def o(ctx):
        c = witness()
        fails = o_main.check_case(c, ["similarity"])
        return dict(evaluations=1, nontrivial=1, rule="fixed witness of the known finding C05-kept-distinct-energies", samples=[gen.case_signature(c)], failures=fails[:2])
    ctx.oracle("o_known_witness", o)


def run(ctx):
    ctx.assumptions.append("similarity clauses are proved only under [H_0, S x] = 0 (C05_*_partial); outside it the property is false on the unchanged tree (known finding); the clause 'coincides with Hermitian mode on Hermitian input' is decided by the oracle only")
    return M.run(ctx, ["Props/C05.v"], PROPS, hermitian=False, classify=classify, extra=extra)


def replay(rp):
    return M.replay(rp, PROPS)
