"""C09 - Compiling a series mini-language algorithm preserves its meaning."""
import json

from vlib import core


def run(ctx):
    from harness import k_compile, k_seriescomp
    from oracles import o_interp

    ctx.assumptions += [
        "Coq models DSL/Compile.v (generated code), DSL/Exec.v (series.py run-time) tied to /repo by k_compile (structural) and k_seriescomp (exact values, exception classes)",
        "theorem C09_sound is stated for runs that do not exhaust fuel and for values on which the specification DSL/Interp.v is defined; termination of well-founded programs is not proved (examples by vm_compute)",
        "Hermitian shortcuts: validity (herm_low / herm_diag) is an explicit spec-level hypothesis of C09_sound; for the shipped main algorithm it is proved (C09_sound_main: scope without offdiag, diag commuting with the adjoint, complete zero test)",
        "termination: C09_terminates (stratified alg -> no request run with fuel >= fuel_bound ends with OutOfFuel; both shipped algorithms are stratified by vm_compute); that the outcome is a value rather than a Python exception is not proved",
        "linear-operator mode: aslinearoperator is modelled as the identity on values (second cache table, del_ pops both); not exercised on real LinearOperators by the harness",
        "scope functions dereference a series argument only at the current index (as diag / offdiag of block_diagonalize do)",
    ]
    ctx.translate()
    ctx.proof("Props/C09.v")
    ctx.tie("k_compile", k_compile.tie_compile)
    t = ctx.tie("k_seriescomp", k_seriescomp.tie_seriescomp)
    ctx.oracle("o_multi_requests", lambda c: dict(
        evaluations=t.get("cases", 0), nontrivial=t.get("cases", 0),
        rule="implementation half of k_seriescomp: slice / list requests on every series name equal the scalar requests on a fresh computation and do not raise",
        samples=[], failures=t.get("impl_failures", [])))
    ctx.oracle("o_interp", o_interp.oracle_interp)
    ctx.oracle("o_extras", o_interp.oracle_extras)
    ctx.searcher(search)
    return ctx.finish(lambda f: None)


def search(ctx):
    """deeper sweep with the property oracle after a proof / correspondence break"""
    from oracles import o_interp

    sub = core.Ctx(ctx.prop, "thorough", ctx.seed + 1)
    r = o_interp.oracle_interp(sub)
    return r["failures"]


def replay(rp):
    from oracles import o_interp

    f = rp.get("failure")
    if f and "multi_request" in f.get("input", {}):
        from harness import k_seriescomp

        what = k_seriescomp.replay_multi(f["input"])
        print("still failing: %s" % what if what else "no longer failing")
        return 1 if what else 0
    if f and "extra" in f.get("input", {}):
        fails = o_interp.replay_extra(f["input"])
        print("still failing: %s" % fails[0]["what"] if fails else "no longer failing")
        return 1 if fails else 0
    if not f or "input" not in f or "world" not in f.get("input", {}):
        print("nothing to replay (no failing input recorded):", json.dumps(rp.get("no_longer_checks", rp.get("broken")), indent=1)[:2000])
        return 1
    fails = o_interp.replay_case(f["input"])
    if fails:
        print("still failing:", fails[0]["what"], "\nimpl:", fails[0]["impl"], "\nspec:", fails[0]["spec"])
        return 1
    print("no longer failing")
    return 0
