"""C06 - implicit (incomplete eigenvectors) mode equals the explicit computation."""
from vlib import core
from harness import k_implicit, k_greens, k_projector
from oracles import o_linalg


def classify(f):
    return k_implicit.classify_known(f)


def run(ctx):
    ctx.assumptions += [
        "C06 is decided by: the naturality theorem (Props/C06.v: a structure-preserving embedding maps solutions of the generated programs to solutions, DSL/Natural.v) + C16_direct (the direct solver returns the solution the embedding needs) + C17 (the projector denotes 1 - R L^dagger under every operation); C06_implicit_algebra / C06_implicit_similarity / C06_corner_outputs_correspond (Alg/Corner.v, CornerEmbed.v): the corner e T e of a BlockAlg by a self-adjoint block-diagonal order-zero idempotent is a BlockAlg (so C01/C02 hold for the implicit computation itself) and J x J^dagger for a partial isometry J is a least-action morphism explicit -> implicit, hence the outputs correspond; that diag(1,P) and diag(1,Psi_B) satisfy the listed equations in the algebra of series of matrices is an assumption about the concrete matrices, exercised numerically by k_implicit (partial)",
        "SuperLU / MUMPS solves and the KPM expansion are compared numerically (1e-9*scale for the direct solver on instances with O(1) gaps; 3*atol for KPM)",
    ]
    ctx.proof("Props/C06.v")
    ctx.proof("Props/C16_direct.v")
    ctx.proof("Props/C17.v")
    ctx.tie("k_implicit", k_implicit.tie_implicit)
    ctx.tie("k_greens", k_greens.tie_greens)
    ctx.tie("k_projector", k_projector.tie_projector)
    ctx.oracle("o_implicit_vs_explicit", k_implicit.oracle_implicit)

    def search(c):
        # implicit-vs-explicit first; then the projector and Green's-function oracles (the ties k_projector / k_greens
        # are part of this check, so a break there should come with a failing input too)
        f = [x for x in k_implicit.oracle_implicit(c, ncases=c.n(150, 600))["failures"] if classify(x) is None]
        if not f:
            f = o_linalg.oracle_projector(c)["failures"]
        if not f:
            f = k_greens.oracle_greens(c)["failures"]
        return f
    search.__name__ = "o_implicit_search"
    ctx.searcher(search)
    return ctx.finish(classify)


def replay(rp):
    f = rp.get("failure") or {}
    inp = f.get("input")
    print("C06 replay:", f.get("what"))
    if inp is None:
        print("nothing replayable:", rp.get("no_longer_checks"))
        return 2
    if inp.get("oracle") == "projector":
        return o_linalg.replay_projector(inp)
    if inp.get("oracle") in ("greens", "kpm", "direct_options", "kpm_rescale", "kpm_sylvester"):
        return k_greens.replay(inp)
    return k_implicit.replay(inp)
