"""Shared driver of the checks about the shipped algorithms (C01, C02, C03, C05, C13, C15)."""
import json
from vlib import core
from harness import k_translator, k_semeq, gen, implrun
from oracles import o_main, o_float


def kw_for(ctx, hermitian=True, **over):
    kw = dict(hermitian=hermitian, N=ctx.n(3, 4), max_blocks=ctx.n(3, 4), max_size=3, max_params=2)
    kw.update(over)
    return kw


def run(ctx, vfiles, props, hermitian=True, classify=None, extra=None, ncases=None):
    ctx.assumptions += [
        "exact arithmetic (floating-point rounding not modelled; float inputs are exactly representable by construction)",
        "Coq theorems are about the whole-series semantics DSL/Sem.v of the translated program; the index-level evaluator is tied to the code by the correspondence harnesses of C09/C18",
        "translator tools/translate_algorithms.py validated on every run by a source round trip and a second Coq emitter",
    ]
    ctx.translate()
    ctx.tie("k_translator", k_translator.tie_translator)
    for v in vfiles:
        ctx.proof(v)
    ctx.tie("k_semeq", k_semeq.tie_semeq, hermitian=hermitian)
    if extra:
        extra(ctx)
    n = ncases or ctx.n(36, 480)
    kw = kw_for(ctx, hermitian)
    ctx.oracle("o_main[%s]" % ",".join(props), o_main.sweep, n, props, kw)
    if not ctx.quick:
        ctx.oracle("o_main_3params", o_main.sweep, 160, props, kw_for(ctx, hermitian, N=3, max_blocks=3, max_params=3))
    else:
        ctx.oracle("o_main_3params", o_main.sweep, 8, props, kw_for(ctx, hermitian, N=2, max_blocks=2, max_size=2, max_params=3, min_params=3, offset_prob=0.0))
    ctx.oracle("o_main_families", o_main.sweep, gen.NSPECIAL * ctx.n(1, 6), props, kw_for(ctx, hermitian, N=3, special_all=True))
    fprops = {"similarity": ["kept", "eliminated"], "unitary": ["UdU", "UUd", "adjoint", "Ht_herm"], "gauge": ["gauge"]}
    want = [x for p_ in props for x in fprops.get(p_, [])]
    if want:
        ctx.oracle("o_float", o_float.oracle_float, hermitian, None, want)

    def search(c):
        r = o_main.sweep(c, 400, props, kw_for(c, hermitian, N=3), parallel=True)
        return r["failures"]
    search.__name__ = "o_main_search"
    ctx.searcher(search)
    return ctx.finish(classify)


def replay(rp, props):
    f = rp.get("failure", {})
    case = f.get("input")
    if not case:
        print("replay file names no failing input:", rp.get("no_longer_checks"))
        return 2
    if "sizes" in case:
        return o_float.replay(case)
    fails = o_main.check_case(case, props)
    for x in fails[:5]:
        print("still fails:", x["what"])
    print("case:", json.dumps(gen.case_signature(case)))
    return 1 if fails else 0
