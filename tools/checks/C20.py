"""C20 - Ill-posed problems are rejected, never answered with silent garbage."""
from vlib import core
from harness import k_validate, k_sylvdiag
from oracles import o_front


def search(ctx):
    """deeper, targeted search after a break: more of both streams."""
    out = []
    r = o_front.oracle_illposed(ctx, ncases=ctx.n(400, 3000))
    out += r["failures"]
    if not out:
        out += k_sylvdiag.oracle_sylvdiag(ctx, ncases=ctx.n(400, 3000))["failures"]
    return out


def classify(failure):
    return None


def run(ctx):
    ctx.assumptions += [
        "the abstraction of a concrete call to the record PV.Front.Validate.call is computed by the harness from the constructed input (exact arithmetic), not by the library",
        "numpy.isclose / allclose and sympy's is_zero / is_hermitian / Eq decisions are modelled as given facts of the record",
        "finiteness: the diagonal solver model works in an exact field; floating-point overflow is outside the model",
        "implicit (KPM / direct) solvers, second-quantised inputs: only their validation branches are modelled, not tied by this harness",
    ]
    ctx.proof("Props/C20.v")
    ctx.proof("Props/C16_diagonal.v")
    ctx.tie("k_validate", k_validate.tie_validate)
    ctx.tie("k_sylvdiag", k_sylvdiag.tie_sylvdiag, ctx.n(60, 1000))
    ctx.oracle("o_illposed", o_front.oracle_illposed)
    ctx.oracle("o_sylvdiag_finite", k_sylvdiag.oracle_sylvdiag, ctx.n(60, 1500))
    ctx.searcher(search)
    return ctx.finish(classify)


def replay(rp):
    f = rp.get("failure") or {}
    inp = f.get("input") or {}
    if inp.get("kind") in ("illposed", "otbs_direct"):
        return o_front.replay_illposed(inp)
    if inp.get("kind") == "sylvdiag":
        return k_sylvdiag.replay_sylvdiag(inp)
    print("nothing to replay:", rp.get("kind"), rp.get("no_longer_checks", rp.get("broken")))
    return 1
