"""C08 - NumberOrderedForm arithmetic faithfully represents the operator algebra.

proof  : coq/theories/Props/C08.v  (model PV.NOF.Model, semantics PV.NOF.Fock)
tie    : harness/k_nof.tie_nof     (model vs pymablock.number_ordered_form on generated expressions)
oracle : oracles/o_nof_matrix      (implementation vs an independent exact matrix representation)
"""

import json

from vlib import core
from harness import k_nof
from oracles import o_nof_matrix


def run(ctx):
    ctx.assumptions += [
        "sympy's xreplace / automatic evaluation / Mul / Add preserve the value of coefficient expressions "
        "(the model keeps coefficients syntactic and compares values on a grid of occupation numbers)",
        "operands share one operator list: _combine_operators/_expand_operators (index renaming) is exercised "
        "by the harness and the oracle but not part of the Coq model",
        "the NumberOrderedForm is well formed (distinct keys, spin/fermion powers in {-1,0,1}); from_expr and "
        "all modelled operations establish/preserve this, the raw constructor does not check it",
        "coefficients with division evaluate with the convention 1/0 = 0 in the theorems (cval); grid points "
        "where the model's partial evaluation (ceval) is undefined are not compared",
    ]
    ctx.proof("Props/C08.v")
    ctx.tie("k_nof", k_nof.tie_nof)
    ctx.oracle("o_nof_matrix", o_nof_matrix.oracle_nof)
    ctx.searcher(o_nof_matrix.search)
    return ctx.finish(classify)


def classify(failure):  # no known findings for C08 (the three defects found were repaired by fix: commits)
    return None


def replay(rp):
    """Re-run a recorded failing input on the implementation (core.REPO). Returns 1 if it still fails."""
    if rp.get("kind") != "failing-input":
        print("replay file records a broken proof/correspondence without a failing input:")
        for w in rp.get("no_longer_checks", [])[:5]:
            print("  ", w)
        d = (rp.get("first") or {}).get("detail") or {}
        inp = d.get("input")
        if isinstance(inp, dict) and "tree" in inp:
            return 1 if k_nof.replay_case(inp) else 0
        return 1
    f = rp["failure"]
    inp = f["input"]
    print("failure:", f.get("what"))
    if isinstance(inp, dict) and "check" in inp:
        still = o_nof_matrix.replay_input(json.loads(json.dumps(inp)))
    elif isinstance(inp, dict) and "tree" in inp:
        still = k_nof.replay_case(inp)
    else:
        print("unknown input format")
        return 2
    print("still fails:" if still else "no longer fails:", still)
    return 1 if still else 0
