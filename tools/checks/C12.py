"""C12 - Lazy and causal: order n uses only Hamiltonian terms of order <= n."""
import json

from vlib import core


def run(ctx):
    from harness import k_calllog

    ctx.assumptions += [
        "C12_causal / C12_once are theorems about the evaluator model for every program (input names without '@'); C12_noninterference is a theorem about the specification, transferred to the evaluator by C09_sound",
        "the definition-time clause (block_diagonalize touches only zeroth-order terms before returning) is checked by the harness only: the model starts from the state in which exactly the zeroth-order input elements are evaluated",
    ]
    ctx.translate()
    ctx.proof("Props/C12.v")
    t = ctx.tie("k_calllog", k_calllog.tie_calllog)
    ctx.oracle("o_cone", lambda c: dict(evaluations=t.get("cases", 0), nontrivial=t.get("nontrivial", 0),
                                        rule="implementation half of k_calllog: cone and at-most-once on series_computation",
                                        samples=[], failures=t.get("impl_failures", [])))
    ctx.oracle("o_cone_block_diagonalize", k_calllog.oracle_calllog_bd)
    ctx.oracle("o_cone_second_quantised", k_calllog.oracle_calllog_2q)
    return ctx.finish(lambda f: None)


def replay(rp):
    from harness import k_calllog

    f = rp.get("failure")
    if not f or "input" not in f:
        print("nothing to replay (no failing input recorded):", json.dumps(rp.get("no_longer_checks"), indent=1)[:2000])
        return 1
    what = k_calllog.replay_input(f["input"])
    if what:
        print("still failing:", what)
        return 1
    print("no longer failing")
    return 0
