"""C13 - multi-parameter order bookkeeping (scale, merge, permute, vanishing perturbation, power substitution).

Proof: Props/C13.v - each symmetry is an [LAHom] between the concrete algebras of multi-index
series of matrices; together with uniqueness of the least-action solution (Alg/Equivariance.v)
the three outputs of the generated Hermitian program transform accordingly.
Oracle: oracles/o_relations.py runs the relations on the real block_diagonalize in both modes.
"""
import json
from harness import k_translator, k_semeq, gen
from oracles import o_relations as R

RELS = R.C13_RELATIONS
VFILE = "Props/C13.v"


def kw_for(ctx, hermitian, **over):
    # the exact SymPy family is slow beyond total order 3 (minutes per case): order 4 only with float inputs
    kw = dict(hermitian=hermitian, N=ctx.n(3, 4), N_sympy=3, max_blocks=3, max_size=ctx.n(2, 3), max_params=2)
    kw.update(over)
    return kw


def run_common(ctx, vfile, rels, what, targeted=None):
    ctx.assumptions += [
        "exact arithmetic (floating-point rounding not modelled; float inputs are exactly representable by construction)",
        "Coq theorems are about the whole-series semantics DSL/Sem.v of the translated Hermitian program in the concrete algebra of multi-index series of matrices; the index-level evaluator is tied to the code by the harnesses of C09/C18, the front-end normalisation of parameters/keys by C14",
        "the transformed problem is assumed to be wired like the original one (no tolerance comparison of block_diagonalize flips under the transformation)",
        "hermitian=False: " + what + " are proved (*_nh_partial) only when kept matrix elements connect equal unperturbed energies (outside this class the non-Hermitian program violates its own defining conditions, known finding C05-kept-distinct-energies, so uniqueness does not apply) and for symmetric kept masks; elsewhere they are decided by the oracle only",
    ]
    ctx.translate()
    ctx.tie("k_translator", k_translator.tie_translator)
    ctx.proof(vfile)
    ctx.tie("k_semeq", k_semeq.tie_semeq, hermitian=True)
    ctx.oracle("o_relations[hermitian]", R.sweep, rels, ctx.n(10, 50), kw_for(ctx, True), parallel=True)
    ctx.oracle("o_relations[nonhermitian]", R.sweep, rels, ctx.n(6, 30), kw_for(ctx, False), parallel=True)
    # inputs inside the class of the *_nh_partial theorems (kept elements connect equal unperturbed energies)
    ctx.oracle("o_relations[nonhermitian,kept-equal-energies]", R.sweep, rels, ctx.n(5, 30), kw_for(ctx, False, nh_class=True), parallel=True)
    if targeted:
        targeted(ctx)
    if not ctx.quick:
        # three parameters and total order 4 on the fast exact-float families (dense / sparse numpy branches)
        ctx.oracle("o_relations[hermitian,float,3 parameters]", R.sweep, rels, 40,
                   kw_for(ctx, True, fmts=["dense", "sparse"], max_params=3), parallel=True)

    def search(c):
        out = []
        for herm in (True, False):
            r = R.sweep(c, rels, 40, kw_for(c, herm, N=3, max_size=3), parallel=True)
            out += r["failures"]
            if out:
                break
        return out
    search.__name__ = "o_relations_search"
    ctx.searcher(search)
    return ctx.finish(None)


def replay_common(rp):
    f = rp.get("failure", {})
    inp = f.get("input")
    if not inp or "relation" not in inp or "base" not in inp:
        print("replay file names no failing input:", rp.get("no_longer_checks") or f.get("what"))
        return 2
    fails, info = R.check_relation(inp["relation"], inp["base"], inp["params"], inp.get("keyfmt", "tuple"), inp.get("keyfmt_t"),
                                    inp.get("symnames"), inp.get("symnames_t"))
    for x in fails[:5]:
        print("still fails:", x["what"])
    print("relation:", inp["relation"], "params:", json.dumps({k: v for k, v in inp["params"].items() if k != "R"}),
          "input format:", inp.get("keyfmt"), inp.get("keyfmt_t"), "symbols:", inp.get("symnames"), inp.get("symnames_t"), "base:", json.dumps(gen.case_signature(inp["base"][0])))
    return 1 if fails else 0


def targeted(ctx):
    # every relation with the Hamiltonian handed over as ONE SymPy matrix + symbols= (Taylor-expansion path of the
    # front end), two symbols, mixed monomials x*y and x**2*y
    for herm in (True, False):
        ctx.oracle("o_relations[taylor path,mixed monomials,hermitian=%s]" % herm, R.sweep, RELS, ctx.n(2, 8),
                   kw_for(ctx, herm, special="taylor", N=3), parallel=True)


def run(ctx):
    return run_common(ctx, VFILE, RELS, "the bookkeeping relations", targeted)


def replay(rp):
    return replay_common(rp)
