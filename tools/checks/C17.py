"""C17 - Complement projector equals the matrix 1 - R L^dagger under every operator operation."""
import numpy as np

from vlib import core
from harness import k_projector
from oracles import o_linalg


def _tie_case_to_oracle_input(j):
    def conv(e):
        if e is None:
            return None
        re, im = np.array(e["re"], dtype=float), np.array(e["im"], dtype=float)
        return dict(dtype=e["dtype"], shape=list(re.shape), re=re.ravel().tolist(), im=im.ravel().tolist())
    return dict(kind=j["kind"], R=conv(j["R"]), L=None if j.get("L_is_R") else conv(j["L"]), X=conv(j["X"]), x=conv(j["x"]),
                X2=conv(j["X2"]), A=conv(j["A"]), word=j["word"], sparse=j["sparse"])


def search(ctx):
    """After a broken proof/tie: evaluate the dense oracle on the inputs of the tie disagreements, then sweep."""
    found = []
    for t in ctx.ties:
        for d in t.get("disagreements", []):
            inp = d.get("input")
            if not isinstance(inp, dict) or "R" not in inp:
                continue
            oi = _tie_case_to_oracle_input(inp)
            for f in o_linalg.evaluate(oi)[:1]:
                found.append(dict(what=f, input=dict(oracle="projector", data=oi)))
            if found:
                return found
    r = o_linalg.oracle_projector(ctx, n=3000)
    return r["failures"]


def run(ctx):
    ctx.assumptions += [
        "SciPy LinearOperator algebra (product, adjoint, transpose wrappers, rdot) follows the contract modelled in LinAlg/Projector.v (linop)",
        "NumPy matmul/conj/subtraction are exact on small Gaussian integers stored in float64/complex128/int64 arrays",
        "np.array_equal decides value equality of the two vector sets (NaN inputs are outside the model)",
    ]
    ctx.proof("Props/C17.v")
    ctx.tie("k_projector", k_projector.tie_projector)
    ctx.oracle("o_projector_dense", o_linalg.oracle_projector)
    ctx.searcher(search)
    return ctx.finish(lambda f: None)


def replay(rp):
    f = rp.get("failure") or {}
    inp = f.get("input") or {}
    print("C17 replay:", f.get("what"))
    if inp.get("oracle") == "projector":
        return o_linalg.replay_projector(inp)
    print("nothing replayable in this file (kind=%s): %s" % (rp.get("kind"), rp.get("no_longer_checks")))
    return 1
