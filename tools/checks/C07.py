"""C07 - second-quantised block diagonalization agrees with matrices on Fock states."""
from vlib import core
from harness import k_nof
from oracles import o_fock


def run(ctx):
    ctx.assumptions += [
        "C07 is decided by: the generic theorems C01-C03 (any BlockAlg) + C08 (NumberOrderedForm arithmetic is a *-homomorphism into operators on Fock space) + C16_scalar (the second-quantised solver solves the Sylvester equation as an operator identity) + C07_mask (apply_mask_to_operator is an additive idempotent selection commuting with the adjoint and with functions of number operators); Props/C07_fock.v: the algebra of multi-index series of INFINITE row- and column-finite matrices over a countable Fock basis (Series/InstRCF.v, Block/RCF.v) is a BlockAlg, the diagonal solver on a number-conserving H_0 with energies E : nat -> R wires it (rcf_wiring, non-degenerate coupled levels = inv_spec on eliminated pairs), so C01/C02/C03 hold for operators on Fock space (C07_fock_kept/_eliminated/_unitary/_adjoint/_gauge; Example: the boson annihilator). Not formalised: that the NumberOrderedForm denotations of C08 assemble into elements of that algebra with Sel = apply_mask (the *-homomorphism is C08, the identification of the scope functions is by the ties k_mask/k_nof), and the equality with TRUNCATED matrices away from the edge (band locality): partial, decided on the implementation by the oracle o_fock",
        "sympy simplification (_poly_simplify, simplify, xreplace) is assumed to preserve denotations",
    ]
    for v in ("Props/C07_fock.v", "Props/C07_mask.v", "Props/C08.v", "Props/C16_scalar.v", "Props/C01.v", "Props/C02.v"):
        ctx.proof(v)
    ctx.tie("k_mask", k_nof.tie_mask)
    ctx.tie("k_nof", k_nof.tie_nof)
    ctx.oracle("o_mask", k_nof.oracle_mask)
    ctx.oracle("o_fock", o_fock.oracle_fock, ctx.n(10, 120))

    def search(c):
        return o_fock.oracle_fock(c, ncases=c.n(60, 300), N=3)["failures"]
    search.__name__ = "o_fock_search"
    ctx.searcher(search)
    return ctx.finish(lambda f: None)


def replay(rp):
    f = rp.get("failure") or {}
    inp = f.get("input")
    print("C07 replay:", f.get("what"))
    if isinstance(inp, dict) and "nbos" in inp:
        return o_fock.replay(inp)
    print("nothing replayable by C07 (see C08 for NumberOrderedForm-level replays):", rp.get("no_longer_checks"))
    return 2
