"""C11 - An exception during evaluation leaves the computation consistent, reusable."""
import json

from vlib import core


def run(ctx):
    from harness import k_faults

    ctx.assumptions += [
        "fault model: a user callback (input eval, counted scope function = Sylvester solver, operator) raises at a given global invocation index; classes Exception-subclass, RuntimeError, KeyboardInterrupt",
        "theorem C11_exn_safe: no Pending entry left and later Ok-values equal the undisturbed ones; C11_later_requests_terminate: later requests never run out of fuel (stratified programs); that they return a value rather than raise again is checked by the harness only",
        "operator faults are injected at the series_computation level (block_diagonalize has no operator argument)",
    ]
    ctx.translate()
    ctx.proof("Props/C11.v")
    t = ctx.tie("k_faults", k_faults.tie_faults)
    ctx.oracle("o_faults", lambda c: _impl_half(t))
    ctx.oracle("o_faults_block_diagonalize", k_faults.oracle_faults_bd)
    ctx.oracle("o_library_errors", k_faults.oracle_library_errors)
    return ctx.finish(lambda f: None)


def _impl_half(t):
    """the implementation-only findings of the tie (pending left / values differ), as oracle failures"""
    return dict(evaluations=t.get("cases", 0), nontrivial=t.get("nontrivial", 0),
                rule="implementation half of k_faults: no PENDING left, values after faults equal the clean ones",
                samples=[], failures=t.get("impl_failures", []))


def replay(rp):
    from harness import k_faults

    f = rp.get("failure")
    if not f or "input" not in f:
        print("nothing to replay (no failing input recorded):", json.dumps(rp.get("no_longer_checks"), indent=1)[:2000])
        return 1
    what = k_faults.replay_input(f["input"])
    if what:
        print("still failing:", what)
        return 1
    print("no longer failing")
    return 0
