"""C16 - Sylvester and Green's-function solvers return solutions of their equations."""
from vlib import core
from harness import k_sylvdiag, k_greens, k_scalar


def classify(f):
    return None


def run(ctx):
    ctx.assumptions += [
        "external numerics (scipy.sparse.linalg.factorized / MUMPS, pivoted QR, eigsh, KDTree, connected_components) are modelled by their contracts; pivoted QR yielding invertible minors is a hypothesis of C16_direct_pivots that tie_greens checks exactly on every case",
        "KPM convergence (accuracy of the Jackson-kernel Chebyshev expansion in floating point) is outside the theorems: only the loop contract is proved; accuracy is monitored by oracle_kpm",
        "the second-quantised solver is modelled on the NumberOrderedForm model of C08 (NOF/*.v)",
    ]
    for v in ("Props/C16_diagonal.v", "Props/C16_direct.v", "Props/C16_kpm.v", "Props/C16_scalar.v"):
        ctx.proof(v)
    ctx.tie("k_sylvdiag", k_sylvdiag.tie_sylvdiag)
    ctx.tie("k_greens", k_greens.tie_greens)
    ctx.tie("k_group", k_greens.tie_group)
    ctx.tie("k_kpm", k_greens.tie_kpm)
    ctx.tie("k_scalar", k_scalar.tie_scalar)
    ctx.oracle("o_sylvdiag", k_sylvdiag.oracle_sylvdiag)
    ctx.oracle("o_greens", k_greens.oracle_greens)
    ctx.oracle("o_kpm", k_greens.oracle_kpm)
    ctx.oracle("o_scalar", k_scalar.oracle_scalar)

    def search(c):
        out = []
        out += k_sylvdiag.oracle_sylvdiag(c, ncases=c.n(600, 3000))["failures"]
        if not out:
            out += k_greens.oracle_greens(c, n=c.n(600, 3000))["failures"]
        if not out:
            out += k_scalar.oracle_scalar(c, ncases=c.n(60, 300))["failures"]
        return out
    search.__name__ = "o_c16_search"
    ctx.searcher(search)
    return ctx.finish(classify)


def replay(rp):
    f = rp.get("failure") or {}
    inp = f.get("input")
    o = f.get("oracle", "")
    print("C16 replay:", f.get("what"))
    if inp is None:
        print("nothing replayable:", rp.get("no_longer_checks"))
        return 2
    if "sylvdiag" in o and hasattr(k_sylvdiag, "replay_sylvdiag"):
        return k_sylvdiag.replay_sylvdiag(inp)
    if "scalar" in o and hasattr(k_scalar, "replay_case"):
        return k_scalar.replay_case(inp)
    return k_greens.replay(inp)
