"""C18 - cauchy_dot_product is the multivariate Cauchy product."""
import json

from vlib import core
from harness import k_cauchydot
from oracles import o_series


def classify(failure):
    """Known findings of C18 (ids of known_findings.json); anything else stays a VIOLATION.

    C18-halfsum-nonadjoint: hermitian=True declared, two factors, diagonal block, the dense product is
        Hermitian, the factors are not mutual adjoints, and the value returned is exactly the half-sum
        of product_by_order.
    C18-one-plus-term: TypeError / SympifyError raised by the sentinel arithmetic (`one + x`,
        `x + one`, `Dagger(one)`) while summing the terms of the requested element, as predicted from
        the zero/one/value pattern of the factors alone.
    """
    if failure.get("oracle") not in (None, "o_dense_cauchy", "search_cauchy"):
        return None
    if "input" not in failure or failure.get("index") is None:
        return None
    return o_series.classify_cauchy(failure) or o_series.classify_one_plus_term(failure)


def search_cauchy(ctx):
    """deeper search used when a proof or the tie broke and the regular oracle run found nothing"""
    r = o_series.oracle_cauchy(ctx, ncases=ctx.n(1500, 6000))
    return r["failures"]


def run(ctx):
    ctx.assumptions += [
        "the Coq models PySeries/{Sentinel,Cache,ProductByOrder,CauchyDot}.v are tied to pymablock/series.py only by the differential harness k_cauchydot (values, exception classes, ordered eval log, cache key sets)",
        "values live in one ring (square 2x2 Gaussian-integer matrices in the harness); rectangular value blocks are assumed to embed by zero padding",
        "theorems are of the form 'if a value is returned it denotes the Cauchy sum'; the raising cases `one + x` / Dagger(one) are the known finding C18-one-plus-term, the Hermitian half-sum for non-adjoint factors is the known finding C18-halfsum-nonadjoint (C18_herm_halfsum_refuted)",
        "oracle_cauchy generates `one` only as the identity pattern at order zero (no second non-zero term for the same element), plus the fixed witnesses of the two known findings",
    ]
    ctx.proof("Props/C18.v")
    ctx.tie("k_cauchydot", k_cauchydot.tie_cauchydot)
    ctx.oracle("o_dense_cauchy", o_series.oracle_cauchy)
    ctx.searcher(search_cauchy)
    return ctx.finish(classify)


def replay(rp):
    f = rp.get("failure") or {}
    case = f.get("input")
    if not isinstance(case, dict) or ("tables" not in case and "kind" not in case):
        print("replay: no replayable input in", json.dumps(rp)[:300])
        return 2
    if case.get("kind") == "sentinel_op":
        out = k_cauchydot.run_sop(case["op"], case["x"], case["y"])
        print("python:", case["op"], case["x"], case["y"], "->", out)
        bad = core.coq_eval_cases("replay_c18", k_cauchydot.HEADER, [k_cauchydot.coq_term_sop(case["op"], case["x"], case["y"], out)])
        print("model agrees" if not bad else "Sentinel.v differs from the Python operator")
        return 1 if bad else 0
    if case.get("kind") == "pbo_direct":
        out = k_cauchydot.run_pbo_direct(case, case["index"], case["pbo_herm"])
        print("product_by_order:", json.dumps(out, default=str)[:1500])
        bad = core.coq_eval_cases("replay_c18", k_cauchydot.HEADER, [k_cauchydot.coq_term_pbo(case, case["index"], case["pbo_herm"], out)])
        print("model agrees" if not bad else "model and implementation still differ")
        return 1 if bad else 0
    if case.get("kind") == "api":
        fails = o_series.run_cauchy_api_case(case)
        for x in fails:
            print(x["what"])
        return 1 if fails else 0
    if "script" in case:  # a correspondence case of k_cauchydot
        out = k_cauchydot.run_impl(case)
        print("implementation observations:", json.dumps(out, default=str)[:2000])
        bad = core.coq_eval_cases("replay_c18", k_cauchydot.HEADER, k_cauchydot.coq_terms(case, out))
        print("model agrees" if not bad else "model and implementation still differ")
        return 1 if bad else 0
    fails = o_series.run_cauchy_case(case)
    for x in fails:
        print(x["what"], "expected", x.get("expected"), "observed", x.get("observed"), "classified:", classify(dict(x, oracle="o_dense_cauchy")))
    if not fails:
        print("no failure: the implementation agrees with the dense reference on this input")
    return 1 if any(classify(dict(x, oracle="o_dense_cauchy")) is None for x in fails) else 0
