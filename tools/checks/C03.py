from checks import _main_common as M
PROPS = ["gauge", "reference"]
def run(ctx):
    return M.run(ctx, ["Props/C03.v"], PROPS)
def replay(rp):
    return M.replay(rp, PROPS)
