#!/venv/bin/python
"""Fail-closed translator: pymablock/algorithms.py (Python ast, never imported) -> Coq term.

usage: translate_algorithms.py <algorithms.py> [--json]
Writes the text of Gen/Algorithms_gen.v (or the JSON intermediate form) to stdout.
Any construct outside the table in DESIGN.md section 4.1 aborts with exit status 2.
"""
import ast
import json
import sys


class Unsupported(Exception):
    pass


def bad(node, why):
    raise Unsupported("line %s: %s: %s" % (getattr(node, "lineno", "?"), why, ast.dump(node)[:200]))


def tr_flag(node):
    if isinstance(node, ast.Name):
        return ["FlagGlobal", node.id]
    if (
        isinstance(node, ast.Subscript)
        and isinstance(node.value, ast.Name)
        and isinstance(node.slice, ast.Subscript)
        and isinstance(node.slice.value, ast.Name)
        and node.slice.value.id == "index"
        and isinstance(node.slice.slice, ast.Constant)
        and node.slice.slice.value == 0
    ):
        return ["FlagRow", node.value.id]
    bad(node, "unsupported flag")


def int_literal(node):
    if isinstance(node, ast.Constant) and type(node.value) is int:
        return node.value
    if isinstance(node, ast.UnaryOp) and isinstance(node.op, ast.USub) and isinstance(node.operand, ast.Constant) and type(node.operand.value) is int:
        return -node.operand.value
    return None


def tr_expr(node):
    if isinstance(node, ast.Constant):
        if isinstance(node.value, str):
            return ["Lit", node.value]
        bad(node, "bare non-string constant")
    if isinstance(node, ast.Attribute):
        if node.attr == "adj" and isinstance(node.value, ast.Constant) and isinstance(node.value.value, str):
            return ["Adj", node.value.value]
        bad(node, "unsupported attribute")
    if isinstance(node, ast.Name):
        if node.id == "zero":
            return ["EZero"]
        bad(node, "unsupported name in expression")
    if isinstance(node, ast.UnaryOp):
        if isinstance(node.op, ast.USub):
            return ["Neg", tr_expr(node.operand)]
        bad(node, "unsupported unary operator")
    if isinstance(node, ast.BinOp):
        if isinstance(node.op, ast.Add):
            return ["Add", tr_expr(node.left), tr_expr(node.right)]
        if isinstance(node.op, ast.Sub):
            return ["Sub", tr_expr(node.left), tr_expr(node.right)]
        if isinstance(node.op, ast.Div):
            k = int_literal(node.right)
            if k is None or k == 0:
                bad(node, "division by something that is not a non-zero integer literal")
            return ["DivInt", tr_expr(node.left), k]
        bad(node, "unsupported binary operator")
    if isinstance(node, ast.Call):
        if not isinstance(node.func, ast.Name) or node.keywords:
            bad(node, "unsupported call")
        args = []
        for a in node.args:
            if isinstance(a, ast.Constant) and isinstance(a.value, str):
                args.append(["ArgSeries", a.value])
            else:
                args.append(["ArgExpr", tr_expr(a)])
        return ["Call", node.func.id, args]
    if isinstance(node, ast.IfExp):
        return ["IfFlag", tr_flag(node.test), tr_expr(node.body), tr_expr(node.orelse)]
    bad(node, "unsupported expression")


CONDS = {"diagonal": "Diagonal", "offdiagonal": "Offdiagonal"}


def tr_series(w, input_names_hint=None):
    name = w.items[0].context_expr.value
    start = ["NoStart"]
    body = []
    for st in w.body:
        if isinstance(st, ast.Assign):
            if len(st.targets) != 1 or not isinstance(st.targets[0], ast.Name):
                bad(st, "unsupported assignment")
            if st.targets[0].id != "start":
                # any other assignment to a plain name is dropped by the compiler (_visit_Line removes every
                # Assign, _preprocess_series reads only `start`): it has no meaning
                if not isinstance(st.value, ast.Constant):
                    bad(st, "unsupported assignment")
                continue
            v = st.value
            if not isinstance(v, ast.Constant):
                bad(st, "unsupported start value")
            if v.value == 0 and type(v.value) is int:
                start = ["StartZero"]
            elif v.value == 1 and type(v.value) is int:
                start = ["StartOne"]
            elif isinstance(v.value, str):
                if v.value.endswith("_0") and len(v.value) > 2:
                    start = ["StartInput", v.value[:-2]]
                else:
                    start = ["StartOther", v.value]
            else:
                bad(st, "unsupported start value")
        elif isinstance(st, ast.Expr):
            if isinstance(st.value, ast.Name):
                if st.value.id == "hermitian":
                    body.append(["Marker", "Herm"])
                elif st.value.id == "antihermitian":
                    body.append(["Marker", "AntiHerm"])
                elif st.value.id == "zero":
                    # a bare `zero` line: result = _zero_sum(result, zero)
                    body.append(["Line", "Default", ["EZero"]])
                else:
                    bad(st, "unsupported bare name")
            else:
                body.append(["Line", "Default", tr_expr(st.value)])
        elif isinstance(st, ast.If):
            if not isinstance(st.test, ast.Name) or st.test.id not in CONDS or st.orelse or len(st.body) != 1 or not isinstance(st.body[0], ast.Expr):
                bad(st, "unsupported if")
            body.append(["Line", CONDS[st.test.id], tr_expr(st.body[0].value)])
        elif isinstance(st, ast.Pass):
            pass
        else:
            bad(st, "unsupported statement in series definition")
    return dict(name=name, start=start, body=body)


def tr_product(w):
    name = w.items[0].context_expr.value
    herm = False
    for st in w.body:
        if isinstance(st, ast.Pass):
            continue
        if isinstance(st, ast.Expr) and isinstance(st.value, ast.Name) and st.value.id == "hermitian":
            herm = True
            continue
        if isinstance(st, ast.Expr) and isinstance(st.value, ast.Constant) and isinstance(st.value.value, str):
            continue  # a string (comment) in a product body is ignored by _read_product
        bad(st, "unsupported statement in product definition")
    return dict(factors=name.split(" @ "), hermitian=herm)


def tr_function(fn):
    if fn.args.args or fn.args.vararg or fn.args.kwarg or fn.decorator_list:
        bad(fn, "algorithm functions take no arguments")
    series, products, outputs = [], [], None
    for st in fn.body:
        if isinstance(st, ast.With):
            if len(st.items) != 1 or st.items[0].optional_vars is not None:
                bad(st, "unsupported with")
            ce = st.items[0].context_expr
            if not (isinstance(ce, ast.Constant) and isinstance(ce.value, str)):
                bad(st, "with target must be a string literal")
            if "@" in ce.value:
                products.append(tr_product(st))
            else:
                series.append(tr_series(st))
        elif isinstance(st, ast.Return):
            v = st.value
            if v is None:
                outputs = []  # bare `return`: no outputs (_parse_return gives [])
            elif isinstance(v, ast.Constant) and isinstance(v.value, str):
                outputs = [v.value]
            elif isinstance(v, ast.Tuple) and all(isinstance(e, ast.Constant) and isinstance(e.value, str) for e in v.elts):
                outputs = [e.value for e in v.elts]
            else:
                bad(st, "unsupported return")
        elif isinstance(st, ast.Expr) and isinstance(st.value, ast.Constant) and isinstance(st.value.value, str):
            continue  # docstring
        else:
            bad(st, "unsupported statement in algorithm")
    return dict(name=fn.name, series=series, products=products, outputs=outputs or [])


def translate_source(src):
    tree = ast.parse(src)
    algs = []
    for st in tree.body:
        if isinstance(st, ast.FunctionDef):
            algs.append(tr_function(st))
        elif isinstance(st, ast.Expr) and isinstance(st.value, ast.Constant):
            continue
        elif isinstance(st, (ast.Import, ast.ImportFrom)):
            bad(st, "imports are not expected in algorithms.py")
        else:
            bad(st, "unsupported top-level statement")
    return algs


# ---------------------------------------------------------------- Coq emission


def cstr(s):
    return '"' + s.replace('"', '""') + '"'


def cz(k):
    return "(%d)%%Z" % k


def emit_expr(e):
    t = e[0]
    if t == "Lit":
        return "(Lit %s)" % cstr(e[1])
    if t == "Adj":
        return "(Adj %s)" % cstr(e[1])
    if t == "EZero":
        return "EZero"
    if t == "Neg":
        return "(Neg %s)" % emit_expr(e[1])
    if t in ("Add", "Sub"):
        return "(%s %s %s)" % (t, emit_expr(e[1]), emit_expr(e[2]))
    if t == "DivInt":
        return "(DivInt %s %s)" % (emit_expr(e[1]), cz(e[2]))
    if t == "Call":
        args = "; ".join(("(ArgSeries %s)" % cstr(a[1])) if a[0] == "ArgSeries" else ("(ArgExpr %s)" % emit_expr(a[1])) for a in e[2])
        return "(Call %s [%s])" % (cstr(e[1]), args)
    if t == "IfFlag":
        return "(IfFlag (%s %s) %s %s)" % (e[1][0], cstr(e[1][1]), emit_expr(e[2]), emit_expr(e[3]))
    raise Unsupported(str(e))


def emit_line(l):
    if l[0] == "Marker":
        return "Marker %s" % l[1]
    return "Line %s %s" % (l[1], emit_expr(l[2]))


def emit_start(s):
    if s[0] in ("NoStart", "StartZero", "StartOne"):
        return s[0]
    return "(%s %s)" % (s[0], cstr(s[1]))


def emit_alg(a):
    out = []
    out.append("Definition %s_alg : algorithm := {|" % a["name"])
    out.append("  aseries := [")
    out.append(";\n".join("    {| sname := %s; sstart := %s; sbody := [\n        %s ] |}" % (cstr(s["name"]), emit_start(s["start"]), ";\n        ".join(emit_line(l) for l in s["body"])) for s in a["series"]))
    out.append("  ];")
    out.append("  aproducts := [")
    out.append(";\n".join("    {| pfactors := [%s]; pherm := %s |}" % ("; ".join(cstr(f) for f in p["factors"]), "true" if p["hermitian"] else "false") for p in a["products"]))
    out.append("  ];")
    out.append("  aoutputs := [%s] |}." % "; ".join(cstr(o) for o in a["outputs"]))
    return "\n".join(out)


def main():
    path = sys.argv[1]
    src = open(path, encoding="utf-8").read()
    try:
        algs = translate_source(src)
    except Unsupported as e:
        sys.stderr.write("translator: unsupported construct (fail-closed): %s\n" % e)
        sys.exit(2)
    if "--json" in sys.argv:
        json.dump(algs, sys.stdout, ensure_ascii=False, indent=1)
        return
    print("(* GENERATED by tools/translate_algorithms.py from pymablock/algorithms.py - do not edit *)")
    print("From Coq Require Import String List ZArith.")
    print("From PV.DSL Require Import Syntax.")
    print("Import ListNotations.")
    print("Open Scope string_scope.")
    print()
    for a in algs:
        print(emit_alg(a))
        print()
    print("Definition all_algorithms : list (string * algorithm) := [%s]." % "; ".join("(%s, %s_alg)" % (cstr(a["name"]), a["name"]) for a in algs))


if __name__ == "__main__":
    main()
