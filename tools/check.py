#!/venv/bin/python
"""Entry point: tools/check.py Cxx [--tier quick|thorough] | --replay <file> | --setup."""
import argparse, importlib, json, os, sys
from pathlib import Path

HERE = Path(__file__).resolve().parent
sys.path.insert(0, str(HERE))
from vlib import core  # noqa: E402


def main():
    ap = argparse.ArgumentParser()
    ap.add_argument("prop", nargs="?")
    ap.add_argument("--tier", default=os.environ.get("VERIF_TIER", "quick"), choices=["quick", "thorough"])
    ap.add_argument("--replay")
    ap.add_argument("--setup", action="store_true")
    a = ap.parse_args()
    seed = int(os.environ.get("VERIF_SEED", "0") or 0)
    if a.setup:
        ok, msg = core.run_translator()
        print("translator:", ok, msg)
        ok2, log = core.coq_build(["-k", "all"], timeout=7200)
        print(log[-3000:])
        print("coq build complete:", ok2, "(files that fail to build are reported by the checks that need them)")
        sys.exit(0 if ok else 1)
    if a.replay:
        rp = json.loads(Path(a.replay).read_text())
        mod = importlib.import_module("checks." + rp["property"])
        if not hasattr(mod, "replay"):
            print("no replay function for", rp["property"]); sys.exit(2)
        sys.exit(mod.replay(rp))
    mod = importlib.import_module("checks." + a.prop)
    ctx = core.Ctx(a.prop, a.tier, seed)
    rc = mod.run(ctx)
    sys.exit(rc)


if __name__ == "__main__":
    main()
