"""Shared machinery for the per-property checks.

A check module (tools/checks/Cxx.py) exposes ``run(ctx)``.  It registers

* proof obligations   : ctx.proof("Props/Cxx.v")            (Coq theorems + Print Assumptions)
* correspondence ties : ctx.tie(name, fn)                    (model vs implementation, or translator)
* property oracles    : ctx.oracle(name, fn)                 (implementation-only search for a failing input)

and ``ctx.finish()`` turns what they found into the verdict, the replay files, the
evidence file and the exit status, following DESIGN.md section 7.
"""

from __future__ import annotations

import fcntl
import hashlib
import json
import os
import random
import re
import subprocess
import sys
import time
import traceback
from pathlib import Path

VERIF = Path(__file__).resolve().parents[2]
REPO = Path(os.environ.get("VERIF_REPO", "/repo"))
if not (REPO / "pymablock" / "algorithms.py").is_file():
    raise SystemExit("VERIF_REPO=%s is not a pymablock source tree (pymablock/algorithms.py missing)" % REPO)
COQ = VERIF / "coq"
THEORIES = COQ / "theories"
BUILD = VERIF / "_build"
# evidence of runs against a changed tree (VERIF_REPO) never overwrites the evidence of /repo
EVIDENCE = Path(os.environ["VERIF_EVIDENCE_DIR"]) if os.environ.get("VERIF_EVIDENCE_DIR") else (
    VERIF / "evidence" if str(REPO) == "/repo" else VERIF / "_build" / "evidence_changed")
REPLAY = VERIF / "replay"
PY = "/venv/bin/python"

ALLOWED_AXIOMS_FILE = VERIF / "tools" / "allowed_axioms.txt"
FORBIDDEN = re.compile(
    r"\b(Admitted|admit|Axiom|Parameter|Conjecture|Unset\s+Guard|bypass_check|Admit\s+Obligations)\b"
)

TRUSTED_BASE = [
    "Coq 8.16.1 kernel (coqc); vm_compute used in witnesses and decidable side conditions; no native_compute",
    "tools/translate_algorithms.py (Python ast -> Coq term), validated each run against algorithm_parsing output",
    "correspondence harnesses in tools/harness (differential test model vs /repo, exact arithmetic)",
    "hand-written Gallina models of series.py, algorithm_parsing.py, block_diagonalization.py, linalg.py, number_ordered_form.py (tied by correspondence only)",
    "NumPy/SciPy/SymPy as the platform the implementation runs on",
]


def impl_env():
    env = dict(os.environ)
    env["PYTHONPATH"] = str(REPO)
    env["PYTHONHASHSEED"] = "0"
    env["PIP_NO_INDEX"] = "1"
    env.setdefault("OMP_NUM_THREADS", "1")
    env.setdefault("OPENBLAS_NUM_THREADS", "1")
    return env


def sha(s) -> str:
    if isinstance(s, str):
        s = s.encode()
    return hashlib.sha256(s).hexdigest()


def canon(obj) -> str:
    return json.dumps(obj, sort_keys=True, default=str, ensure_ascii=False)


class Lock:
    def __init__(self, name):
        BUILD.mkdir(exist_ok=True)
        self.path = BUILD / (name + ".lock")

    def __enter__(self):
        self.f = open(self.path, "w")
        fcntl.flock(self.f, fcntl.LOCK_EX)
        return self

    def __exit__(self, *a):
        fcntl.flock(self.f, fcntl.LOCK_UN)
        self.f.close()


# ---------------------------------------------------------------------------
# Coq


def allowed_axioms():
    if not ALLOWED_AXIOMS_FILE.exists():
        return []
    return [
        l.strip()
        for l in ALLOWED_AXIOMS_FILE.read_text().splitlines()
        if l.strip() and not l.startswith("#")
    ]


def coq_makefile():
    """(Re)create coq/Makefile from _CoqProject listing every .v under theories (except Cases)."""
    files = sorted(
        str(p.relative_to(COQ))
        for p in THEORIES.rglob("*.v")
        if "Cases" not in p.parts
    )
    proj = "-Q theories PV\n-arg -w -arg -notation-overridden,-deprecated-hint-without-locality,-deprecated-instance-without-locality,-ambiguous-paths,-redundant-canonical-projection,-projection-no-head-constant\n" + "\n".join(files) + "\n"
    p = COQ / "_CoqProject"
    if not p.exists() or p.read_text() != proj:
        p.write_text(proj)
    mk = COQ / "Makefile"
    if (not mk.exists()) or mk.stat().st_mtime < p.stat().st_mtime:
        subprocess.run(
            ["coq_makefile", "-f", "_CoqProject", "-o", "Makefile"],
            cwd=COQ,
            check=True,
            capture_output=True,
        )


def run_translator():
    """Regenerate Gen/Algorithms_gen.v from /repo; returns (ok, message)."""
    out = THEORIES / "Gen" / "Algorithms_gen.v"
    r = subprocess.run(
        [PY, str(VERIF / "tools" / "translate_algorithms.py"), str(REPO / "pymablock" / "algorithms.py")],
        capture_output=True,
        text=True,
        env=impl_env(),
    )
    if r.returncode != 0:
        return False, (r.stderr or r.stdout)[-2000:]
    new = r.stdout
    if not out.exists() or out.read_text() != new:
        out.parent.mkdir(parents=True, exist_ok=True)
        out.write_text(new)
    return True, sha(new)[:16]


def coq_build(targets, timeout=2400, jobs=16):
    """make the given .vo targets (paths relative to coq/). Returns (ok, log)."""
    with Lock("coq"):
        coq_makefile()
        cmd = ["timeout", str(timeout), "make", "-j%d" % jobs] + list(targets)
        r = subprocess.run(cmd, cwd=COQ, capture_output=True, text=True)
        return r.returncode == 0, r.stdout + r.stderr


def coq_props(vfile, timeout=1200):
    """Compile a Props file (after its dependencies) and analyse Print Assumptions.

    Returns dict(ok, theorems=[...], closed=[...], axioms={thm:[...]}, log, error).
    """
    rel = "theories/" + vfile
    src = (COQ / rel).read_text()
    theorems = re.findall(r"^\s*(?:Theorem|Corollary)\s+([A-Za-z0-9_']+)", src, re.M)
    res = dict(ok=False, file=vfile, theorems=theorems, closed=[], axioms={}, error=None)
    ok, log = coq_build([rel.replace(".v", ".vo")], timeout=timeout)
    if not ok:
        # find first error
        m = re.search(r"(File \"[^\"]+\", line \d+[^\n]*\n(?:.*\n){0,12})", log)
        res["error"] = (m.group(1) if m else log[-1500:]).strip()
        res["log"] = log[-4000:]
        return res
    # capture Print Assumptions output with a direct coqc run (make prints nothing when up to date)
    with Lock("coq"):
        r = subprocess.run(
            ["timeout", str(timeout), "coqc", "-Q", "theories", "PV", "-w", "none", rel],
            cwd=COQ,
            capture_output=True,
            text=True,
        )
    out = r.stdout
    if r.returncode != 0:
        res["error"] = (r.stderr or out)[-1500:]
        return res
    # Output blocks: either "Closed under the global context" or "Axioms:\n name : type ..."
    blocks = re.split(r"(?=Closed under the global context|Axioms:)", out)
    blocks = [b for b in blocks if b.startswith("Closed") or b.startswith("Axioms:")]
    printed = re.findall(r"^\s*Print\s+Assumptions\s+([A-Za-z0-9_'.]+)\s*\.", src, re.M)
    allow = allowed_axioms()
    bad = []
    for name, blk in zip(printed, blocks):
        if blk.startswith("Closed"):
            res["closed"].append(name)
        else:
            axs = re.findall(r"^([A-Za-z0-9_'.]+)\s*:", blk, re.M)
            res["axioms"][name] = axs
            extra = [a for a in axs if a.split(".")[-1] not in allow and a not in allow]
            if extra:
                bad.append((name, extra))
    missing = [t for t in theorems if t not in printed]
    if len(blocks) != len(printed):
        res["error"] = "Print Assumptions output count mismatch (%d vs %d)" % (len(blocks), len(printed))
    elif missing:
        res["error"] = "theorems without Print Assumptions: %s" % missing
    elif bad:
        res["error"] = "axioms outside the allow-list: %s" % bad
    else:
        res["ok"] = True
    return res


def grep_forbidden():
    hits = []
    for p in THEORIES.rglob("*.v"):
        if "Cases" in p.parts:
            continue
        txt = p.read_text()
        # strip comments (non-nested approximation, repeated)
        prev = None
        while prev != txt:
            prev = txt
            txt = re.sub(r"\(\*(?:(?!\(\*|\*\)).)*\*\)", " ", txt, flags=re.S)
        for m in FORBIDDEN.finditer(txt):
            line = txt.count("\n", 0, m.start()) + 1
            hits.append("%s:%d:%s" % (p.relative_to(COQ), line, m.group(0)))
    return hits


def coq_eval_cases(name, header, cases_terms, shard=300, timeout=900, jobs=8):
    """Evaluate boolean case terms inside Coq by vm_compute.

    header: Coq text (Require Imports and helper definitions).
    cases_terms: list of Coq terms of type bool (True = model agrees with the expected value).
    Returns list of indices of the cases that evaluate to false, or raises RuntimeError on a
    Coq failure.
    """
    d = THEORIES / "Cases"
    d.mkdir(exist_ok=True)
    files = []
    for k in range(0, len(cases_terms), shard):
        chunk = cases_terms[k : k + shard]
        fn = d / ("%s_%d_%d.v" % (name, os.getpid(), k // shard))
        body = [header, "Definition cases : list bool := ["]
        body.append(";\n".join("  (%s)" % t for t in chunk))
        body.append("].")
        body.append(
            "Fixpoint failing (i : nat) (l : list bool) : list nat := match l with nil => nil | cons b r => if b then failing (S i) r else cons i (failing (S i) r) end."
        )
        body.append("Eval vm_compute in (failing O cases).")
        fn.write_text("\n".join(body) + "\n")
        files.append((k, fn))
    failing = []
    procs = []
    try:
        for k, fn in files:
            while len([p for p in procs if p[1].poll() is None]) >= jobs:
                time.sleep(0.05)
            p = subprocess.Popen(
                ["timeout", str(timeout), "coqc", "-Q", "theories", "PV", "-w", "none", str(fn.relative_to(COQ))],
                cwd=COQ,
                stdout=subprocess.PIPE,
                stderr=subprocess.PIPE,
                text=True,
            )
            procs.append((k, p, fn))
        for k, p, fn in procs:
            out, err = p.communicate()
            if p.returncode != 0:
                raise RuntimeError("coqc failed on %s: %s" % (fn.name, (err or out)[-1500:]))
            m = re.search(r"=\s*(\[.*?\]|nil)\s*:\s*list nat", out, re.S)
            if not m:
                raise RuntimeError("cannot parse coqc output for %s: %s" % (fn.name, out[-500:]))
            txt = m.group(1)
            if txt not in ("nil", "[]"):
                for t in re.findall(r"\d+", txt):
                    failing.append(k + int(t))
    finally:
        for k, fn in files:
            for ext in (".v", ".vo", ".vok", ".vos", ".glob"):
                q = fn.with_suffix(ext)
                if q.exists():
                    q.unlink()
            aux = fn.parent / ("." + fn.stem + ".aux")
            if aux.exists():
                aux.unlink()
    return sorted(failing)


# ---------------------------------------------------------------------------
# Known findings


def load_known():
    p = VERIF / "known_findings.json"
    if not p.exists():
        return {"known": [], "fixed": []}
    return json.loads(p.read_text())


# ---------------------------------------------------------------------------
# Context


class Ctx:
    def __init__(self, prop, tier, seed):
        self.prop = prop
        self.tier = tier
        self.seed = seed
        self.t0 = time.time()
        self.rng = random.Random((seed * 1000003) ^ int(sha(prop)[:8], 16))
        self.proofs = []  # results of coq_props
        self.ties = []  # dict(name, cases, nontrivial, disagreements, samples, distribution)
        self.oracles = []  # dict(name, evaluations, nontrivial, failures, samples)
        self.notes = []
        self.assumptions = []
        self.translator = None
        self.searchers = []  # callables(ctx, budget) -> list of failures, used when something broke
        self.level = "proof"
        self.replay_fns = {}

    @property
    def quick(self):
        return self.tier == "quick"

    def n(self, quick, thorough):
        return quick if self.quick else thorough

    # -- registration -------------------------------------------------------
    def translate(self):
        ok, msg = run_translator()
        self.translator = dict(ok=ok, msg=msg)
        if not ok:
            self.ties.append(
                dict(name="translator", cases=1, nontrivial=0, disagreements=[dict(what="translator failed (fail-closed)", detail=msg)], samples=[])
            )
        return ok

    def proof(self, vfile):
        try:
            r = coq_props(vfile)
        except Exception as e:  # missing file etc.
            r = dict(ok=False, file=vfile, theorems=[], closed=[], axioms={}, error="%s: %s" % (type(e).__name__, e))
        self.proofs.append(r)
        return r

    def tie(self, name, fn, *a, **kw):
        t = time.time()
        try:
            r = fn(self, *a, **kw)
        except Exception as e:
            r = dict(cases=0, nontrivial=0, disagreements=[dict(what="harness crashed", detail=traceback.format_exc()[-3000:])], samples=[])
        r["name"] = name
        r["wall_s"] = round(time.time() - t, 2)
        self.ties.append(r)
        return r

    def oracle(self, name, fn, *a, **kw):
        t = time.time()
        try:
            r = fn(self, *a, **kw)
        except Exception as e:
            r = dict(evaluations=0, nontrivial=0, failures=[dict(what="oracle crashed", detail=traceback.format_exc()[-3000:], crash=True)], samples=[])
        r["name"] = name
        r["wall_s"] = round(time.time() - t, 2)
        self.oracles.append(r)
        return r

    def searcher(self, fn):
        self.searchers.append(fn)

    # -- verdict -------------------------------------------------------------
    def finish(self, classify=None):
        """classify(failure) -> known-finding id or None."""
        known = load_known()
        known_ids = {k["id"]: k for k in known.get("known", []) if k["property"] == self.prop}
        forbidden = grep_forbidden()
        broken = []
        for p in self.proofs:
            if not p["ok"]:
                broken.append(dict(kind="proof", what="%s: %s" % (p["file"], p["error"])))
        if forbidden:
            broken.append(dict(kind="proof", what="forbidden constructs in the development: %s" % forbidden[:10]))
        known_from_ties = []
        for t in self.ties:
            for d in t.get("disagreements", []):
                kid = None
                if classify is not None:
                    try:
                        kid = classify(dict(d, tie=t["name"]))
                    except Exception:
                        kid = None
                if kid is not None and kid in known_ids:
                    # the model-vs-implementation difference is an instance of a recorded known finding
                    known_from_ties.append(kid)
                    continue
                broken.append(dict(kind="correspondence", what="%s: %s" % (t["name"], d.get("what")), detail=d))
        failures = []
        for o in self.oracles:
            for f in o.get("failures", []):
                f = dict(f)
                f["oracle"] = o["name"]
                failures.append(f)
        # Failing-input search after a break
        def _is_known(f):
            try:
                kid = classify(f) if classify else None
            except Exception:
                kid = None
            return kid is not None and kid in known_ids
        # (failures that are instances of recorded known findings do not count as a failing input for the break)
        if broken and all(_is_known(f) for f in failures):
            for s in self.searchers:
                try:
                    found = s(self)
                except Exception:
                    found = []
                    self.notes.append("searcher crashed: " + traceback.format_exc()[-800:])
                for f in found:
                    f = dict(f)
                    f.setdefault("oracle", getattr(s, "__name__", "search"))
                    failures.append(f)
                if found:
                    break
        lines = []
        violations = 0
        seen_known = set()
        for kid in known_from_ties:
            if kid not in seen_known:
                seen_known.add(kid)
                lines.append("KNOWN-FINDING: property=%s %s" % (self.prop, known_ids[kid]["what"]))
        REPLAY.mkdir(exist_ok=True)
        unknown_failures = []
        for f in failures:
            try:
                kid = classify(f) if classify else None
            except Exception:
                kid = None
                self.notes.append("classify crashed: " + traceback.format_exc()[-400:])
            if kid is not None and kid in known_ids:
                if kid not in seen_known:
                    seen_known.add(kid)
                    lines.append("KNOWN-FINDING: property=%s %s" % (self.prop, known_ids[kid]["what"]))
            else:
                unknown_failures.append(f)
        if unknown_failures:
            f = unknown_failures[0]
            rp = REPLAY / ("%s-%s.json" % (self.prop, sha(canon(f))[:12]))
            rp.write_text(json.dumps(dict(property=self.prop, kind="failing-input", failure=f, broken=[b["what"] for b in broken][:5], others=len(unknown_failures) - 1), indent=1, default=str))
            lines.append("VIOLATION property=%s replay=%s" % (self.prop, rp))
            violations = len(unknown_failures)
        elif broken:
            b = broken[0]
            rp = REPLAY / ("%s-%s.json" % (self.prop, sha(canon(b))[:12]))
            rp.write_text(json.dumps(dict(property=self.prop, kind="no-failing-input-found", no_longer_checks=[x["what"] for x in broken][:20], first=b), indent=1, default=str))
            lines.append("VIOLATION property=%s replay=%s no-failing-input-found" % (self.prop, rp))
            violations = len(broken)
        self.write_evidence(violations, lines)
        for l in lines:
            print(l)
        sys.stdout.flush()
        return 1 if violations else 0

    def write_evidence(self, violations, lines):
        obligations = sum(len(p["theorems"]) for p in self.proofs)
        discharged = sum(len([t for t in p["theorems"] if p["ok"]]) for p in self.proofs)
        evaluations = sum(t.get("cases", 0) for t in self.ties) + sum(o.get("evaluations", 0) for o in self.oracles)
        nontrivial = sum(t.get("nontrivial", 0) for t in self.ties) + sum(o.get("nontrivial", 0) for o in self.oracles)
        samples = []
        for t in self.ties:
            samples += [dict(tie=t["name"], case=s) for s in t.get("samples", [])[:3]]
        for o in self.oracles:
            samples += [dict(oracle=o["name"], case=s) for s in o.get("samples", [])[:3]]
        for p in self.proofs:
            samples += [dict(theorem=t, file=p["file"]) for t in p["theorems"][:40]]
        axioms = sorted({a for p in self.proofs for axs in p["axioms"].values() for a in axs})
        cov = dict(
            obligations=max(obligations, 0),
            discharged=discharged,
            checker_cmd="cd /verif/coq && coq_makefile -f _CoqProject -o Makefile && make (full .vo build, coqc 8.16.1) + Print Assumptions per theorem",
            trusted_base=TRUSTED_BASE + (["axioms reported by Print Assumptions: " + ", ".join(axioms)] if axioms else ["Print Assumptions: all property theorems closed under the global context"]),
            evaluations=evaluations,
            distinct_nontrivial=nontrivial,
            rule="; ".join("%s: %s" % (x["name"], x.get("rule", "")) for x in self.ties + self.oracles if x.get("rule")),
            samples=samples[:60],
            traces_validated_against_impl=sum(t.get("cases", 0) for t in self.ties),
            proofs=[dict(file=p["file"], ok=p["ok"], theorems=p["theorems"], closed=p["closed"], axioms=p["axioms"], error=p["error"]) for p in self.proofs],
            ties=[{k: v for k, v in t.items() if k not in ("samples", "disagreements")} | dict(disagreements=len(t.get("disagreements", []))) for t in self.ties],
            oracles=[{k: v for k, v in o.items() if k not in ("samples", "failures")} | dict(failures=len(o.get("failures", []))) for o in self.oracles],
            translator=self.translator,
            output_lines=lines,
            notes=self.notes,
        )
        ev = dict(
            property_id=self.prop,
            tier=self.tier,
            seed=self.seed,
            level=self.level,
            coverage=cov,
            assumptions=self.assumptions,
            wall_s=round(time.time() - self.t0, 2),
            violations=violations,
        )
        EVIDENCE.mkdir(parents=True, exist_ok=True)
        (EVIDENCE / (self.prop + ".json")).write_text(json.dumps(ev, indent=1, default=str, ensure_ascii=False))
