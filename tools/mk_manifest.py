#!/usr/bin/env python3
"""Regenerates /verif/MANIFEST.json from the table below (run after adding a check)."""
import json
from pathlib import Path

VERIF = Path(__file__).resolve().parents[1]
PROPS = [json.loads(l) for l in (VERIF / "properties.jsonl").read_text().splitlines() if l.strip()]

BASE_NOTE = ("Trusted: Coq 8.16.1 kernel (no native_compute); Print Assumptions of every property theorem must be 'Closed under the global context' "
             "(or within tools/allowed_axioms.txt) - enforced on every run; hand-written Gallina models are tied to /repo only by the correspondence "
             "harness named in the technique field (differential run of the model's executable definitions, evaluated in Coq by vm_compute, against the "
             "implementation on generated exact inputs); the Python property oracle is used to find a concrete failing input, never as a proof. ")
ALG_NOTE = ("Trusted: Coq 8.16.1 kernel; translator tools/translate_algorithms.py (validated each run by a source round trip and a second emitter); "
            "DSL/Sem.v as the whole-series meaning of the mini-language (the index-level evaluator is tied to the code separately by the harnesses of "
            "C09/C18); wiring hypotheses (records wiring / wiring_tb) are discharged for the series-of-block-matrices instance in Series/*.v and tied to "
            "block_diagonalize by the exact oracle; exact arithmetic only (floating-point rounding not modelled). Print Assumptions: closed under the global context.")

CHECKS = {
    "C01": dict(cat="proof", tech="Coq theorem on the regenerated main_alg (translator) + exact differential oracle",
                text="Theorems C01_kept / C01_eliminated (+ _two_block): for every BlockAlg (all block counts, sizes, parameter counts and orders at once) and every solution of the program translated from algorithms.py on this run, the kept part of the plain product U†HU equals H_tilde and the eliminated part vanishes; general wiring and the two-block optimisation. C01_tie_sound + C01_tie_conclusions: when the executable reading accepts the implementation's tables (check_alg) and the decidable side conditions (inputs_ok) hold - both evaluated by vm_compute for every k_semeq case - the conclusions of C01/C02/C03 hold for those tables up to order N as a theorem (truncated algebra, Alg/Trunc.v). Rounding clause for floats monitored only.",
                note=ALG_NOTE),
    "C02": dict(cat="proof", tech="Coq theorem on the regenerated main_alg (translator) + exact differential oracle",
                text="Theorems C02_UdU, C02_UUd, C02_adjoint, C02_Ht_hermitian (+ _two_block) for every solution of the regenerated main_alg in every BlockAlg.",
                note=ALG_NOTE),
    "C03": dict(cat="proof", tech="Coq theorem on the regenerated main_alg + uniqueness by filtration induction + independent exact reference solver",
                text="Theorems C03_gauge (+ _two_block), C03_is_least_action, C03_unique: the computed U satisfies the defining equations and any two least-action unitaries coincide (given a left inverse of the Sylvester operator on eliminated elements). C03_tie_gauge / C03_tie_unique: for every k_semeq case with check_alg && inputs_ok the gauge condition holds for the implementation's tables up to order N, and any U' satisfying the least-action conditions up to order N equals the computed U up to order N (the left-inverse property is proved for the concrete diagonal solver).",
                note=ALG_NOTE),
    "C04": dict(cat="proof", tech="MathComp theorems on char_poly under truncated similarity + executable list-based char-poly proved equal to MathComp's, evaluated on the implementation's U, U†, H_tilde (k_charpoly) + exact char-poly oracle that never looks at U",
                text="13 theorems: similarity invariance of char_poly over any commutative ring, congruence version modulo any ideal (in particular modulo x^(N+1): coefficients of total order <= N, multi-parameter via F = K[c]), block-diagonal factorisation, Rayleigh-Schroedinger uniqueness of the eigenvalue series of a non-degenerate fully diagonalised level; tie lemmas proving the executable determinant equal to MathComp's. The bridge series-of-matrices <-> matrices-of-series to C01/C02 is not formalised (trusted).",
                note=BASE_NOTE + "The premises of C04_charpoly_trunc are the conclusions of C01/C02 read entry-wise (bridge between the Ncring and MathComp developments trusted); Q arithmetic of the executable check (Qred/Qeq_bool) is the unproved link of the tie."),
    "C05": dict(cat="proof", tech="Coq theorem on the regenerated nonhermitian_alg (translator) + exact differential oracle; similarity clauses _partial with known finding",
                text="C05_tie_conclusions: for every k_semeq case accepted by check_alg the three unconditional clauses hold for the implementation's tables up to order N as a theorem (truncated algebra); C05_tie_similarity_partial: so do the similarity clauses when additionally nh_inputs_ok evaluates to true (kept pairs have equal energies - the class outside the known finding). Theorems C05_inverse_l, C05_inverse_r, C05_gauge at full strength for every solution of the regenerated nonhermitian_alg in every BlockAlg (asymmetric masks included); C05_kept_partial / C05_eliminated_partial under the extra hypothesis that kept elements connect equal unperturbed energies - outside it the property is false on the unchanged tree (known finding C05-kept-distinct-energies, witness replayed each run). Coincidence with the Hermitian mode on Hermitian input: C05_hermitian_coincide_partial (Alg/Coincide.v, under [H_0, Sel x] = 0, i.e. the same class) + oracle.",
                note=ALG_NOTE),
    "C06": dict(cat="proof", tech="Coq: naturality of the semantics (any program) + equivariance by uniqueness, C16_direct, C17; tied by correspondence k_implicit (implicit vs explicit embedded), k_greens, k_projector; partial",
                text="C06_embedding_partial / C06_outputs_correspond_partial: any structure-preserving map between BlockAlgs intertwining the scopes maps solutions of the generated programs to solutions and (Hermitian mode) the three outputs correspond; with C16_direct (solver) and C17 (projector). C06_implicit_algebra / C06_implicit_similarity / C06_corner_outputs_correspond: the corner e T e (e = diag(1,P)) of a BlockAlg is a BlockAlg with product x e y and unit e, so C01/C02 hold for the implicit computation itself, and phi x = J x J^dagger (J = diag(1,Psi_B) a partial isometry) is a least-action morphism between the explicit and the implicit corner: outputs correspond. Partial: that the concrete matrices diag(1,P), diag(1,Psi_B) satisfy the corner equations in the algebra of series of matrices is assumed (checked numerically by k_implicit); non-Hermitian correspondence by harness; KPM accuracy monitored only. Known finding C06-nh-implicit-fully-diagonalize (IndexError) replayed each run.",
                note=BASE_NOTE + "SuperLU/MUMPS and KPM results compared numerically (1e-9*scale, 100*atol)."),
    "C07": dict(cat="proof", tech="Coq: C01-C03 instantiated at the BlockAlg of series of infinite row/column-finite matrices (C07_fock) + C08 (NOF homomorphism) + C16_scalar + C07_mask laws; decided on the implementation by the Fock-space oracle o_fock (operator-valued result vs truncated matrices); partial",
                text="C07_mask_* (apply_mask_to_operator is an additive idempotent selection, keep/eliminate partition, commutes with adjoint and with functions of number operators), C08_* and C16_scalar on the NumberOrderedForm model, and the generic theorems C01/C02 for any BlockAlg. C07_fock_kept/_eliminated/_unitary/_adjoint/_gauge (Props/C07_fock.v): the series of infinite row- and column-finite matrices on a countable Fock basis form a BlockAlg wired by the diagonal solver on a number-conserving H_0 (non-degenerate coupled levels), so U†HU = H_tilde, U†U = 1 and the least-action gauge hold for operators on Fock space themselves. Partial: assembling the C08 denotations of number-ordered forms into that algebra with Sel = apply_mask is by the ties, and the band-locality argument (equality with TRUNCATED matrices away from the edge) is not formalised; that clause is decided by the oracle (Jordan-Wigner + Fock truncation incl. spin modes, operator-valued masks, matrix-valued Hamiltonians; U†U=1 and U†HU=H_tilde on interior states).",
                note=BASE_NOTE + "sympy simplification assumed to preserve denotations."),
    "C08": dict(cat="proof", tech="Coq theorems on a hand model of NumberOrderedForm (Fock-space denotation with Jordan-Wigner signs) tied by correspondence k_nof (term dictionaries on occupation grids, vm_compute) + independent matrix oracle",
                text="17 theorems, unbounded in occupation numbers, powers and number of modes: _multiply_op (all four branches incl. the fermionic sign counting), _multiply_expr, __mul__, +, -, adjoint (weighted inner product), integer powers denote the corresponding operators; associativity and distributivity as equalities of denotations; C08_dagger_mul ((xy)† = y†x† on matrix elements between physical Fock states); C08_from_expr / C08_as_expr / C08_roundtrip (conversion from and to expressions denotes the same operator, from_expr(as_expr x) never raises); C08_pow_neg (negative powers of number-only forms are inverses where the coefficient does not vanish). Negative powers of forms with unpaired operators raise in the code and are outside the property; as_expr theorem for coefficients without reciprocals.",
                note=BASE_NOTE + "Preconditions sig_ok / wf_nof / bok in the statements (operator ordering, binary powers in {-1,0,1}, binary occupations) are preserved by every modelled operation; sympy xreplace/simplify assumed value-preserving."),
    "C09": dict(cat="proof", tech="Coq theorems on hand models of the compiler (Compile.v) and evaluator (Exec.v) against the specification interpreter (Interp.v), tied by correspondence k_compile (generated code, canonical s-expressions) and k_seriescomp (values on generated programs) + independent Python interpreter as oracle",
                text="C09_sound: for every program, value ring, scope, fuel, fault plan and request schedule, every value returned by the evaluator for ANY series name (deleted or not, either table) denotes the value of the direct interpretation, including deletion of once-used terms, Hermitian shortcuts (their validity is an explicit hypothesis herm_low/herm_diag of the world, PROVED for the shipped main algorithm: C09_sound_main via DSL/HermValid.v, HermMain.v), flags and linear-operator mode; C09_sound_slices (multi-element slice/list requests on any name incl. deletable intermediates); C09_main_regular / C09_nh_regular; C09_terminates (+ _main, _nh, C09_sound_main_total, C09_sound_nh_total): for every stratified program a request run with fuel >= fuel_bound (linear in the total order) never runs out of fuel, under any fault plan - so the soundness statements for the shipped algorithms carry no fuel premise. Not proved: that the outcome is a value rather than a Python exception.",
                note=BASE_NOTE),
    "C10": dict(cat="proof", tech="Coq corollaries of the evaluator soundness invariant + correspondence k_schedules (all permutations/repetitions of requests, shared inputs, read-only arrays)",
                text="C10_history (any two schedules return the same value, the interpretation value), C10_inputs_untouched (compile never deletes an input; no request changes a Done input entry). Physical non-mutation of NumPy buffers is enforced by the harness (read-only flags, deep copies): partial for that clause.",
                note=BASE_NOTE),
    "C11": dict(cat="proof", tech="Coq theorems on the evaluator model with a fault plan (any callback index, any exception class, repeated faults) + exhaustive fault injection through the three public callbacks (k_faults)",
                text="C11_exn_safe (after any schedule under any fault plan no Pending entry is left, later values equal the undisturbed ones), C11_no_pending_returned, C11_recursion, C11_later_requests_terminate; the fault harness also uses the library's own errors as faults (o_library_errors).",
                note=BASE_NOTE + "That a later request returns (termination) is covered by the harness only."),
    "C12": dict(cat="proof", tech="Coq theorems (causal cone, once-only input evaluation, non-interference) for every program of the language + correspondence k_calllog (call logs of lazily defined Hamiltonians)",
                text="C12_causal, C12_once, C12_noninterference for every program whose input names contain no '@'; C12_definition (only zeroth-order terms evaluated at definition time) is decided by the harness.",
                note=BASE_NOTE),
    "C13": dict(cat="proof", tech="Coq: each relation is an LAHom between concrete series instances (Series/Sym*.v) + transport theorems (naturality/uniqueness, Alg/Equivariance.v) + exact relation oracles on the implementation",
                text="C13_scale, C13_permute, C13_vanishing, C13_merge, C13_power: for the concrete algebra of series of block matrices with the wiring discharged, the map applied to H is the map relating U, U† and H_tilde (merge and power are instances of a general push-forward theorem along a monoid morphism with finite fibres). Hermitian mode; for the non-Hermitian algorithm the general transport theorem (transport_nh along an SGHom, Alg/Equivariance.v) is proved, the per-relation instances are decided by the oracles.",
                note=ALG_NOTE),
    "C14": dict(cat="proof", tech="Coq theorems on hand models of the container normalisation and of operator_to_BlockSeries tied by correspondence k_formats (vm_compute) + pairwise exact comparison of all presentations on the implementation",
                text="11 theorems: C14_explicit_symbols / C14_default_symbols (an explicit symbols= list is used in the given order; symbols=None uses the set-iteration order, an input fact); all container formats denoting the same family normalise to the same series, list orders, symbols sorted by name, Taylor coefficients for polynomial symbolic dependence (_partial: non-polynomial analytic dependence delegated to sympy), nested blocks, projection L_i^dagger A R_j (entry formula; sub-matrices for index vectors), Hermitian fill. The eigenbasis-rotation clause is the LAHom instance C15_degenerate_rotation / transport theorems (Alg/Equivariance.v).",
                note=BASE_NOTE + "Dense / sparse / symbolic values are one model: their equivalence is the correspondence of all three branches with it."),
    "C20": dict(cat="proof", tech="Coq theorems on a hand model of the validation order of block_diagonalize (definition time and lazily executed tests) tied by correspondence k_validate (malformed-input stream, exception class and stage) + oracle on the implementation",
                text="17 theorems (incl. cross-subspace overlap, container/vector/ragged classes, dead-code statement C20_kpm_pairs_shadowed): each listed ill-posed class, embedded in any otherwise arbitrary call record, is rejected with a listed exception no later than the first evaluation needing the quantity; well-posed calls are accepted; no division by a quantity within tolerance on accepted numeric input (with C16_diagonal_nodiv). Class definitions follow the code (symbolic blocks whose vanishing sympy cannot decide are accepted with a warning; Hermiticity is checked only for sympy-expression input). One residual corner (custom solver + single block + bare all-False mask raises UnboundLocalError) is kept visible in the statements.",
                note=BASE_NOTE + "numpy.isclose/allclose and sympy is_zero/is_hermitian/Eq are given facts of the abstract call record."),
    "C15": dict(cat="proof", tech="Coq: LAHom instances (conjugation, basis permutation incl. block relabelling, degenerate rotation, direct sum) + direct least-action arguments (shift, scale) + transport/uniqueness + exact relation oracles on the implementation",
                text="C15_conjugation, C15_basis_perm(_general), C15_relabel, C15_degenerate_rotation (+ mask condition), C15_shift, C15_scale, C15_direct_sum (+ least_action core) for the concrete algebra of series of block matrices. Tolerance comparisons of the real code are assumed not to flip under the transformation (the property's own precondition); non-Hermitian relations by the oracles only.",
                note=ALG_NOTE),
    "C16": dict(cat="proof", tech="Coq theorems on hand models of the four solvers (stdlib / MathComp) tied by correspondence k_sylvdiag, k_greens, k_group, k_kpm, k_scalar",
                text="C16_diagonal (+ antiherm, nodiv), C16_direct (+ pivots, regular, both orientations), C16_group, C16_kpm_contract (+ terminates, bound, small max_moments), C16_scalar: each built-in solver returns a solution of its equation where it is defined; external numerics modelled by contracts. The shared-eigenvalue predicate of the diagonal solver is |a-b| <= atol + 1e-5|b| with the solver's atol (after the repair D26 in /repo).",
                note=BASE_NOTE + "scipy factorized/MUMPS, pivoted QR, eigsh, KDTree are contracts; invertibility of the pivot minors is a hypothesis checked exactly by the harness on every case; KPM convergence in floating point is outside the theorems."),
    "C17": dict(cat="proof", tech="MathComp theorems on a model of ComplementProjector (object graph + denotation) with an executable list model proved to refine it, tied bit-exactly by k_projector (vm_compute)",
                text="17 theorems: matvec/rmatvec/adjoint/conjugate/transpose denote the dense 1 - R L^dagger and its transforms for every word of operations (induction over the word), caching links, idempotency, Hermitian flag, composites P A P via the LinearOperator contract, shape/dtype; `.T.T is o` only partially (refuted witness: object identity, values unaffected).",
                note=BASE_NOTE + "SciPy LinearOperator composition contract is modelled, not verified."),
    "C18": dict(cat="proof", tech="Coq theorems on a hand model of product_by_order/cauchy_dot_product tied by correspondence k_cauchydot (vm_compute)",
                text="8 theorems: enumeration of splittings, product_by_order = Cauchy sum for all shapes/parameters/sentinel patterns, association of m factors, laziness, Hermitian index transposition; the Hermitian half-sum only for adjoint pairs (_partial) with a _refuted witness that is a KNOWN FINDING on the implementation; `one + x` raise is a second known finding.",
                note=BASE_NOTE + "Values of a product live in one ring (rectangular blocks embed by zero padding)."),
    "C19": dict(cat="proof", tech="Coq theorems on a hand model of BlockSeries.__getitem__ (trial array, cache, PENDING) tied by correspondence k_getitem / k_npindex (vm_compute)",
                text="11 theorems: C19_evaluated_set (for every outcome the element requests are exactly the sorted duplicate-free NumPy-selected positions, a prefix up to the first exception); the trial-array algorithm returns np_index of any dense array of sufficient extent (whole documented subset incl. broadcasting, advanced-indices-first and NumPy's three-phase error precedence), views, IndexError classes, exactly-once evaluation invariant, RuntimeError on self reference, cleanup after exceptions.",
                note=BASE_NOTE + "np_index is a specification of NumPy indexing tied to the real NumPy by k_npindex; C19_exn_cleanup assumes user evals touch caches only through element requests."),
}

NOT_YET = "check under construction (no machinery committed yet for this property)"


def main():
    checks = []
    for p in PROPS:
        pid = p["id"]
        if pid not in CHECKS:
            continue
        c = CHECKS[pid]
        checks.append({
            "property_id": pid,
            "quick_cmd": "tools/check.py %s --tier quick" % pid,
            "thorough_cmd": "tools/check.py %s --tier thorough" % pid,
            "evidence_file": "/verif/evidence/%s.json" % pid,
            "replay_cmd_template": "tools/check.py --replay {path}",
            "engine": "coq",
            "level_claimed": {"category": c["cat"], "text": c["text"], "design_ref": "DESIGN.md section 5, %s" % pid},
            "level_note": c["note"],
            "technique": c["tech"],
        })
    claimed = [c["property_id"] for c in checks]
    m = {
        "version": 1,
        "setup_cmd": "cd /verif && /venv/bin/python tools/check.py --setup",
        "hooks": {"guard": "PYMABLOCK_VERIF",
                  "enable": "no source hooks are needed: all observation goes through public callbacks and objects reachable from returned series; checks run /repo with PYTHONPATH=/repo PYTHONHASHSEED=0",
                  "baseline_off_cmd": "cd /repo && /venv/bin/python -m pytest -ra -q -p no:cacheprovider --timeout=900 --continue-on-collection-errors",
                  "source_commits": [], "add_only": True},
        "engines": [
            {"name": "coq", "path": "coq/theories", "serves_properties": claimed, "kind_free_text": "Coq 8.16.1 development (stdlib Ncring + MathComp), full .vo build, Print Assumptions per theorem"},
            {"name": "harness", "path": "tools", "serves_properties": claimed, "kind_free_text": "Python check driver, translator, correspondence harnesses (model evaluated in Coq by vm_compute), exact oracles"},
        ],
        "checks": checks,
        "notes": "Machine-checked proof in Coq 8.16 on models tied to /repo by a translator (algorithms.py) and by correspondence checks; see DESIGN.md. Genuine defects repaired by fix: commits and known findings are listed in known_findings.json.",
        "not_applicable": [{"property_id": p["id"], "reason": NOT_YET} for p in PROPS if p["id"] not in CHECKS],
    }
    (VERIF / "MANIFEST.json").write_text(json.dumps(m, indent=1, ensure_ascii=False))
    print("claimed:", claimed)


if __name__ == "__main__":
    main()
