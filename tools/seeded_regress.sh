#!/bin/bash
# usage: tools/seeded_regress.sh [id...]   re-applies every seeded change (or the given ones) in a scratch worktree and runs
# the checks named in its meta.json (property + also); one line per (change, check).
V=$(cd "$(dirname "$0")/.." && pwd)
IDS="$@"; [ -z "$IDS" ] && IDS=$(ls $V/seeded)
for ID in $IDS; do
  [ -f $V/seeded/$ID/patch.diff ] || continue
  $V/tools/seeded_recheck.sh $ID
done
