"""Independent oracle for NumberOrderedForm (C08): the implementation versus a finite matrix
representation built here from scratch (exact arithmetic, no pymablock code involved).

Representation (sparse: an operator is a map  basis state -> {basis state: Gaussian rational}):
  a basis state is the tuple of occupations of the modes of a mode list like ["B","L","S","F","F"];
  * boson   occupations 0..K-1, NON-normalised basis:  a e_n = n e_{n-1},  a† e_n = e_{n+1}
            (a† e_{K-1} = 0: truncation),  N = diag(0..K-1)           =>  [a, a†] = 1
  * ladder  occupations -W..W:  L e_n = e_{n-1},  L† e_n = e_{n+1} (dropped outside the window),
            N = diag(n)                                               =>  L L† = L† L = 1, N L = L (N-1)
  * spin    sigma_minus e_1 = e_0, sigma_minus e_0 = 0, sigma_plus e_0 = e_1, N = diag(0,1); spins
            commute with every other mode
  * fermion Jordan-Wigner over the fermion modes only:
            c_j = (prod_{fermion i<j} (-1)^{N_i}) sigma_minus_j
  `self_check()` asserts the CCR/CAR and the number-operator relations of these actions.
  K and W are chosen per evaluation as (largest test occupation) + (total degree of the expression)
  + 1, so the truncation can never be reached from a test state; the Space object records any edge
  hit and the oracle raises if that ever happens.

Meaning of a NumberOrderedForm (what is being tested): a term (powers, coeff) denotes
   (op_i†)^(-p_i) for p_i<0, ascending i left to right
   * coeff(N_0..N_k)
   * (op_i)^(p_i) for p_i>0, DESCENDING i left to right
and it is applied to a basis state rightmost factor first, coeff being evaluated (exactly, with
nc.eval_coeff = xreplace of the placeholders) at the occupations of the state it acts on.

Checks (one "evaluation" each; every comparison is exact, on the vacuum and on a handful of other
basis states that cover every 0/1 configuration of the spin/fermion modes when there are <= 8):
  tree_build      direct interpretation of the tree with the elementary actions  ==  nc.build_impl
  tree_from_expr  the same against NumberOrderedForm.from_expr(nc.to_sympy(tree))
  assoc           (x*y)*z == x*(y*z)              (implementation only, compared as actions)
  distrib         x*(y+z) == x*y + x*z
  dagger_mul      Dagger(x*y) == Dagger(y)*Dagger(x)
  round_trip      from_expr(x.as_expr(), operators) == x
`adj` nodes are interpreted structurally (adj op = op with dag flipped, adj num = num, adj const =
conjugate, adj (a b) = adj b * adj a, ...) because in the non-normalised boson basis the matrix
transpose is the adjoint only up to the weights n!.

Failure input (JSON, self-contained):  dict(check=..., modes=[...], trees=[...], states=[[...],...]).
"""
import json
import signal
import sys
import time
from fractions import Fraction as Fr

from vlib import core
from harness import nof_common as nc  # puts core.REPO on sys.path and imports pymablock from there

sympy = nc.sympy
Dagger = nc.Dagger
NumberOrderedForm = nc.NumberOrderedForm

CHECKS = ("tree_build", "tree_from_expr", "assoc", "distrib", "dagger_mul", "round_trip")
CASE_TIME_LIMIT = 40  # seconds; a case that takes longer is skipped (counted, never a failure)
G0 = (Fr(0), Fr(0))
G1 = (Fr(1), Fr(0))


class OracleInternalError(Exception):
    """The oracle itself is wrong (truncation reached, malformed tree): never blamed on /repo."""


class CaseTimeout(Exception):
    pass


# ---------------------------------------------------------------------------
# Gaussian rationals and sparse vectors {state: (re, im)}


def g_mul(a, b):
    return (a[0] * b[0] - a[1] * b[1], a[0] * b[1] + a[1] * b[0])


def v_add_to(acc, st, c):
    o = acc.get(st)
    if o is None:
        acc[st] = c
    else:
        acc[st] = (o[0] + c[0], o[1] + c[1])


def v_clean(v):
    return {s: c for s, c in v.items() if c[0] != 0 or c[1] != 0}


def v_scale(v, c):
    return {s: g_mul(c, x) for s, x in v.items()}


def v_sum(a, b, sign=1):
    out = dict(a)
    for s, c in b.items():
        v_add_to(out, s, (sign * c[0], sign * c[1]))
    return out


def v_str(v):
    def g(c):
        return str(c[0]) if c[1] == 0 else "(%s+%si)" % (c[0], c[1])

    if not v:
        return "0"
    return " + ".join("%s|%s>" % (g(c), ",".join(map(str, s))) for s, c in sorted(v.items()))


# ---------------------------------------------------------------------------
# the finite representation


class Space:
    """Elementary actions on basis states of a mode list, truncated at K (bosons) and W (ladders)."""

    def __init__(self, modes, K, W):
        self.modes = list(modes)
        self.K = K
        self.W = W
        self.fermi_before = []
        for i, m in enumerate(self.modes):
            self.fermi_before.append([j for j in range(i) if self.modes[j] == "F"] if m == "F" else [])
        self.edge_hit = False

    def elem(self, i, dag, st):
        """generator i (dag: its adjoint) on basis state st -> (integer coefficient, state) or None."""
        m = self.modes[i]
        n = st[i]
        if m == "B":
            if dag:
                if n + 1 > self.K - 1:
                    self.edge_hit = True
                    return None
                c, n2 = 1, n + 1
            else:
                if n == 0:
                    return None
                c, n2 = n, n - 1
        elif m == "L":
            n2 = n + 1 if dag else n - 1
            if abs(n2) > self.W:
                self.edge_hit = True
                return None
            c = 1
        else:  # two-level modes
            if dag:
                if n != 0:
                    return None
                n2 = 1
            else:
                if n != 1:
                    return None
                n2 = 0
            c = 1
            if m == "F":  # Jordan-Wigner string over the earlier fermion modes
                if sum(st[j] for j in self.fermi_before[i]) % 2:
                    c = -1
        return c, st[:i] + (n2,) + st[i + 1 :]

    def apply_elem(self, i, dag, vec):
        out = {}
        for st, c in vec.items():
            r = self.elem(i, dag, st)
            if r is not None:
                k, st2 = r
                v_add_to(out, st2, (c[0] * k, c[1] * k))
        return out

    def apply_num(self, i, vec):
        return {st: (c[0] * st[i], c[1] * st[i]) for st, c in vec.items() if st[i] != 0}


def self_check():
    """CCR / CAR / number relations of the elementary actions, away from the truncation edge."""
    modes = ["B", "B", "L", "S", "S", "F", "F", "F"]
    sp = Space(modes, 9, 9)
    import itertools

    def word(w, st):  # w: list of (i, dag) or ("n", i), leftmost factor first
        vec = {st: G1}
        for f in reversed(w):
            vec = sp.apply_num(f[1], vec) if f[0] == "n" else sp.apply_elem(f[0], f[1], vec)
        return v_clean(vec)

    def comb(terms, st):
        acc = {}
        for k, w in terms:
            for s, c in word(w, st).items():
                v_add_to(acc, s, (c[0] * k, c[1] * k))
        return v_clean(acc)

    states = []
    for bits in itertools.product((0, 1), repeat=5):
        for b in ((0, 0, 0), (1, 3, -2), (4, 0, 5), (2, 2, 1)):
            states.append(b + bits)
    n = len(modes)
    for st in states:
        one = {st: G1}
        for i in range(n):
            a, ad = (i, 0), (i, 1)
            m = modes[i]
            if m == "B":
                assert comb([(1, [a, ad]), (-1, [ad, a])], st) == one, ("CCR", i, st)
                assert comb([(1, [ad, a]), (-1, [("n", i)])], st) == {}, ("N=a†a", i, st)
            elif m == "L":
                assert word([a, ad], st) == one and word([ad, a], st) == one, ("ladder", i, st)
                assert comb([(1, [("n", i), a]), (-1, [a, ("n", i)]), (1, [a])], st) == {}, ("NL=L(N-1)", i, st)
                assert comb([(1, [("n", i), ad]), (-1, [ad, ("n", i)]), (-1, [ad])], st) == {}, ("NL†", i, st)
            else:
                assert comb([(1, [a, ad]), (1, [ad, a])], st) == one, ("{c,c†}=1", i, st)
                assert word([a, a], st) == {} and word([ad, ad], st) == {}, ("nilpotent", i, st)
                assert comb([(1, [ad, a]), (-1, [("n", i)])], st) == {}, ("N=c†c", i, st)
            for j in range(i + 1, n):
                b, bd = (j, 0), (j, 1)
                sgn = 1 if (m == "F" and modes[j] == "F") else -1  # anticommute / commute
                for p, q in ((a, b), (a, bd), (ad, b), (ad, bd)):
                    assert comb([(1, [p, q]), (sgn, [q, p])], st) == {}, ("pair", i, j, p, q, st)
    assert not sp.edge_hit
    return True


_SELF_CHECKED = False


def ensure_self_check():
    global _SELF_CHECKED
    if not _SELF_CHECKED:
        self_check()
        _SELF_CHECKED = True


# ---------------------------------------------------------------------------
# trees: structural adjoint, degree, direct interpretation


def push_adj(t, flip=False):
    """Equivalent tree without `adj` nodes."""
    k = t[0]
    if k == "op":
        return ["op", t[1], (1 - t[2]) if flip else t[2]]
    if k == "num":
        return t
    if k == "const":
        if not flip:
            return t
        return ["const", t[1], str(-Fr(t[2]))]
    if k == "neg":
        return ["neg", push_adj(t[1], flip)]
    if k == "adj":
        return push_adj(t[1], not flip)
    if k == "pow":
        return ["pow", push_adj(t[1], flip), t[2]]
    if k == "mul":
        if flip:
            return ["mul", push_adj(t[2], True), push_adj(t[1], True)]
        return ["mul", push_adj(t[1]), push_adj(t[2])]
    if k in ("add", "sub"):
        return [k, push_adj(t[1], flip), push_adj(t[2], flip)]
    raise OracleInternalError("bad tree node %r" % (k,))


def degree(t):
    """Upper bound of the number of ladder steps any mode can make."""
    k = t[0]
    if k == "op":
        return 1
    if k in ("num", "const"):
        return 0
    if k in ("neg", "adj"):
        return degree(t[1])
    if k == "pow":
        return int(t[2]) * degree(t[1])
    if k == "mul":
        return degree(t[1]) + degree(t[2])
    return max(degree(t[1]), degree(t[2]))


def has_op(t):
    if t[0] == "op":
        return True
    return any(has_op(x) for x in t[1:] if isinstance(x, list))


def is_nontrivial(t):
    """contains a product of two operator-carrying factors (mul with an op leaf on both sides, or a
    power >= 2 of something containing an op leaf)."""
    k = t[0]
    if k == "mul" and has_op(t[1]) and has_op(t[2]):
        return True
    if k == "pow" and int(t[2]) >= 2 and has_op(t[1]):
        return True
    return any(is_nontrivial(x) for x in t[1:] if isinstance(x, list))


def apply_tree(t, vec, sp):
    """Action of an adj-free tree on a sparse vector (mul = composition, rightmost first)."""
    if not vec:
        return vec
    k = t[0]
    if k == "op":
        return sp.apply_elem(t[1], t[2], vec)
    if k == "num":
        return sp.apply_num(t[1], vec)
    if k == "const":
        return v_scale(vec, (Fr(t[1]), Fr(t[2])))
    if k == "neg":
        return v_scale(apply_tree(t[1], vec, sp), (Fr(-1), Fr(0)))
    if k == "pow":
        for _ in range(int(t[2])):
            vec = apply_tree(t[1], vec, sp)
        return vec
    if k == "mul":
        return apply_tree(t[1], apply_tree(t[2], vec, sp), sp)
    if k == "add":
        return v_sum(apply_tree(t[1], vec, sp), apply_tree(t[2], vec, sp))
    if k == "sub":
        return v_sum(apply_tree(t[1], vec, sp), apply_tree(t[2], vec, sp), -1)
    raise OracleInternalError("bad tree node %r" % (k,))


def direct_action(tree, sp, st):
    return v_clean(apply_tree(push_adj(tree), {tuple(st): G1}, sp))


# ---------------------------------------------------------------------------
# action of a NumberOrderedForm (term semantics of the module docstring)


class NofActor:
    def __init__(self, nof, ops):
        if not isinstance(nof, NumberOrderedForm):
            raise TypeError("the implementation returned %s, not a NumberOrderedForm" % type(nof).__name__)
        self.n = len(ops)
        own = list(nof.operators)
        self.idx = [list(ops).index(o) for o in own]  # position of each own operator in the mode list
        self.phs = list(nof._number_operator_placeholders)
        if len(self.phs) != len(own):
            raise ValueError("placeholders not aligned with operators")
        self.terms = []
        for powers, coeff in nof.args[1]:
            full = [0] * self.n
            if len(powers) != len(own):
                raise ValueError("powers tuple of length %d for %d operators" % (len(powers), len(own)))
            for j, p in enumerate(powers):
                if not sympy.sympify(p).is_Integer:
                    raise ValueError("non-integer power %r" % (p,))
                full[self.idx[j]] = int(p)
            self.terms.append((full, coeff))
        self.cache = {}

    def coeff_at(self, ti, st):
        key = (ti, st)
        if key not in self.cache:
            point = [st[i] for i in self.idx]
            self.cache[key] = nc.eval_coeff(self.terms[ti][1], self.phs, point)
        return self.cache[key]

    def action(self, sp, st):
        """-> sparse vector, or None when some coefficient is undefined at a reached state."""
        out = {}
        for ti, (full, _) in enumerate(self.terms):
            cur, c = tuple(st), G1
            dead = False
            for i in range(self.n):  # annihilators: stored descending, so ascending acts first
                for _ in range(max(full[i], 0)):
                    r = sp.elem(i, 0, cur)
                    if r is None:
                        dead = True
                        break
                    c, cur = (c[0] * r[0], c[1] * r[0]), r[1]
                if dead:
                    break
            if dead:
                continue
            v = self.coeff_at(ti, cur)
            if v is None:
                return None
            c = g_mul(c, v)
            if c[0] == 0 and c[1] == 0:
                continue
            for i in reversed(range(self.n)):  # creators: stored ascending, so descending acts first
                for _ in range(max(-full[i], 0)):
                    r = sp.elem(i, 1, cur)
                    if r is None:
                        dead = True
                        break
                    c, cur = (c[0] * r[0], c[1] * r[0]), r[1]
                if dead:
                    break
            if dead:
                continue
            v_add_to(out, cur, c)
        return v_clean(out)


# ---------------------------------------------------------------------------
# one check


def _key(t):
    return json.dumps(t)


class Impl:
    """Memo of implementation objects of one case (so the law checks reuse x, y, z, x*y)."""

    def __init__(self, modes):
        self.modes = list(modes)
        self.ops = nc.make_ops(modes)
        self.memo = {}

    def build(self, t):
        k = _key(t)
        if k not in self.memo:
            self.memo[k] = nc.build_impl(t, self.ops)
        return self.memo[k]

    def mul(self, a, b):
        k = "M" + _key(a) + _key(b)
        if k not in self.memo:
            self.memo[k] = self.build(a) * self.build(b)
        return self.memo[k]


# ---------------------------------------------------------------------------
# special branches of the class: functions of number operators, Pauli matrices, symbolic / fractional /
# negative powers, division, substitution, arithmetic with plain sympy expressions, exception classes.
# A special evaluation is ("special", [spec]) with a JSON spec; sides may also be ("vec", fn(sp, st)).

_T = sympy.Symbol("tau")  # must differ from every operator label (labels are sympy Symbols too: xreplace would rename the operator)
_K = sympy.Symbol("k", integer=True, positive=True)


def _fun_sympy(name, arg):
    return {"factorial": sympy.factorial, "abs": sympy.Abs, "floor": lambda z: sympy.floor(z / 2), "binomial": lambda z: sympy.binomial(z, 2),
            "sqrt": sympy.sqrt, "inv": lambda z: z ** sympy.Integer(-1), "inv2": lambda z: z ** sympy.Integer(-2)}[name](arg)


def _fun_value(name, n):
    """exact value on the integer n, or None where it is undefined / irrational (the state is skipped)"""
    import math

    if name == "factorial":
        return Fr(math.factorial(n)) if n >= 0 else None
    if name == "abs":
        return Fr(abs(n))
    if name == "floor":
        return Fr(n // 2)
    if name == "binomial":
        return Fr(n * (n - 1), 2)
    if name == "sqrt":
        r = math.isqrt(n) if n >= 0 else -1
        return Fr(r) if r >= 0 and r * r == n else None
    if name == "inv":
        return Fr(1, n) if n else None
    if name == "inv2":
        return Fr(1, n * n) if n else None
    raise OracleInternalError(name)


def _seq_vec(seq, sp, st):
    """apply a sequence (leftmost factor LAST) of ["op", i, dag] / ["f", name, [modes], c] / ["tree", t] to a basis state"""
    vec = {tuple(st): G1}
    for item in reversed(seq):
        if item[0] == "op":
            vec = sp.apply_elem(item[1], item[2], vec)
        elif item[0] == "tree":
            vec = apply_tree(push_adj(item[1]), vec, sp)
        else:
            out = {}
            for s2, c in vec.items():
                v = _fun_value(item[1], sum(s2[i] for i in item[2]) + item[3])
                if v is None:
                    return None
                v_add_to(out, s2, (c[0] * v, c[1] * v))
            vec = out
    return v_clean(vec)


def _seq_sympy(seq, ops):
    e = sympy.S.One
    for item in seq:
        if item[0] == "op":
            o = ops[item[1]]
            e = e * (Dagger(o) if item[2] else o)
        elif item[0] == "tree":
            e = e * nc.to_sympy(item[1], ops)
        else:
            arg = sum((nc.NumberOperator(ops[i]) for i in item[2]), sympy.S.Zero) + item[3]
            e = e * _fun_sympy(item[1], arg)
    return e


def _seq_str(seq, modes):
    out = []
    for item in seq:
        if item[0] == "op":
            out.append(nc.tree_str(item, modes))
        elif item[0] == "tree":
            out.append(nc.tree_str(item[1], modes))
        else:
            out.append("%s(%s%+d)" % (item[1], "+".join("N%d" % i for i in item[2]), item[3]))
    return " * ".join(out)


def _pauli_tree(which, i):
    if which == "Z":
        return ["sub", ["mul", ["const", "2", "0"], ["num", i]], ["const", "1", "0"]]
    if which == "X":
        return ["add", ["op", i, 0], ["op", i, 1]]
    return ["sub", ["mul", ["const", "0", "1"], ["op", i, 0]], ["mul", ["const", "0", "1"], ["op", i, 1]]]


def special_sides(spec, impl):
    """-> (description, degree, left, right)   or   ("custom", message-or-None)"""
    ops, modes = impl.ops, impl.modes
    F = NumberOrderedForm.from_expr
    kind = spec["sp"]
    if kind == "seq":  # functions of number operators, sqrt / negative powers of number-only forms, inside products
        seq = spec["seq"]
        x = F(_seq_sympy(seq, ops), operators=ops)
        deg = 2 + sum(1 if it[0] == "op" else (degree(it[1]) if it[0] == "tree" else 0) for it in seq)
        return ("from_expr(%s) vs the direct action" % _seq_str(seq, modes), deg, ("vec", lambda sp, st: _seq_vec(seq, sp, st)), ("nof", x))
    if kind == "nofpow":  # (number-only form) ** negative or fractional exponent through __pow__ / __truediv__
        base = F(nc.NumberOperator(ops[spec["mode"]]) + spec["c"], operators=ops)
        X = impl.build(spec["x"])
        fn = {"-1": "inv", "-2": "inv2", "1/2": "sqrt"}[spec["e"]]
        e = sympy.Rational(spec["e"])
        if spec["how"] == "div":
            y, seq = X / base, [["tree", spec["x"]], ["f", "inv", [spec["mode"]], spec["c"]]]
        elif spec["how"] == "divconst":
            y, seq = X / sympy.Rational(spec["c"] or 3), [["tree", ["mul", ["const", str(Fr(1, spec["c"] or 3)), "0"], spec["x"]]]]
        elif spec["how"] == "left":
            y, seq = (base**e) * X, [["f", fn, [spec["mode"]], spec["c"]], ["tree", spec["x"]]]
        else:
            y, seq = X * (base**e), [["tree", spec["x"]], ["f", fn, [spec["mode"]], spec["c"]]]
        return ("%s with (N%d%+d)**%s [%s] vs the direct action" % (nc.tree_str(spec["x"], modes), spec["mode"], spec["c"], spec["e"], spec["how"]),
                degree(spec["x"]) + 2, ("vec", lambda sp, st: _seq_vec(seq, sp, st)), ("nof", y))
    if kind == "pauli":
        i = spec["mode"]
        P = {"X": nc.pauli.SigmaX, "Y": nc.pauli.SigmaY, "Z": nc.pauli.SigmaZ}[spec["which"]](ops[i].name)
        other = nc.to_sympy(spec["other"], ops)
        pt = _pauli_tree(spec["which"], i)
        if spec["form"] == "plain":
            e, t = P, pt
        elif spec["form"] == "left":
            e, t = P * other, ["mul", pt, spec["other"]]
        elif spec["form"] == "right":
            e, t = other * P, ["mul", spec["other"], pt]
        else:
            P2 = {"X": nc.pauli.SigmaX, "Y": nc.pauli.SigmaY, "Z": nc.pauli.SigmaZ}[spec["which2"]](ops[i].name)
            e, t = P * P2 + other, ["add", ["mul", pt, _pauli_tree(spec["which2"], i)], spec["other"]]
        return ("from_expr(%s) vs the direct action" % e, degree(t), ("tree", t), ("nof", F(e, operators=ops)))
    if kind == "subs":
        t1, t2, v = spec["t1"], spec["t2"], sympy.Rational(spec["v"])
        x = F(_T * nc.to_sympy(t1, ops) + _T**2 * nc.to_sympy(t2, ops), operators=ops)
        ref = ["add", ["mul", ["const", str(Fr(spec["v"])), "0"], t1], ["mul", ["const", str(Fr(spec["v"]) ** 2), "0"], t2]]
        how = spec["how"]
        y = x.subs(_T, v) if how == "subs" else (x.xreplace({_T: v}) if how == "xreplace" else x._poly_simplify().subs(_T, v))
        return ("(t*(%s) + t^2*(%s)).%s(t=%s)" % (nc.tree_str(t1, modes), nc.tree_str(t2, modes), how, v), degree(ref), ("tree", ref), ("nof", y))
    if kind == "mixed":  # arithmetic of a form with a plain sympy expression on either side
        X, E, op = impl.build(spec["x"]), nc.to_sympy(spec["e"], ops), spec["op"]
        y = {"radd": lambda: E + X, "add": lambda: X + E, "sub": lambda: X - E, "rsub": lambda: E - X,
             "rmul": lambda: E * X, "mul": lambda: X * E}[op]()
        if not isinstance(y, NumberOrderedForm):  # e.g. expr - form falls back to a sympy Add
            y = F(sympy.sympify(y), operators=ops)
        ref = {"radd": ["add", spec["e"], spec["x"]], "add": ["add", spec["x"], spec["e"]], "sub": ["sub", spec["x"], spec["e"]],
               "rsub": ["sub", spec["e"], spec["x"]], "rmul": ["mul", spec["e"], spec["x"]], "mul": ["mul", spec["x"], spec["e"]]}[op]
        return ("%s of the form %s and the plain expression %s" % (op, nc.tree_str(spec["x"], modes), nc.tree_str(spec["e"], modes)), degree(ref), ("tree", ref), ("nof", y))
    if kind == "filter":  # filter_terms against an independent statement of its semantics: some condition matches ALL modes
        nsym = sympy.Symbol("n", positive=True, integer=True)
        X = nc.expand_to(impl.build(spec["x"]), ops)

        def ref(p):
            return {"eq": sympy.Integer(p[1]), "gt": p[1] + nsym, "lt": p[1] - nsym}[p[0]]

        def pm(p, v):
            return v == p[1] if p[0] == "eq" else (v > p[1] if p[0] == "gt" else v < p[1])
        got = sorted(tuple(int(q) for q in k) for k, _ in X.filter_terms(tuple(tuple(ref(p) for p in c) for c in spec["conds"]), spec["keep"]).args[1])
        want = sorted(k for k in (tuple(int(q) for q in kk) for kk, _ in X.args[1])
                      if spec["keep"] == any(all(pm(p, v) for p, v in zip(c, k)) for c in spec["conds"]))
        return ("custom", None if got == want else "filter_terms(keep=%s) of %s with conditions %s kept %s, expected %s"
                % (spec["keep"], nc.tree_str(spec["x"], modes), spec["conds"], got, want))
    if kind == "powsym":  # single unmatched term to a symbolic power
        o = ops[spec["mode"]]
        c = sympy.Rational(spec["c"])
        x = F(c * (Dagger(o) if spec["dag"] else o), operators=ops)
        y = x**_K
        want_key = tuple((-_K if spec["dag"] else _K) if j == spec["mode"] else 0 for j in range(len(ops)))
        got = [(tuple(k), v) for k, v in y.args[1]]
        ok = len(got) == 1 and all(sympy.simplify(g - w) == 0 for g, w in zip(got[0][0], want_key)) and sympy.simplify(got[0][1] - c**_K) == 0
        return ("custom", None if ok else "(%s*%s)**k gave %s, expected {%s: %s**k}" % (c, "op†" if spec["dag"] else "op", got, want_key, c))
    if kind == "pownil":  # spin / fermion generator to a power > 1 through the non-integer branch
        x = F(ops[spec["mode"]], operators=ops)
        y = x ** sympy.Rational(3, 2)
        return ("custom", None if (isinstance(y, NumberOrderedForm) and not y.args[1]) else "nilpotent generator ** (3/2) gave %s" % (y,))
    if kind == "raises":
        o = ops[spec["mode"]]
        N = nc.NumberOperator(o)
        acts = {
            "func_nonconserving": lambda: F(sympy.Abs(o + Dagger(o)), operators=ops),
            "func_nonconserving2": lambda: F(sympy.exp(N * o), operators=ops),
            "pow_placeholder": lambda: F(N * o, operators=ops) ** sympy.Rational(1, 2),
            "pow_negative": lambda: F(o, operators=ops) ** sympy.Integer(-1),
            "pow_multi": lambda: F(o + Dagger(o), operators=ops) ** sympy.Integer(-1),
            "div_nonconserving": lambda: F(N + 1, operators=ops) / F(o, operators=ops),
            "subs_operator": lambda: F(N * o, operators=ops).subs(o, type(o)("zz")),
            "unknown_operator": lambda: F(type(o)("zz") * o, operators=ops),
        }
        try:
            r = acts[spec["what"]]()
        except ValueError:
            return ("custom", None)
        except (OracleInternalError, CaseTimeout):
            raise
        except Exception as e:  # noqa: BLE001
            return ("custom", "%s raised %s instead of ValueError: %s" % (spec["what"], type(e).__name__, str(e)[:120]))
        return ("custom", "%s did not raise (returned %s)" % (spec["what"], str(r)[:120]))
    raise OracleInternalError("unknown special %r" % (kind,))


def special_cases(rng):
    """one case of every special family (random parameters)"""
    cases = []

    def case(modes, spec, states=None):
        cases.append(dict(kind="special", modes=modes, t=["const", "0", "0"], x=["const", "0", "0"], y=["const", "0", "0"], z=["const", "0", "0"],
                          states=states or rand_states(rng, modes), evals=[["special", [spec]]]))
    # functions of number operators
    for _ in range(3):
        name = rng.choice(["factorial", "floor", "binomial"])  # (Abs(...) is a COMMUTATIVE sympy object: sympy itself reorders it)
        two = rng.random() < 0.3
        modes = ["B", "B"] if two else [rng.choice("BBL")] if name != "factorial" else ["B"]
        c = rng.randint(0, 2) if name == "factorial" else rng.randint(-2, 2)
        if name == "factorial" and two:
            modes = ["B", "B"]
        fitem = ["f", name, [0, 1] if two else [0], c]
        i = rng.randrange(len(modes))
        form = rng.choice(["plain", "fa", "af", "fd", "afa"])
        seq = {"plain": [fitem], "fa": [fitem, ["op", i, 0]], "af": [["op", i, 0], fitem], "fd": [fitem, ["op", i, 1]],
               "afa": [["op", i, 1], fitem, ["op", i, 0]]}[form]
        sts = None
        if name == "factorial":
            sts = [[rng.randint(1, 4) for _ in modes] for _ in range(5)]
        case(modes, dict(sp="seq", seq=seq), sts)
    # sqrt(N+1) as a sympy Pow with exponent 1/2 (states where it is rational)
    case(["B"], dict(sp="seq", seq=[["f", "sqrt", [0], 1], ["op", 0, rng.randint(0, 1)]]), [[1], [4], [9]] if rng.random() < 0.5 else [[3], [8], [0]])
    # negative / fractional powers of number-only forms and division
    for how in ("div", "divconst", "left", "right"):
        modes = [rng.choice("BL")] + ([rng.choice("BSF")] if rng.random() < 0.4 else [])
        modes.sort(key=nc.KIND_ORDER.index)
        m = [j for j, k in enumerate(modes) if k in "BL"][0]
        e = "-1" if how in ("div", "divconst") else rng.choice(["-1", "-2", "1/2"])
        sts = [[(v * v - 1) if (j == m and e == "1/2") else v for j, v in enumerate(st)] for st in rand_states(rng, modes)] if e == "1/2" else None
        case(modes, dict(sp="nofpow", how=how, mode=m, c=rng.choice([1, 2, 3]) if e != "1/2" else 1, e=e, x=small(rng, modes)), sts)
    # Pauli matrices
    for which in ("X", "Y", "Z"):
        modes = sorted([rng.choice("BLSF") for _ in range(rng.randint(0, 2))] + ["S"], key=nc.KIND_ORDER.index)
        i = modes.index("S")
        case(modes, dict(sp="pauli", which=which, which2=rng.choice("XYZ"), mode=i, form=rng.choice(["plain", "left", "right", "two"]), other=small(rng, modes)))
    # substitution
    modes = nc.rand_modes(rng, 1, 2)

    how = rng.choice(["subs", "xreplace", "poly"])
    t1, t2 = small(rng, modes), small(rng, modes)
    case(modes, dict(sp="subs", how=how, v=str(Fr(rng.choice([2, 3, -1, 1]), rng.choice([1, 2]))), t1=t1, t2=t2))
    # corpus (finding D23): _poly_simplify with a complex numeric factor next to a free symbol, t*(1+i)*a + t^2*(2+i/2)*N_a
    case(["B"], dict(sp="subs", how="poly", v="2", t1=["mul", ["const", "1", "1"], ["op", 0, 0]], t2=["mul", ["const", "2", "1/2"], ["num", 0]]))
    # arithmetic with plain sympy expressions
    for op in rng.sample(["radd", "add", "sub", "rsub", "rmul", "mul"], 3):
        modes = nc.rand_modes(rng, 1, 3)
        case(modes, dict(sp="mixed", op=op, x=small(rng, modes), e=small(rng, modes)))
    # corpus (finding D25): plain expression with a vanishing fermionic term, a + f† N_f, added to a form from the left
    case(["B", "F"], dict(sp="mixed", op="radd", x=["mul", ["num", 0], ["op", 1, 0]], e=["add", ["op", 0, 0], ["mul", ["op", 1, 1], ["num", 1]]]))
    # filter_terms with several conditions that differ in several modes (the fixed witness and a random one)
    from harness import k_nof as _kn
    for fc in [dict(_kn.FILTER_WITNESSES[rng.randrange(2)]), _kn.gen_filter_case(rng)]:
        case(fc["modes"], dict(sp="filter", x=fc["x"], conds=fc["conds"], keep=fc["keep"]), [[0] * len(fc["modes"])])
    # symbolic powers, nilpotency, exception classes
    modes = [rng.choice("BL")]
    case(modes, dict(sp="powsym", mode=0, dag=rng.randint(0, 1), c=str(Fr(rng.choice([1, 2, 3]), rng.choice([1, 2])))), [[0]])
    case([rng.choice("SF")], dict(sp="pownil", mode=0), [[0]])
    for what in rng.sample(["func_nonconserving", "func_nonconserving2", "pow_placeholder", "pow_negative", "pow_multi", "div_nonconserving", "subs_operator", "unknown_operator"], 4):
        case([rng.choice("BL")], dict(sp="raises", what=what, mode=0), [[0]])
    return cases


def check_sides(check, trees, impl):
    """-> (description, degree, left, right); left/right: ('tree', t) or ('nof', NumberOrderedForm)."""
    ops, modes = impl.ops, impl.modes
    F = NumberOrderedForm.from_expr
    s = lambda t: nc.tree_str(t, modes)  # noqa: E731
    if check == "special":
        return special_sides(trees[0], impl)
    if check == "tree_build":
        (t,) = trees
        return ("%s: matrix semantics vs operator-by-operator NumberOrderedForm arithmetic" % s(t), degree(t), ("tree", t), ("nof", impl.build(t)))
    if check == "tree_from_expr":
        (t,) = trees
        return ("%s: matrix semantics vs from_expr of the whole sympy expression" % s(t), degree(t), ("tree", t), ("nof", F(nc.to_sympy(t, ops), operators=ops)))
    if check == "round_trip":
        (t,) = trees
        x = impl.build(t)
        return ("x = %s: from_expr(x.as_expr()) vs x" % s(t), degree(t), ("nof", F(x.as_expr(), operators=ops)), ("nof", x))
    if check == "dagger_mul":
        x, y = trees
        X, Y = impl.build(x), impl.build(y)
        return ("x = %s, y = %s: Dagger(x*y) vs Dagger(y)*Dagger(x)" % (s(x), s(y)), degree(x) + degree(y), ("nof", Dagger(impl.mul(x, y))), ("nof", Dagger(Y) * Dagger(X)))
    x, y, z = trees
    X, Y, Z = impl.build(x), impl.build(y), impl.build(z)
    d = degree(x) + degree(y) + degree(z)
    if check == "assoc":
        return ("x = %s, y = %s, z = %s: (x*y)*z vs x*(y*z)" % (s(x), s(y), s(z)), d, ("nof", impl.mul(x, y) * Z), ("nof", X * impl.mul(y, z)))
    if check == "distrib":
        return ("x = %s, y = %s, z = %s: x*(y+z) vs x*y + x*z" % (s(x), s(y), s(z)), d, ("nof", X * (Y + Z)), ("nof", impl.mul(x, y) + impl.mul(x, z)))
    raise OracleInternalError("unknown check %r" % (check,))


def run_check(check, modes, trees, states, impl=None, verbose=False):
    """-> None when the check passes, else a one-line description of the first disagreement."""
    ensure_self_check()
    impl = impl or Impl(modes)
    ops = impl.ops
    try:
        sides = check_sides(check, trees, impl)
        if sides[0] == "custom":
            msg = None if sides[1] is None else "special [%s] %s" % ("".join(modes), sides[1])
            if verbose:
                print("=> " + (msg or "as expected"))
            return msg
        desc, deg, left, right = sides
        actors = [None if side[0] in ("tree", "vec") else NofActor(side[1], ops) for side in (left, right)]
    except (OracleInternalError, CaseTimeout):
        raise
    except Exception as e:  # noqa: BLE001
        msg = "%s [%s]: the implementation raised %s: %s" % (check, "".join(modes), type(e).__name__, str(e)[:200])
        if verbose:
            print(msg)
        return msg
    bmax = max([st[i] for st in states for i, m in enumerate(modes) if m == "B"] + [0])
    lmax = max([abs(st[i]) for st in states for i, m in enumerate(modes) if m == "L"] + [0])
    sp = Space(modes, bmax + deg + 2, lmax + deg + 1)
    bad = None
    for st in states:
        st = tuple(int(v) for v in st)
        vals = []
        for side, actor in zip((left, right), actors):
            if actor is None:
                vals.append(side[1](sp, st) if side[0] == "vec" else direct_action(side[1], sp, st))
            else:
                try:
                    vals.append(actor.action(sp, st))
                except (OracleInternalError, CaseTimeout):
                    raise
                except Exception as e:  # noqa: BLE001  (coefficient that is not a closed number, ...)
                    vals.append("raised %s: %s" % (type(e).__name__, str(e)[:160]))
        if sp.edge_hit:
            raise OracleInternalError("truncation edge reached: %s %s %s" % (check, modes, trees))
        if verbose:
            print("  state %s: left = %s ; right = %s" % (list(st), vals[0] if isinstance(vals[0], str) else ("undefined" if vals[0] is None else v_str(vals[0])), vals[1] if isinstance(vals[1], str) else ("undefined" if vals[1] is None else v_str(vals[1]))))
        if any(isinstance(v, str) for v in vals):
            bad = bad or "%s [%s] %s; on state %s: %s" % (check, "".join(modes), desc, list(st), [v for v in vals if isinstance(v, str)][0])
            continue
        if vals[0] is None or vals[1] is None:
            continue  # undefined coefficient at this state: skipped
        if vals[0] != vals[1] and bad is None:
            bad = "%s [%s] %s; on state %s: %s  versus  %s" % (check, "".join(modes), desc, list(st), v_str(vals[0]), v_str(vals[1]))
    if verbose:
        print("=> " + (bad or "agree on all %d states" % len(states)))
    return bad


# ---------------------------------------------------------------------------
# generators


def rand_states(rng, modes, nrand=6):
    """vacuum + states covering every 0/1 configuration of the two-level modes when there are <= 8
    of them (bosons 0..4 and ladders -3..3 drawn at random), at least `nrand` of them."""
    import itertools

    nbin = [i for i, m in enumerate(modes) if m in "SF"]
    confs = list(itertools.product((0, 1), repeat=len(nbin)))
    if len(confs) > 8:
        confs = [tuple(rng.randint(0, 1) for _ in nbin) for _ in range(nrand)]
    while len(confs) < nrand:
        confs = confs + confs
    confs = confs[: max(nrand, min(len(confs), 8))]
    out = [[0] * len(modes)]
    for conf in confs:
        st = []
        it = iter(conf)
        for m in modes:
            if m == "B":
                st.append(rng.randint(0, 4))
            elif m == "L":
                st.append(rng.randint(-3, 3))
            else:
                st.append(next(it))
        if st not in out:
            out.append(st)
    return out


def _left_assoc(atoms):
    t = atoms[0]
    for a in atoms[1:]:
        t = ["mul", t, a]
    return t


def small(rng, modes):
    """a small factor for the law checks"""
    r = rng.random()
    if r < 0.5:
        w = nc.rand_word(rng, modes, maxlen=2)
    elif r < 0.85:
        w = nc.rand_sum(rng, modes, maxterms=2, maxlen=2)
    else:
        w = ["mul", nc.rand_numfun(rng, modes, depth=0), nc.rand_word(rng, modes, maxlen=1)]
    if rng.random() < 0.3:  # a genuinely complex factor, so that the adjoint checks see conjugation
        w = ["mul", ["const", str(Fr(rng.choice([1, 2, -1]), rng.choice([1, 2]))), str(Fr(rng.choice([1, -1, 2, -3]), rng.choice([1, 2])))], w]
    return w


def gen_fermi(rng):
    """fermionic multi-mode product whose right factor carries 2+ ladder operators (mostly
    annihilators) on distinct fermion modes."""
    nf = rng.choice([2, 2, 3])
    pre = rng.choice([[], [], ["B"], ["S"], ["L"]]) if nf == 2 else rng.choice([[], [], ["B"]])
    modes = pre + ["F"] * nf
    f0 = len(pre)
    fm = list(range(f0, f0 + nf))

    def fword(n, p_ann, distinct):
        idx = rng.sample(fm, min(n, nf)) if distinct else [rng.choice(fm) for _ in range(n)]
        atoms = [["op", i, 0 if rng.random() < p_ann else 1] for i in idx]
        if rng.random() < 0.3:
            atoms.insert(rng.randrange(len(atoms) + 1), rng.choice([["num", rng.choice(fm)], nc.rand_numfun(rng, modes, depth=0)]))
        return _left_assoc(atoms)

    def right():
        w = fword(rng.choice([2, 2, 3]), 0.75, True)
        if rng.random() < 0.3:
            w = [rng.choice(["add", "sub"]), w, fword(rng.choice([1, 2]), 0.5, True)]
        return w

    x = fword(rng.choice([1, 2, 2, 3]), 0.3, rng.random() < 0.6)
    if pre and rng.random() < 0.4:
        x = ["mul", ["op", 0, rng.randint(0, 1)], x]
    if rng.random() < 0.25:
        x = [rng.choice(["add", "sub"]), x, fword(rng.choice([1, 2]), 0.5, True)]
    y = right()
    z = right() if rng.random() < 0.6 else fword(rng.choice([1, 2]), 0.5, False)
    return modes, ["mul", x, y], x, y, z


def gen_boson(rng):
    """boson (or ladder) terms with number-dependent coefficients times surplus annihilators/creators,
    e.g. (N a^2) a†, (a†^2 (N+1)) a, a^3 (a†)^2."""
    modes = ["B"] + rng.choice([[], [], ["B"], ["L"], ["S"], ["F"]])
    if rng.random() < 0.15:
        modes = ["L"] + [m for m in modes[1:] if m in "LSF"]
    modes.sort(key=nc.KIND_ORDER.index)
    i = 0  # the mode that carries the action

    def ladder(dag, lo=1, hi=3):
        e = rng.randint(lo, hi)
        o = ["op", i, dag]
        return o if e == 1 else (["pow", o, e] if rng.random() < 0.6 else _left_assoc([o] * e))

    def numfun():
        r = rng.random()
        if r < 0.4:
            return ["num", i]
        if r < 0.8:
            return ["add", ["num", i], nc.rand_const(rng, complex_ok=False)]
        return nc.rand_numfun(rng, modes, depth=1)

    def numterm():
        d = rng.randint(0, 1)
        big = ladder(d, 2, 3) if rng.random() < 0.7 else ladder(d, 1, 1)
        r = rng.random()
        if r < 0.45:
            return ["mul", numfun(), big]
        if r < 0.8:
            return ["mul", big, numfun()]
        return big

    def other():
        r = rng.random()
        if r < 0.6:
            return ladder(rng.randint(0, 1), 1, 2)
        if r < 0.8:
            return ["mul", ladder(1, 1, 2), ladder(0, 1, 2)]
        return ["add", ladder(rng.randint(0, 1), 1, 2), numfun()] if rng.random() < 0.5 else nc.rand_word(rng, modes, maxlen=2)

    x, y = numterm(), other()
    if rng.random() < 0.35:
        x, y = y, x
    z = other() if rng.random() < 0.6 else numterm()
    return modes, ["mul", x, y], x, y, z


def gen_generic(rng, kind):
    modes = nc.rand_modes(rng, 1, 4)
    while sum(m in "SF" for m in modes) > 3:
        modes = nc.rand_modes(rng, 1, 4)
    light = sum(m in "SF" for m in modes) <= 2
    x, y, z = small(rng, modes), small(rng, modes), small(rng, modes)
    if kind == "word":
        t = nc.rand_word(rng, modes, maxlen=3)
    elif kind == "sum":
        t = nc.rand_sum(rng, modes, maxterms=2, maxlen=3)
    elif kind == "prod_of_sums":
        t = ["mul", nc.rand_sum(rng, modes, maxterms=2, maxlen=2), nc.rand_sum(rng, modes, maxterms=2, maxlen=2)]
    elif kind == "adj":
        inner = nc.rand_sum(rng, modes, maxterms=2, maxlen=3)
        r = rng.random()
        if r < 0.4:
            t = ["adj", inner]
        elif r < 0.7:
            t = ["mul", ["adj", inner], nc.rand_word(rng, modes, maxlen=2)]
        else:
            t = ["adj", ["mul", nc.rand_word(rng, modes, maxlen=2), ["adj", inner]]]
    elif kind == "pow":
        base = nc.rand_sum(rng, modes, maxterms=2, maxlen=2) if light else nc.rand_word(rng, modes, maxlen=2)
        t = ["pow", base, rng.choice([2, 2, 3]) if light else 2]
        if rng.random() < 0.3:
            t = ["mul", t, nc.rand_word(rng, modes, maxlen=1)]
    elif kind == "deep":  # thorough tier / search only: larger nestings (guarded by the time limit)
        S = lambda: nc.rand_sum(rng, modes, maxterms=3, maxlen=3)  # noqa: E731
        r = rng.random()
        if r < 0.35:
            t = ["mul", ["mul", S(), S()], S()]
        elif r < 0.6:
            t = ["mul", S(), ["mul", S(), nc.rand_word(rng, modes, maxlen=4)]]
        elif r < 0.8:
            t = ["mul", ["adj", ["pow", nc.rand_sum(rng, modes, maxterms=2, maxlen=2), 2]], S()]
        else:
            t = ["sub", ["mul", S(), ["adj", S()]], ["mul", ["adj", S()], S()]]
        x, y, z = S(), nc.rand_word(rng, modes, maxlen=4, left=False), S()
    else:
        raise OracleInternalError(kind)
    return modes, t, x, y, z


KINDS = ["word", "sum", "prod_of_sums", "adj", "pow", "powterm", "powterm", "ladder", "ladder", "fermi", "fermi", "fermi", "boson", "boson"]
KINDS_THOROUGH = KINDS + ["deep", "deep"]


def gen_case(rng, kind=None, kinds=KINDS):
    kind = kind or rng.choice(kinds)
    if kind == "ladder":  # (m†^k f(N_m)) * m^p and (m^k f(N_m)) * m†^p on a ladder mode, optionally mixed with a boson
        modes, l, r = nc.rand_ladder_pair(rng)
        return dict(kind=kind, modes=modes, t=["mul", l, r], x=l, y=r, z=small(rng, modes), states=rand_states(rng, modes))
    if kind == "powterm":  # (f(N_a) a^p)^k etc.: checked through x**k (tree_build) and from_expr of the sympy Pow
        modes, t = nc.rand_powterm(rng)
        x, y, z = t[1], small(rng, modes), small(rng, modes)
        return dict(kind=kind, modes=modes, t=t, x=x, y=y, z=z, states=rand_states(rng, modes))
    if kind == "fermi":
        modes, t, x, y, z = gen_fermi(rng)
    elif kind == "boson":
        modes, t, x, y, z = gen_boson(rng)
    else:
        modes, t, x, y, z = gen_generic(rng, kind)
    return dict(kind=kind, modes=modes, t=t, x=x, y=y, z=z, states=rand_states(rng, modes))


def case_evaluations(case):
    """[(check, trees)] of a case"""
    if case.get("kind") == "special":
        return [tuple(e) for e in case["evals"]]
    t, x, y, z = case["t"], case["x"], case["y"], case["z"]
    ev = [("tree_build", [t]), ("tree_from_expr", [t])]
    xy = ["mul", x, y]
    if xy != t:
        ev.append(("tree_build", [xy]))
    ev.append(("tree_build", [["adj", xy]]))  # the law checks alone cannot see a wrong adjoint
    ev += [("assoc", [x, y, z]), ("distrib", [x, y, z]), ("dagger_mul", [x, y]), ("round_trip", [t])]
    return ev


def composite(check, trees):
    if check == "special":
        return ["const", "0", "0"]
    return _composite(check, trees)


def _composite(check, trees):
    """the expression whose non-triviality is counted for an evaluation"""
    if check in ("tree_build", "tree_from_expr", "round_trip"):
        return trees[0]
    if check == "dagger_mul":
        return ["adj", ["mul", trees[0], trees[1]]]
    if check == "assoc":
        return ["mul", ["mul", trees[0], trees[1]], trees[2]]
    return ["mul", trees[0], ["add", trees[1], trees[2]]]


def _alarm(signum, frame):  # noqa: ARG001
    raise CaseTimeout()


def run_case(case):
    """-> dict(evaluations, failures, nontrivial=[keys], skipped, wall)"""
    t0 = time.time()
    modes, states = case["modes"], case["states"]
    res = dict(evaluations=0, failures=[], nontrivial=[], skipped=0, kind=case["kind"])
    armed = False
    try:
        signal.signal(signal.SIGALRM, _alarm)
        signal.alarm(case.get("limit", CASE_TIME_LIMIT))
        armed = True
    except (ValueError, AttributeError):  # not in the main thread
        pass
    try:
        impl = Impl(modes)
        for check, trees in case_evaluations(case):
            bad = run_check(check, modes, trees, states, impl=impl)
            res["evaluations"] += 1
            comp = composite(check, trees)
            if is_nontrivial(comp):
                res["nontrivial"].append(core.sha(core.canon([modes, comp]))[:16])
            if bad:
                res["failures"].append(dict(what=bad, input=dict(check=check, modes=modes, trees=trees, states=states)))
    except CaseTimeout:
        res["skipped"] = 1
    finally:
        if armed:
            signal.alarm(0)
    res["wall"] = round(time.time() - t0, 2)
    return res


def run_cases(cases, parallel):
    if parallel and len(cases) > 1:
        import multiprocessing

        with multiprocessing.get_context("fork").Pool(16) as pool:
            return list(pool.imap(run_case, cases, chunksize=1))
    return [run_case(c) for c in cases]


def witness_cases():
    """the two repaired defects of known_findings.json (must pass on the current tree)"""
    a, ad, N = ["op", 0, 0], ["op", 0, 1], ["num", 0]
    w1 = dict(kind="witness", modes=["B"], t=["mul", ["mul", N, ["pow", a, 2]], ad], x=["mul", N, ["pow", a, 2]], y=ad, z=a,
              states=[[0], [1], [2], [3], [4]])
    f, g, gd = ["op", 0, 0], ["op", 1, 0], ["op", 1, 1]
    w2 = dict(kind="witness", modes=["F", "F"], t=["mul", gd, ["mul", f, g]], x=gd, y=["mul", f, g], z=["mul", g, f],
              states=[[0, 0], [0, 1], [1, 0], [1, 1]])
    ws = [w1, w2]
    for m, l, r in nc.SIGN_WITNESSES:  # spins next to fermions in every branch of the fermionic sign rule
        import itertools
        sts = []
        for conf in itertools.product((0, 1), repeat=sum(k in "SF" for k in m)):
            it = iter(conf)
            sts.append([next(it) if k in "SF" else 1 for k in m])
        ws.append(dict(kind="witness", modes=m, t=["mul", l, r], x=l, y=r, z=r, states=sts[:16]))
    for m, l, r in nc.LADDER_WITNESSES:  # ladder modes: creation/annihilation powers around a function of N_m
        ws.append(dict(kind="witness", modes=m, t=["mul", l, r], x=l, y=r, z=r, states=[[v] * len(m) for v in (0, 1, 2, 3)] + ([[-2], [-3]] if m == ["L"] else [[1, -2]])))
    for m, t in nc.POWTERM_WITNESSES:  # integer powers of single-term forms with number-dependent coefficients
        sts = [[0], [1], [2], [3], [4]] if m == ["B"] else [[-3], [-1], [0], [1], [2]]
        ws.append(dict(kind="witness", modes=m, t=t, x=t[1], y=t[1], z=["op", 0, 1], states=sts))
    return ws


def summarize(cases, results):
    failures, nontrivial, evaluations, skipped = [], set(), 0, 0
    dist = {}
    slow = 0.0
    for c, r in zip(cases, results):
        failures += r["failures"]
        nontrivial.update(r["nontrivial"])
        evaluations += r["evaluations"]
        skipped += r["skipped"]
        dist[r["kind"]] = dist.get(r["kind"], 0) + 1
        slow = max(slow, r["wall"])
    samples = []
    for c in cases:
        if c["kind"] != "witness" and len(samples) < 5 and c["kind"] not in [s.split(":")[0] for s in samples]:
            samples.append("%s: modes=%s  t = %s ; x = %s ; y = %s ; z = %s ; states=%s" % (
                c["kind"], "".join(c["modes"]), nc.tree_str(c["t"], c["modes"]), nc.tree_str(c["x"], c["modes"]),
                nc.tree_str(c["y"], c["modes"]), nc.tree_str(c["z"], c["modes"]), c["states"][:3]))
    dist["skipped_for_time"] = skipped
    dist["slowest_case_s"] = slow
    return dict(
        evaluations=evaluations,
        nontrivial=len(nontrivial),
        rule="distinct (modes, expression) inputs of an evaluation whose expression contains a product of two "
        "operator-carrying factors (a mul node with a ladder/creation/annihilation leaf on both sides, or a power "
        ">= 2 of a subtree with such a leaf); for the law checks the expression is the left-hand side "
        "((x*y)*z, x*(y+z), (x*y)†); every evaluation compares exact actions on the vacuum + >= 6 basis states",
        samples=samples,
        distribution=dist,
        failures=failures,
    )


def oracle_nof(ctx, ncases=None):
    ensure_self_check()
    n = ncases or ctx.n(40, 1500)
    kinds = KINDS if ctx.quick else KINDS_THOROUGH
    cases = witness_cases() + [gen_case(ctx.rng, kinds=kinds) for _ in range(n)]
    for _ in range(ctx.n(1, 12)):
        cases += special_cases(ctx.rng)
    return summarize(cases, run_cases(cases, parallel=not ctx.quick))


def search(ctx):
    """Deeper targeted run: fermionic multi-mode products with 2+ annihilators in the right factor and
    boson terms with number-dependent coefficients times surplus annihilators/creators."""
    ensure_self_check()
    n = ctx.n(160, 3000)
    cases = witness_cases()
    for k in range(n):
        cases.append(gen_case(ctx.rng, kind=("fermi", "boson", "powterm", "ladder")[k % 4] if k % 8 else ("adj", "deep")[(k // 8) % 2]))
    return summarize(cases, run_cases(cases, parallel=True))["failures"]


def replay_input(inp):
    """Re-run one failure input on the implementation; True when it still fails."""
    modes, trees, states = inp["modes"], inp["trees"], inp["states"]
    print("check %s on modes %s" % (inp["check"], "".join(modes)))
    for t in trees:
        print("  expression: %s" % (nc.tree_str(t, modes) if isinstance(t, list) else json.dumps(t)))
    bad = run_check(inp["check"], modes, trees, states, verbose=True)
    return bool(bad)


if __name__ == "__main__":  # /venv/bin/python -m oracles.o_nof_matrix [quick|thorough|search] [seed]
    tier = sys.argv[1] if len(sys.argv) > 1 else "quick"
    seed = int(sys.argv[2]) if len(sys.argv) > 2 else 0
    t0 = time.time()
    if tier == "search":
        fails = search(core.Ctx("C08", "quick", seed))
        out = dict(failures=fails)
    else:
        out = oracle_nof(core.Ctx("C08", tier, seed))
        fails = out["failures"]
        print({k: v for k, v in out.items() if k not in ("failures", "samples")})
        for s in out["samples"]:
            print("sample:", s)
    print("failures: %d   wall %.1fs" % (len(fails), time.time() - t0))
    for f in fails[:8]:
        print("FAIL", f["what"])
    if fails:
        print("replay of the first failure:")
        print("still fails:", replay_input(json.loads(json.dumps(fails[0]["input"]))))
