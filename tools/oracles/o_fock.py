"""C07 oracle: operator-valued block diagonalization versus matrices on a truncated Fock space.

Independent matrix representation (bosons truncated at K quanta in the orthonormal basis,
fermions by Jordan-Wigner); the operator-valued H_tilde / U / U† returned by block_diagonalize for a
second-quantised Hamiltonian are converted to matrices term by term and compared, on Fock states far
enough from the truncation edge, with the result of block-diagonalizing the truncated MATRICES with
every Fock state as its own block.  Also checks U†U = 1 and U†HU = H_tilde on those states.
"""
import sys
import time
import warnings
import itertools
import random

from vlib import core

sys.path.insert(0, str(core.REPO))
import numpy as np  # noqa: E402
import sympy  # noqa: E402
from sympy.physics.quantum import Dagger  # noqa: E402
from sympy.physics.quantum.boson import BosonOp  # noqa: E402
from sympy.physics.quantum.fermion import FermionOp  # noqa: E402
from sympy.physics.quantum import pauli  # noqa: E402

R = sympy.Rational


class Space:
    def __init__(self, nbos, nfer, K, nspin=0):
        self.nbos, self.nfer, self.K, self.nspin = nbos, nfer, K, nspin
        self.bos = [BosonOp("b%d" % i) for i in range(nbos)]
        self.spin = [pauli.SigmaMinus("s%d" % i) for i in range(nspin)]
        self.fer = [FermionOp("f%d" % i) for i in range(nfer)]
        dims = [K] * nbos + [2] * nspin + [2] * nfer
        self.dims = dims
        self.dim = int(np.prod(dims)) if dims else 1
        a = np.diag(np.sqrt(np.arange(1, K)), 1)
        sm = np.array([[0, 1], [0, 0]], dtype=float)
        sz = np.array([[1, 0], [0, -1]], dtype=float)

        def kron(ms):
            r = np.array([[1.0]])
            for m in ms:
                r = np.kron(r, m)
            return r
        self.mats = {}
        for i in range(nbos):
            ms = [np.eye(d) for d in dims]
            ms[i] = a
            self.mats[str(self.bos[i].name)] = kron(ms)
        for j in range(nspin):  # spins commute with every other mode: no Jordan-Wigner string
            ms = [np.eye(d) for d in dims]
            ms[nbos + j] = sm
            self.mats[str(self.spin[j].name)] = kron(ms)
        for j in range(nfer):
            ms = [np.eye(d) for d in dims]
            for l in range(j):
                ms[nbos + nspin + l] = sz
            ms[nbos + nspin + j] = sm
            self.mats[str(self.fer[j].name)] = kron(ms)
        self.states = list(itertools.product(*[range(d) for d in dims]))

    def tomat(self, e):
        from pymablock.number_ordered_form import NumberOrderedForm, NumberOperator
        e = sympy.sympify(e)
        if isinstance(e, NumberOrderedForm):
            e = e.as_expr()
        dim = self.dim

        def rec(x):
            if isinstance(x, (BosonOp, FermionOp)):
                m = self.mats[str(x.name)]
                return m if x.is_annihilation else m.conj().T
            if isinstance(x, NumberOperator):
                m = self.mats[str(x.name)]
                return m.conj().T @ m
            if isinstance(x, pauli.SigmaMinus):
                return self.mats[str(x.name)]
            if isinstance(x, pauli.SigmaPlus):
                return self.mats[str(x.name)].conj().T
            if isinstance(x, pauli.SigmaZ):  # n = sigma_+ sigma_- = (sigma_z + 1) / 2
                m = self.mats[str(x.name)]
                return 2 * (m.conj().T @ m) - np.eye(dim)
            if isinstance(x, pauli.SigmaX):
                m = self.mats[str(x.name)]
                return m + m.conj().T
            if isinstance(x, pauli.SigmaY):
                m = self.mats[str(x.name)]
                return -1j * (m.conj().T - m)
            if isinstance(x, NumberOrderedForm):
                return rec(x.as_expr())
            if x.is_Add:
                return sum((rec(t) for t in x.args), np.zeros((dim, dim), dtype=complex))
            if x.is_Mul:
                r = np.eye(dim, dtype=complex)
                for t in x.args:
                    r = r @ rec(t)
                return r
            if x.is_Pow:
                b, p = x.args
                if p.is_integer and p > 0:
                    return np.linalg.matrix_power(rec(b), int(p))
                if p.is_integer and p < 0:
                    m = rec(b)
                    d = np.diag(m)
                    if not np.allclose(m, np.diag(d)):
                        raise ValueError("inverse of a non-diagonal operator: %s" % x)
                    with np.errstate(divide="ignore"):
                        inv = np.where(np.abs(d) > 1e-12, 1 / d, np.inf)
                    return np.linalg.matrix_power(np.diag(inv), int(-p))
            if not x.has(BosonOp, FermionOp, NumberOperator, pauli.SigmaOpBase):
                return complex(x) * np.eye(dim, dtype=complex)
            raise ValueError("cannot convert %s" % x)
        return rec(e)

    def interior(self, margin):
        """indices of Fock states whose boson occupations are <= K-1-margin"""
        return [k for k, s in enumerate(self.states) if all(s[i] <= self.K - 1 - margin for i in range(self.nbos))]


OMEGAS = [R(1), R(17, 7), R(29, 11), R(41, 13)]


def gen_case(rng):
    nbos = rng.choice([0, 1, 1])
    nfer = rng.choice([1, 2, 2]) if nbos else rng.choice([2, 3])
    if nbos + nfer > 3:
        nfer = 3 - nbos
    terms = []
    modes = ["b%d" % i for i in range(nbos)] + ["f%d" % i for i in range(nfer)]
    # choose 2-4 perturbation terms among templates
    templates = []
    for i in range(nbos):
        templates.append(("bdisp", i))
        templates.append(("bdispc", i))  # complex coupling (1+i) b + (1-i) b†: complex numeric factors next to the symbol g
    for i in range(nfer):
        for j in range(i + 1, nfer):
            templates.append(("hop", i, j))
            templates.append(("pair", i, j))
    for i in range(nbos):
        for j in range(nfer):
            templates.append(("bn", i, j))
            for l in range(j + 1, nfer):
                templates.append(("bhop", i, j, l))
    rng.shuffle(templates)
    for t in templates[: rng.randint(2, 4)]:
        terms.append(list(t) + [[rng.randint(1, 3), rng.randint(1, 3)]])
    inter = None
    if nfer >= 2 and rng.random() < 0.5:
        inter = [0, 1, [rng.randint(1, 3), rng.randint(2, 5)]]
    return dict(nbos=nbos, nfer=nfer, terms=terms, inter=inter, K=7, N=2)


def gen_spin_case(rng):
    """one spin-1/2 mode next to 1-2 fermion modes (or a boson and a fermion); always a spin flip and a term LINEAR in a
    fermion operator, so that products of sigma_- with an odd number of fermion operators arise inside the perturbation
    theory (spins commute with fermions: no sign)"""
    nbos = rng.choice([0, 0, 1])
    nfer = 1 if nbos else rng.choice([1, 2])
    terms = [["sx", 0, [rng.randint(1, 3), rng.randint(1, 3)]], ["flin", rng.randrange(nfer), [rng.randint(1, 3), rng.randint(2, 4)]]]
    templates = [("sxn", 0, j) for j in range(nfer)] + [("szf", 0, j) for j in range(nfer)]
    for i in range(nfer):
        for j in range(i + 1, nfer):
            templates += [("hop", i, j), ("pair", i, j)]
    for i in range(nbos):
        templates += [("bdisp", i), ("bsx", i, 0)]
    rng.shuffle(templates)
    for t in templates[: rng.randint(1, 2)]:
        terms.append(list(t) + [[rng.randint(1, 3), rng.randint(1, 3)]])
    return dict(nbos=nbos, nspin=1, nfer=nfer, terms=terms, inter=None, K=6, N=2)


def build(case, sp):
    b, f = sp.bos, sp.fer
    spn = sp.spin
    H0 = sum((OMEGAS[k] * Dagger(o) * o for k, o in enumerate(b + spn + f)), sympy.S.Zero)
    if case["inter"]:
        i, j, c = case["inter"]
        H0 = H0 + R(*c) * Dagger(f[i]) * f[i] * Dagger(f[j]) * f[j]
    H1 = sympy.S.Zero
    for t in case["terms"]:
        c = R(*t[-1])
        k = t[0]
        if k == "bdisp":
            H1 += c * (b[t[1]] + Dagger(b[t[1]]))
        elif k == "bdispc":
            H1 += c * ((1 + sympy.I) * b[t[1]] + (1 - sympy.I) * Dagger(b[t[1]]))
        elif k == "hop":
            H1 += c * (Dagger(f[t[1]]) * f[t[2]] + Dagger(f[t[2]]) * f[t[1]])
        elif k == "pair":
            H1 += c * (f[t[1]] * f[t[2]] + Dagger(f[t[2]]) * Dagger(f[t[1]]))
        elif k == "bn":
            H1 += c * (b[t[1]] + Dagger(b[t[1]])) * Dagger(f[t[2]]) * f[t[2]]
        elif k == "sx":
            H1 += c * (spn[t[1]] + Dagger(spn[t[1]]))
        elif k == "flin":
            H1 += c * (f[t[1]] + Dagger(f[t[1]]))
        elif k == "sxn":
            H1 += c * (spn[t[1]] + Dagger(spn[t[1]])) * Dagger(f[t[2]]) * f[t[2]]
        elif k == "szf":
            H1 += c * Dagger(spn[t[1]]) * spn[t[1]] * (f[t[2]] + Dagger(f[t[2]]))
        elif k == "bsx":
            H1 += c * (b[t[1]] * Dagger(spn[t[2]]) + Dagger(b[t[1]]) * spn[t[2]])
        elif k == "bhop":
            H1 += c * (Dagger(b[t[1]]) * Dagger(f[t[2]]) * f[t[3]] + Dagger(f[t[3]]) * f[t[2]] * b[t[1]])
    return H0, H1


def check_case(case, tol=1e-7):
    from pymablock import block_diagonalize
    from pymablock.series import zero, one
    sp = Space(case["nbos"], case["nfer"], case["K"], case.get("nspin", 0))
    H0, H1 = build(case, sp)
    g = sympy.Symbol("g", real=True)
    fails = []
    N = case["N"]
    with warnings.catch_warnings():
        warnings.simplefilter("ignore")
        try:
            Ht, U, Ud = block_diagonalize(H0 + g * H1, symbols=[g])
            M0 = sp.tomat(H0).real
            M1 = sp.tomat(H1)
            M1 = M1.real if np.allclose(M1.imag, 0) else M1
            Htm, Um, Udm = block_diagonalize([np.diag(np.diag(M0)), M1], subspace_indices=list(range(sp.dim)))
        except Exception as e:
            return [dict(what="block_diagonalize raised %s: %s" % (type(e).__name__, str(e)[:200]), input=case)]
        ops = {}
        for name, S in (("H_tilde", Ht), ("U", U), ("U†", Ud)):
            for k in range(N + 1):
                try:
                    v = S[0, 0, k]
                except Exception as e:
                    return [dict(what="evaluating %s[0,0,%d] raised %s: %s" % (name, k, type(e).__name__, str(e)[:200]), input=case)]
                if v is zero:
                    ops[name, k] = np.zeros((sp.dim, sp.dim), dtype=complex)
                elif v is one:
                    ops[name, k] = np.eye(sp.dim, dtype=complex)
                else:
                    ops[name, k] = sp.tomat(sympy.sympify(v).subs(g, 1))
        hop = 1
        for k in range(N + 1):
            inner = sp.interior(k * hop + 1)
            if not inner:
                continue
            for name, Sm in (("H_tilde", Htm), ("U", Um), ("U†", Udm)):
                ref = np.zeros((sp.dim, sp.dim), dtype=complex)
                for i in inner:
                    for j in inner:
                        v = Sm[i, j, k]
                        ref[i, j] = 0 if v is zero else (1 if v is one else np.asarray(v.todense() if hasattr(v, "todense") else v).reshape(-1)[0])
                got = ops[name, k][np.ix_(inner, inner)]
                d = np.abs(got - ref[np.ix_(inner, inner)]).max()
                scale = max(1.0, np.abs(ref).max())
                if not np.isfinite(d) or d > tol * scale:
                    fails.append(dict(what="%s at order %d differs from the truncated-matrix result on interior Fock states by %.3g" % (name, k, d), input=case))
        # operator identities on interior states
        Hm = {0: sp.tomat(H0), 1: sp.tomat(H1)}
        for n in range(N + 1):
            inner = sp.interior(n + 1)
            if not inner:
                continue
            uu = sum(ops["U†", a] @ ops["U", n - a] for a in range(n + 1))
            tgt = np.eye(sp.dim) if n == 0 else np.zeros((sp.dim, sp.dim))
            d = np.abs((uu - tgt)[np.ix_(inner, inner)]).max()
            if d > tol:
                fails.append(dict(what="U†U != 1 at order %d on interior Fock states (%.3g)" % (n, d), input=case))
            tot = sum(ops["U†", a] @ Hm[b_] @ ops["U", n - a - b_] for a in range(n + 1) for b_ in range(min(1, n - a) + 1))
            d = np.abs((tot - ops["H_tilde", n])[np.ix_(inner, inner)]).max()
            if d > tol * max(1.0, np.abs(tot).max()):
                fails.append(dict(what="U†HU != H_tilde at order %d on interior Fock states (%.3g)" % (n, d), input=case))
    return fails


def gen_matrix_case(rng):
    """matrix-valued Hamiltonian: L levels x one boson mode; levels may carry IDENTICAL operator-valued energies"""
    L = 2
    cs = [[rng.randint(0, 3), 4]]
    cs.append(cs[0] if rng.random() < 0.6 else [cs[0][0] + rng.choice([1, 2, 3]) * 4 + rng.choice([1, 3]), 4])
    def r():
        return [rng.randint(-3, 3), rng.randint(1, 5)]
    diag = [[r(), r()] for _ in range(L)]          # alpha (a + a†) + beta N
    off = [r(), r()]                                  # x a + y a†   (entry [0,1]); [1,0] is its adjoint
    if off[0][0] == 0 and off[1][0] == 0:
        off[0][0] = 1
    return dict(kind="matrix", L=L, cs=cs, diag=diag, off=off, K=12, N=2)


def check_matrix_case(case, tol=1e-7):
    from pymablock import block_diagonalize
    from pymablock.series import zero, one
    from pymablock.number_ordered_form import NumberOperator
    sp = Space(1, 0, case["K"])
    a = sp.bos[0]
    Nop = NumberOperator(a)
    L = case["L"]
    H0 = sympy.zeros(L, L)
    for i in range(L):
        H0[i, i] = Nop + R(*case["cs"][i])
    H1 = sympy.zeros(L, L)
    for i in range(L):
        al, be = case["diag"][i]
        H1[i, i] = R(*al) * (a + Dagger(a)) + R(*be) * Nop
    x, y = case["off"]
    H1[0, 1] = R(*x) * a + R(*y) * Dagger(a)
    H1[1, 0] = R(*x) * Dagger(a) + R(*y) * a
    K = case["K"]
    N = case["N"]

    def fock(M):
        if M is zero:
            return np.zeros((L * K, L * K), dtype=complex)
        if M is one:
            return np.eye(L * K, dtype=complex)
        return np.block([[sp.tomat(M[i, j]) for j in range(L)] for i in range(L)])
    fails = []
    with warnings.catch_warnings():
        warnings.simplefilter("ignore")
        try:
            Ht, U, Ud = block_diagonalize([H0, H1])
            ops = {(nm, k): fock(S[0, 0, k]) for nm, S in (("H_tilde", Ht), ("U", U), ("U†", Ud)) for k in range(N + 1)}
            h0 = fock(H0).real
            h1 = fock(H1).real
            Htm, Um, Udm = block_diagonalize([np.diag(np.diag(h0)), h1])
        except Exception as e:
            return [dict(what="block_diagonalize raised %s: %s" % (type(e).__name__, str(e)[:200]), input=case)]

        def dense(v):
            if v is zero:
                return np.zeros((L * K, L * K))
            if v is one:
                return np.eye(L * K)
            return np.asarray(v.toarray() if hasattr(v, "toarray") else v)
        for k in range(N + 1):
            keep = [lvl * K + n for lvl in range(L) for n in range(K - 1 - (k + 2))]
            sel = np.ix_(keep, keep)
            for nm, Sm in (("H_tilde", Htm), ("U", Um)):
                ref = dense(Sm[0, 0, k])
                d = np.abs(ops[nm, k][sel] - ref[sel]).max()
                if not np.isfinite(d) or d > tol * max(1.0, np.abs(ref).max()):
                    fails.append(dict(what="matrix-valued Hamiltonian: %s at order %d differs from the truncated-matrix result on interior Fock states by %.3g" % (nm, k, d), input=case))
        Hm = {0: fock(H0), 1: fock(H1)}
        for n in range(N + 1):
            keep = [lvl * K + m for lvl in range(L) for m in range(K - 1 - (n + 2))]
            sel = np.ix_(keep, keep)
            tot = sum(ops["U†", p] @ Hm[q] @ ops["U", n - p - q] for p in range(n + 1) for q in range(min(1, n - p) + 1))
            d = np.abs((tot - ops["H_tilde", n])[sel]).max()
            if d > tol * max(1.0, np.abs(tot).max()):
                fails.append(dict(what="matrix-valued Hamiltonian: U†HU != H_tilde at order %d on interior Fock states (%.3g)" % (n, d), input=case))
    return fails


# ---------------------------------------------------------------------------
# operator-valued elimination masks (fully_diagonalize= sympy Matrix / {0: Matrix} / Expr)

_KSYM = sympy.Symbol("k", integer=True, nonnegative=True)


def _pat_match(pat, p):
    """condition entry of one mode against the operator power p (p > 0: annihilation).
    ["eq", v]: p == v;  ["ge", c]: the symbolic power op**(k + c), k >= 0, i.e. p >= c;  ["le", -c]: Dagger(op)**(k + c)"""
    kind, v = pat
    return p == v if kind == "eq" else (p >= v if kind == "ge" else p <= v)


def mask_selects(entry, powers):
    """entry: list of terms, a term is one pattern per mode; the mask element is the SUM of the corresponding operator
    powers and selects a term of the operator iff some mask term matches all its powers (model: PV.NOF.Mask.matches)"""
    return any(all(_pat_match(pt, p) for pt, p in zip(term, powers)) for term in entry)


def _entry_adj(entry):
    flip = {"eq": "eq", "ge": "le", "le": "ge"}
    return [[[flip[k], -v] for k, v in term] for term in entry]


def _entry_expr(entry, ops):
    tot = sympy.S.Zero
    for term in entry:
        t = sympy.S.One
        for (kind, v), o in zip(term, ops):
            if kind == "eq":
                if v > 0:
                    t = t * o**v
                elif v < 0:
                    t = t * Dagger(o) ** (-v)
            elif kind == "ge":
                t = t * o ** (_KSYM + v if v else _KSYM)
            else:
                t = t * Dagger(o) ** (_KSYM - v if v else _KSYM)
        tot = tot + t
    return tot


def _rand_diag_entry(rng, nmodes, binary):
    """self-adjoint selection that never selects the zero power (same Fock state: degenerate)"""
    if rng.random() < 0.25:
        return []
    m = rng.randrange(nmodes)

    def one(pat):
        t = [["eq", 0] for _ in range(nmodes)]
        t[m] = pat
        return t
    if binary[m]:
        return [one(["eq", 1]), one(["eq", -1])]
    r = rng.random()
    if r < 0.4:
        return [one(["eq", 1]), one(["eq", -1])]                     # a + a†
    if r < 0.7:
        return [one(["ge", 2]), one(["le", -2])]                     # a**(k+2) + Dagger(a)**(k+2)
    if r < 0.85:
        return [one(["ge", 1]), one(["le", -1])]                     # a**(k+1) + Dagger(a)**(k+1)
    return [one(["eq", 2]), one(["eq", -2])]


def _rand_off_entry(rng, nmodes, binary):
    """selection for a matrix element between two DIFFERENT levels (non-degenerate for every power)"""
    m = rng.randrange(nmodes)

    def one(pat):
        t = [["eq", 0] for _ in range(nmodes)]
        t[m] = pat
        return t
    if binary[m]:
        return rng.choice([[one(["eq", 1])], [one(["eq", 1]), one(["eq", -1])], [one(["eq", 0]), one(["eq", -1])], [one(["eq", 0])]])
    r = rng.random()
    if r < 0.2:
        return [one(["eq", 1]), one(["eq", -1])]                     # a + a†
    if r < 0.45:
        return [one(["le", 0])]                                      # Dagger(a)**k   (rotating-wave type)
    if r < 0.6:
        return [one(["ge", 0])]                                      # a**k
    if r < 0.8:
        return [one(["ge", 2]), one(["le", -2])]
    if r < 0.9:
        return [one(["eq", 0]), one(["eq", 1])]                      # 1 + a
    return []


def gen_mask_case(rng):
    sub = rng.choice(["levels_boson", "levels_boson", "levels_fermion", "scalar1", "scalar2"])

    def r(lo=-3, hi=3, den=(1, 2, 3, 5)):
        return [rng.randint(lo, hi), rng.choice(den)]
    if sub in ("levels_boson", "levels_fermion"):
        binary = [sub == "levels_fermion"]
        L = 2
        mask = [[None] * L for _ in range(L)]
        for i in range(L):
            mask[i][i] = _rand_diag_entry(rng, 1, binary)
            for j in range(i):
                mask[i][j] = _rand_off_entry(rng, 1, binary)
                mask[j][i] = _entry_adj(mask[i][j])
        off = [r(), r(), r()]
        if off[0][0] == 0 and off[1][0] == 0:
            off[0][0] = 1
        return dict(kind="mask", sub=sub, form=rng.choice(["matrix", "dict"]), L=L,
                    cs=[[0, 1], [rng.choice([3, 5, 9, 11]), 7]],            # level offsets: difference never an integer
                    diag=[[r(), r(), r()] for _ in range(L)], off=off, mask=mask, K=12, N=2)
    if sub == "scalar1":
        return dict(kind="mask", sub=sub, form=rng.choice(["expr", "dict", "matrix"]), c=[r(1, 3), r(), r()],
                    mask=[[_rand_diag_entry(rng, 1, [False]) or [[["eq", 1]], [["eq", -1]]]]], K=13, N=2)
    # two boson modes: masks that are products over both modes
    ent = rng.choice([
        [[["eq", 1], ["eq", -1]], [["eq", -1], ["eq", 1]]],                                # a b† + a† b
        [[["eq", 1], ["eq", 0]], [["eq", -1], ["eq", 0]], [["eq", 1], ["eq", -1]], [["eq", -1], ["eq", 1]]],
        [[["eq", 1], ["eq", 1]], [["eq", -1], ["eq", -1]], [["eq", 0], ["eq", 1]], [["eq", 0], ["eq", -1]]],
        [[["ge", 1], ["eq", 0]], [["le", -1], ["eq", 0]]],                                 # a**(k+1) + Dagger(a)**(k+1)
    ])
    return dict(kind="mask", sub=sub, form=rng.choice(["expr", "dict"]), c=[r(1, 3), r(1, 3), r(1, 3)], mask=[[ent]], K=7, N=2)


def _mask_build(case):
    """-> sp, level count L, H0, H1 (sympy L x L matrices of operator expressions), hop"""
    from pymablock.number_ordered_form import NumberOperator
    sub = case["sub"]
    if sub == "levels_boson":
        sp = Space(1, 0, case["K"])
        o = sp.bos[0]
    elif sub == "levels_fermion":
        sp = Space(0, 1, 2)
        o = sp.fer[0]
    elif sub == "scalar1":
        sp = Space(1, 0, case["K"])
    else:
        sp = Space(2, 0, case["K"])
    if sub in ("levels_boson", "levels_fermion"):
        L = case["L"]
        Nop = NumberOperator(o)
        H0 = sympy.zeros(L, L)
        H1 = sympy.zeros(L, L)
        for i in range(L):
            H0[i, i] = Nop + R(*case["cs"][i])
            al, be, ga = case["diag"][i]
            H1[i, i] = R(*al) * (o + Dagger(o)) + R(*be) * Nop
            if sub == "levels_boson":
                H1[i, i] += R(*ga) * (o**2 + Dagger(o) ** 2) / 2
        x, y, z = case["off"]
        H1[1, 0] = R(*x) * Dagger(o) + R(*y) * o + R(*z)
        H1[0, 1] = R(*x) * o + R(*y) * Dagger(o) + R(*z)
        return sp, L, H0, H1, (2 if sub == "levels_boson" else 1)
    if sub == "scalar1":
        a = sp.bos[0]
        Nop = NumberOperator(a)
        c1, c2, c3 = (R(*c) for c in case["c"])
        H0 = sympy.Matrix([[OMEGAS[1] * Nop]])
        H1 = sympy.Matrix([[c1 * (a + Dagger(a)) + c2 * (a**2 + Dagger(a) ** 2) / 2 + c3 * (Nop * a + Dagger(a) * Nop) / 3]])
        return sp, 1, H0, H1, 2
    a, b = sp.bos
    c1, c2, c3 = (R(*c) for c in case["c"])
    H0 = sympy.Matrix([[OMEGAS[0] * NumberOperator(a) + OMEGAS[1] * NumberOperator(b)]])
    H1 = sympy.Matrix([[c1 * (a + Dagger(a)) + c2 * (Dagger(a) * b + Dagger(b) * a) + c3 * (b + Dagger(b)) / 2]])
    return sp, 1, H0, H1, 1


def check_mask_case(case, tol=1e-7):
    from pymablock import block_diagonalize
    from pymablock.series import zero, one
    from pymablock.number_ordered_form import NumberOrderedForm
    sp, L, H0, H1, hop = _mask_build(case)
    ops_list = sp.bos + sp.spin + sp.fer
    N = case["N"]
    dim = sp.dim
    mask = case["mask"]
    mexpr = sympy.Matrix([[_entry_expr(mask[i][j], ops_list) for j in range(L)] for i in range(L)])
    form = case["form"]
    if form == "expr":
        fd = mexpr[0, 0]
    elif form == "dict":
        fd = {0: (mexpr[0, 0] if (L == 1 and case["sub"] == "scalar2") else mexpr)}
    else:
        fd = mexpr
    scalar = L == 1
    Hin0, Hin1 = (H0[0, 0], H1[0, 0]) if scalar else (H0, H1)

    def fock(M):
        if M is zero:
            return np.zeros((L * dim, L * dim), dtype=complex)
        if M is one:
            return np.eye(L * dim, dtype=complex)
        if not isinstance(M, sympy.MatrixBase):
            M = sympy.Matrix([[M]])
        return np.block([[sp.tomat(M[i, j]) for j in range(L)] for i in range(L)])
    # reference mask on the truncated Fock space: entry [(i,n),(j,m)] carries the operator power m - n
    Mref = np.zeros((L * dim, L * dim), dtype=bool)
    for i in range(L):
        for j in range(L):
            for ni, n in enumerate(sp.states):
                for mi, m in enumerate(sp.states):
                    if mask_selects(mask[i][j], [mm - nn for mm, nn in zip(m, n)]):
                        Mref[i * dim + ni, j * dim + mi] = True
    fails = []
    with warnings.catch_warnings():
        warnings.simplefilter("ignore")
        try:
            Ht, U, Ud = block_diagonalize([Hin0, Hin1], fully_diagonalize=fd)
            raw = {(nm, k): S[0, 0, k] for nm, S in (("H_tilde", Ht), ("U", U), ("U†", Ud)) for k in range(N + 1)}
            ops = {key: fock(v) for key, v in raw.items()}
            h0 = fock(H0).real
            h1 = fock(H1)
            h1 = h1.real if np.allclose(h1.imag, 0) else h1
            Htm, Um, Udm = block_diagonalize([np.diag(np.diag(h0)), h1], fully_diagonalize={0: Mref})
        except Exception as e:
            return [dict(what="masked block_diagonalize raised %s: %s" % (type(e).__name__, str(e)[:300]), input=case)]

        def dense(v):
            if v is zero:
                return np.zeros((L * dim, L * dim))
            if v is one:
                return np.eye(L * dim)
            return np.asarray(v.toarray() if hasattr(v, "toarray") else v)

        def keepidx(margin):
            inner = sp.interior(margin)
            return [lvl * dim + s for lvl in range(L) for s in inner]
        for k in range(N + 1):
            keep = keepidx(k * hop + 2)
            if not keep:
                continue
            sel = np.ix_(keep, keep)
            for nm, Sm in (("H_tilde", Htm), ("U", Um), ("U†", Udm)):
                ref = dense(Sm[0, 0, k])
                d = np.abs(ops[nm, k][sel] - ref[sel]).max()
                if not np.isfinite(d) or d > tol * max(1.0, np.abs(ref).max()):
                    fails.append(dict(what="operator-valued mask (%s, %s form): %s at order %d differs from the masked truncated-matrix result on interior Fock states by %.3g"
                                      % (case["sub"], form, nm, k, d), input=case))
        Hm = {0: fock(H0), 1: fock(H1)}
        for n in range(N + 1):
            keep = keepidx(n * hop + 2)
            if not keep:
                continue
            sel = np.ix_(keep, keep)
            uu = sum(ops["U†", p] @ ops["U", n - p] for p in range(n + 1))
            tgt = np.eye(L * dim) if n == 0 else np.zeros((L * dim, L * dim))
            d = np.abs((uu - tgt)[sel]).max()
            if d > tol:
                fails.append(dict(what="operator-valued mask: U†U != 1 at order %d on interior Fock states (%.3g)" % (n, d), input=case))
            tot = sum(ops["U†", p] @ Hm[q] @ ops["U", n - p - q] for p in range(n + 1) for q in range(min(1, n - p) + 1))
            d = np.abs((tot - ops["H_tilde", n])[sel]).max()
            if d > tol * max(1.0, np.abs(tot).max()):
                fails.append(dict(what="operator-valued mask: U†HU != H_tilde at order %d on interior Fock states (%.3g)" % (n, d), input=case))
        # the selected operator powers must be absent from H_tilde
        for k in range(1, N + 1):
            v = raw["H_tilde", k]
            if v is zero:
                continue
            if not isinstance(v, sympy.MatrixBase):
                v = sympy.Matrix([[v]])
            for i in range(L):
                for j in range(L):
                    e = v[i, j]
                    if e == 0:
                        continue
                    nof = NumberOrderedForm.from_expr(e, operators=ops_list) if not isinstance(e, NumberOrderedForm) else e._expand_operators(sympy.Tuple(*ops_list)) if list(e.operators) != ops_list else e
                    for powers, coeff in nof.args[1]:
                        pw = [int(p) for p in powers]
                        if mask_selects(mask[i][j], pw) and sympy.simplify(coeff) != 0:
                            fails.append(dict(what="operator-valued mask: H_tilde[%d,%d] at order %d still contains the selected operator power %s" % (i, j, k, pw), input=case))
    return fails


# ---------------------------------------------------------------------------
# matrix-valued Hamiltonians with several blocks (subspace_indices) and fully_diagonalize lists


def gen_blocks_case(rng, sub=None):
    """3 levels x one boson (or one fermion) mode with distinct rational level offsets; the levels are distributed over
    blocks: [0,1,2] (three 1x1 blocks: all block pairs use the in-block entry [0,0]), [0,1,1], [0,0,1], or 2 levels [0,1];
    optionally fully_diagonalize = [0] / [1] / [0,1]"""
    sub = sub or rng.choice([[0, 1, 2], [0, 1, 2], [0, 1, 1], [0, 0, 1], [0, 1]])
    L = len(sub)
    offs = rng.sample([[0, 1], [3, 7], [9, 11], [16, 13], [5, 3]], L)   # differences are never integers
    fermion = rng.random() < 0.25

    def r():
        return [rng.randint(-3, 3), rng.randint(1, 5)]
    diag = [[r(), r()] for _ in range(L)]
    off = {}
    for i in range(L):
        for j in range(i + 1, L):
            x, y = r(), r()
            if x[0] == 0 and y[0] == 0:
                x[0] = 1
            off["%d,%d" % (i, j)] = [x, y]
    nb = max(sub) + 1
    fd = None
    if any(sub.count(b) > 1 for b in range(nb)) and rng.random() < 0.6:
        fd = rng.choice([[b for b in range(nb) if sub.count(b) > 1], list(range(nb))])
    return dict(kind="blocks", L=L, sub=sub, cs=offs, diag=diag, off=off, fd=fd, fermion=fermion, K=10, N=2)


def check_blocks_case(case, tol=1e-7):
    from pymablock import block_diagonalize
    from pymablock.series import zero, one
    from pymablock.number_ordered_form import NumberOperator
    fermion = case.get("fermion", False)
    sp = Space(0, 1, 2) if fermion else Space(1, 0, case["K"])
    a = sp.fer[0] if fermion else sp.bos[0]
    Nop = NumberOperator(a)
    L, sub, N = case["L"], case["sub"], case["N"]
    dim = sp.dim
    H0 = sympy.zeros(L, L)
    H1 = sympy.zeros(L, L)
    for i in range(L):
        H0[i, i] = Nop + R(*case["cs"][i])
        al, be = case["diag"][i]
        H1[i, i] = R(*al) * (a + Dagger(a)) + R(*be) * Nop
    for key, (x, y) in case["off"].items():
        i, j = (int(v) for v in key.split(","))
        H1[i, j] = R(*x) * a + R(*y) * Dagger(a)
        H1[j, i] = R(*x) * Dagger(a) + R(*y) * a
    nb = max(sub) + 1
    lv = [[l for l in range(L) if sub[l] == b] for b in range(nb)]
    idx = [[l * dim + n for l in lv[b] for n in range(dim)] for b in range(nb)]
    kw = {} if case["fd"] is None else dict(fully_diagonalize=list(case["fd"]))

    def fock(M):
        return np.block([[sp.tomat(M[i, j]) for j in range(M.shape[1])] for i in range(M.shape[0])])

    def assemble_op(S, k):
        full = np.zeros((L * dim, L * dim), dtype=complex)
        for bi in range(nb):
            for bj in range(nb):
                v = S[bi, bj, k]
                if v is zero:
                    continue
                blk = np.eye(len(idx[bi]), dtype=complex) if v is one else fock(v if isinstance(v, sympy.MatrixBase) else sympy.Matrix([[v]]))
                full[np.ix_(idx[bi], idx[bj])] = blk
        return full

    def assemble_num(S, k):
        full = np.zeros((L * dim, L * dim), dtype=complex)
        for bi in range(nb):
            for bj in range(nb):
                v = S[bi, bj, k]
                if v is zero:
                    continue
                blk = np.eye(len(idx[bi])) if v is one else np.asarray(v.toarray() if hasattr(v, "toarray") else v)
                full[np.ix_(idx[bi], idx[bj])] = blk
        return full
    fails = []
    with warnings.catch_warnings():
        warnings.simplefilter("ignore")
        try:
            Ht, U, Ud = block_diagonalize([H0, H1], subspace_indices=list(sub), **kw)
            ops = {(nm, k): assemble_op(S, k) for nm, S in (("H_tilde", Ht), ("U", U), ("U†", Ud)) for k in range(N + 1)}
            h0 = fock(H0).real
            h1 = fock(H1).real
            Htm, Um, Udm = block_diagonalize([np.diag(np.diag(h0)), h1], subspace_indices=[sub[l] for l in range(L) for _ in range(dim)], **kw)
            ref = {(nm, k): assemble_num(S, k) for nm, S in (("H_tilde", Htm), ("U", Um), ("U†", Udm)) for k in range(N + 1)}
        except Exception as e:
            return [dict(what="block_diagonalize (matrix-valued, blocks %s, fully_diagonalize=%s) raised %s: %s" % (sub, case["fd"], type(e).__name__, str(e)[:200]), input=case)]
        for k in range(N + 1):
            inner = sp.interior(k + 2)
            keep = [l * dim + n for l in range(L) for n in inner]
            sel = np.ix_(keep, keep)
            for nm in ("H_tilde", "U", "U†"):
                d = np.abs(ops[nm, k][sel] - ref[nm, k][sel]).max()
                if not np.isfinite(d) or d > tol * max(1.0, np.abs(ref[nm, k]).max()):
                    fails.append(dict(what="matrix-valued Hamiltonian, levels in blocks %s, fully_diagonalize=%s: %s at order %d differs from the truncated-matrix result on interior Fock states by %.3g"
                                      % (sub, case["fd"], nm, k, d), input=case))
        Hm = {0: fock(H0), 1: fock(H1)}
        for n in range(N + 1):
            inner = sp.interior(n + 2)
            keep = [l * dim + m for l in range(L) for m in inner]
            sel = np.ix_(keep, keep)
            uu = sum(ops["U†", p] @ ops["U", n - p] for p in range(n + 1))
            tgt = np.eye(L * dim) if n == 0 else np.zeros((L * dim, L * dim))
            d = np.abs((uu - tgt)[sel]).max()
            if d > tol:
                fails.append(dict(what="matrix-valued Hamiltonian, blocks %s: U†U != 1 at order %d on interior Fock states (%.3g)" % (sub, n, d), input=case))
            tot = sum(ops["U†", p] @ Hm[q] @ ops["U", n - p - q] for p in range(n + 1) for q in range(min(1, n - p) + 1))
            d = np.abs((tot - ops["H_tilde", n])[sel]).max()
            if d > tol * max(1.0, np.abs(tot).max()):
                fails.append(dict(what="matrix-valued Hamiltonian, blocks %s: U†HU != H_tilde at order %d on interior Fock states (%.3g)" % (sub, n, d), input=case))
    return fails


# ---------------------------------------------------------------------------
# modes that occur only in the perturbation (no term in H_0)


def gen_zerofreq_case(rng, variant=None):
    """H_0 = w N_x only; a second mode y has NO term in H_0 and occurs in H_1 = c1 (x† y + y† x) + c2 N_x N_y (+ c3 N_x):
    every term changes n_x and n_y oppositely, so the levels coupled by the perturbation are never degenerate.
    variant: "bb" (two bosons), "fb" (x fermion, y boson), "bf" (x boson, y fermion)"""
    variant = variant or rng.choice(["bb", "bb", "fb", "bf"])

    def r(lo=1):
        return [rng.choice([v for v in range(-3, 4) if abs(v) >= lo]), rng.randint(1, 4)]
    return dict(kind="zerofreq", variant=variant, w=rng.choice([[1, 1], [17, 7], [3, 2]]), c=[r(), r(0), r(0)], K=6, N=2)


def check_zerofreq_case(case, tol=1e-7):
    from pymablock import block_diagonalize
    from pymablock.series import zero, one
    v = case["variant"]
    if v == "bb":
        sp = Space(2, 0, case["K"])
        x, y = sp.bos
        xi = 0
    elif v == "fb":
        sp = Space(1, 1, case["K"])
        x, y = sp.fer[0], sp.bos[0]
        xi = 1
    else:
        sp = Space(1, 1, case["K"])
        x, y = sp.bos[0], sp.fer[0]
        xi = 0
    w = R(*case["w"])
    c1, c2, c3 = (R(*c) for c in case["c"])
    H0 = w * Dagger(x) * x
    H1 = c1 * (Dagger(x) * y + Dagger(y) * x) + c2 * Dagger(x) * x * Dagger(y) * y + c3 * Dagger(x) * x
    g = sympy.Symbol("g", real=True)
    N, dim = case["N"], sp.dim
    fails = []
    with warnings.catch_warnings():
        warnings.simplefilter("ignore")
        try:
            Ht, U, Ud = block_diagonalize(H0 + g * H1, symbols=[g])
            ops = {}
            for name, S in (("H_tilde", Ht), ("U", U), ("U†", Ud)):
                for k in range(N + 1):
                    val = S[0, 0, k]
                    if val is zero:
                        ops[name, k] = np.zeros((dim, dim), dtype=complex)
                    elif val is one:
                        ops[name, k] = np.eye(dim, dtype=complex)
                    else:
                        val = sympy.sympify(val)
                        if isinstance(val, sympy.MatrixBase):
                            val = val[0, 0]
                        ops[name, k] = sp.tomat(val.subs(g, 1))
            # reference: the degenerate Fock states (same occupation of x) form one block each
            labels = [st[xi] for st in sp.states]
            blocks = sorted(set(labels))
            idx = [[k for k, l in enumerate(labels) if l == b] for b in blocks]
            M0, M1 = sp.tomat(H0).real, sp.tomat(H1).real
            Htm, Um, Udm = block_diagonalize([np.diag(np.diag(M0)), M1], subspace_indices=[blocks.index(l) for l in labels])

            def assemble(S, k):
                full = np.zeros((dim, dim), dtype=complex)
                for bi in range(len(blocks)):
                    for bj in range(len(blocks)):
                        val = S[bi, bj, k]
                        if val is zero:
                            continue
                        full[np.ix_(idx[bi], idx[bj])] = np.eye(len(idx[bi])) if val is one else np.asarray(val.toarray() if hasattr(val, "toarray") else val)
                return full
            ref = {(nm, k): assemble(S, k) for nm, S in (("H_tilde", Htm), ("U", Um), ("U†", Udm)) for k in range(N + 1)}
        except Exception as e:
            return [dict(what="block_diagonalize with a mode that occurs only in the perturbation (%s) raised %s: %s" % (v, type(e).__name__, str(e)[:200]), input=case)]
        for k in range(N + 1):
            inner = sp.interior(k + 1)
            if not inner:
                continue
            sel = np.ix_(inner, inner)
            for nm in ("H_tilde", "U", "U†"):
                d = np.abs(ops[nm, k][sel] - ref[nm, k][sel]).max()
                if not np.isfinite(d) or d > tol * max(1.0, np.abs(ref[nm, k]).max()):
                    fails.append(dict(what="mode without H_0 term (%s): %s at order %d differs from the block-wise truncated-matrix result on interior Fock states by %.3g" % (v, nm, k, d), input=case))
        Hm = {0: sp.tomat(H0), 1: sp.tomat(H1)}
        for n in range(N + 1):
            inner = sp.interior(n + 1)
            if not inner:
                continue
            sel = np.ix_(inner, inner)
            uu = sum(ops["U†", p] @ ops["U", n - p] for p in range(n + 1))
            tgt = np.eye(dim) if n == 0 else np.zeros((dim, dim))
            if np.abs((uu - tgt)[sel]).max() > tol:
                fails.append(dict(what="mode without H_0 term (%s): U†U != 1 at order %d on interior Fock states" % (v, n), input=case))
            tot = sum(ops["U†", p] @ Hm[q] @ ops["U", n - p - q] for p in range(n + 1) for q in range(min(1, n - p) + 1))
            d = np.abs((tot - ops["H_tilde", n])[sel]).max()
            if d > tol * max(1.0, np.abs(tot).max()):
                fails.append(dict(what="mode without H_0 term (%s): U†HU != H_tilde at order %d on interior Fock states (%.3g)" % (v, n, d), input=case))
    return fails


# ---------------------------------------------------------------------------
# two perturbation parameters, mask with an operator that is absent from H_0, several request histories


def gen_mask2p_case(rng):
    def r(lo=1):
        return [rng.choice([v for v in range(-3, 4) if abs(v) >= lo]), rng.randint(1, 4)]
    ent = rng.choice([
        [[["eq", 1], ["eq", -1]], [["eq", -1], ["eq", 1]]],                                              # a b† + a† b
        [[["eq", 1], ["eq", -1]], [["eq", -1], ["eq", 1]], [["eq", 0], ["eq", 2]], [["eq", 0], ["eq", -2]]],  # ... + b^2 + b†^2
        [[["eq", 1], ["eq", -1]], [["eq", -1], ["eq", 1]], [["eq", 1], ["eq", 1]], [["eq", -1], ["eq", -1]]],  # ... + a b + a† b†
    ])
    return dict(kind="mask2p", w=rng.choice([[1, 1], [17, 7], [3, 2]]), c=[r(), r(), r(0), r(0)], mask=[[ent]],
                form=rng.choice(["expr", "dict"]), K=8, hseed=rng.randrange(10**6))


MASK2P_ORDERS = [(1, 0), (0, 1), (1, 1), (2, 0), (0, 2)]


def check_mask2p_case(case, tol=1e-7):
    """H = w N_b + l1 c1 (b^2 + b†^2) + l2 (c2 (a b† + a† b) + c3 N_a N_b + c4 (a b + a† b†)) with a partial operator mask
    that involves a (absent from H_0); every element of H_tilde, U, U† up to total order 2 is requested under several
    histories (different first requests, fresh computation each) and must equal the masked matrix reference every time"""
    from pymablock import block_diagonalize
    from pymablock.series import zero, one
    sp = Space(2, 0, case["K"])
    a, b = sp.bos
    w = R(*case["w"])
    c1, c2, c3, c4 = (R(*c) for c in case["c"])
    l1, l2 = sympy.symbols("lambda_1 lambda_2", positive=True)
    H0 = w * Dagger(b) * b
    H1 = c1 * (b**2 + Dagger(b) ** 2)
    H2 = c2 * (a * Dagger(b) + Dagger(a) * b) + c3 * Dagger(a) * a * Dagger(b) * b + c4 * (a * b + Dagger(a) * Dagger(b))
    H = H0 + l1 * H1 + l2 * H2
    ent = case["mask"][0][0]
    mexpr = _entry_expr(ent, [a, b])
    fd = mexpr if case["form"] == "expr" else {0: sympy.Matrix([[mexpr]])}
    fd_before = sympy.srepr(fd[0] if isinstance(fd, dict) else fd)
    dim = sp.dim
    Mref = np.zeros((dim, dim), dtype=bool)
    for ni, n in enumerate(sp.states):
        for mi, m in enumerate(sp.states):
            if mask_selects(ent, [mm - nn for mm, nn in zip(m, n)]):
                Mref[ni, mi] = True
    elements = [(nm, o) for nm in ("H_tilde", "U", "U†") for o in MASK2P_ORDERS]
    hr = random.Random(case["hseed"])
    firsts = [("H_tilde", (1, 0)), ("H_tilde", (0, 1)), ("U", (1, 1)), hr.choice(elements)]
    fails = []

    def tomat(v):
        if v is zero:
            return np.zeros((dim, dim), dtype=complex)
        if v is one:
            return np.eye(dim, dtype=complex)
        v = sympy.sympify(v)
        if isinstance(v, sympy.MatrixBase):
            v = v[0, 0]
        return sp.tomat(v.subs({l1: 1, l2: 1}))
    with warnings.catch_warnings():
        warnings.simplefilter("ignore")
        try:
            h0, h1, h2 = sp.tomat(H0).real, sp.tomat(H1).real, sp.tomat(H2).real
            ref_out = block_diagonalize({(0, 0): np.diag(np.diag(h0)), (1, 0): h1, (0, 1): h2}, fully_diagonalize={0: Mref})
            ref = {}
            for nm, S in zip(("H_tilde", "U", "U†"), ref_out):
                for o in MASK2P_ORDERS:
                    v = S[(0, 0) + o]
                    ref[nm, o] = np.zeros((dim, dim)) if v is zero else (np.eye(dim) if v is one else np.asarray(v.toarray() if hasattr(v, "toarray") else v))
        except Exception as e:
            return [dict(what="masked matrix reference raised %s: %s" % (type(e).__name__, str(e)[:200]), input=case, crash=True)]
        results = []
        for first in firsts:
            order = [first] + [e for e in hr.sample(elements, len(elements)) if e != first]
            try:
                outs = dict(zip(("H_tilde", "U", "U†"), block_diagonalize(H, symbols=[l1, l2], fully_diagonalize=fd)))
                got = {}
                for nm, o in order:
                    got[nm, o] = tomat(outs[nm][(0, 0) + o])
            except Exception as e:
                return [dict(what="two-parameter masked block_diagonalize (first request %s) raised %s: %s" % (first, type(e).__name__, str(e)[:200]), input=case)]
            results.append((first, got))
            for (nm, o), m in got.items():
                inner = sp.interior(2 * sum(o) + 1)
                sel = np.ix_(inner, inner)
                d = np.abs(m[sel] - ref[nm, o][sel]).max()
                if not np.isfinite(d) or d > tol * max(1.0, np.abs(ref[nm, o]).max()):
                    fails.append(dict(what="two-parameter operator mask with a mode absent from H_0: %s at order %s differs from the masked matrix reference by %.3g when %s at order %s is requested first"
                                      % (nm, o, d, first[0], first[1]), input=case))
        base = results[0][1]
        for first, got in results[1:]:
            for key in got:
                d = np.abs(got[key] - base[key]).max()
                if d > tol * max(1.0, np.abs(base[key]).max()):
                    fails.append(dict(what="history dependence: %s at order %s differs by %.3g between the computations that requested %s and %s first"
                                      % (key[0], key[1], d, results[0][0], first), input=case))
        if sympy.srepr(fd[0] if isinstance(fd, dict) else fd) != fd_before:
            fails.append(dict(what="block_diagonalize modified the caller's fully_diagonalize mask", input=case))
    return fails[:6]


def _dispatch(case):
    k = case.get("kind")
    if k == "zerofreq":
        return check_zerofreq_case(case)
    if k == "mask2p":
        return check_mask2p_case(case)
    return check_mask_case(case) if k == "mask" else check_blocks_case(case) if k == "blocks" else check_matrix_case(case) if k == "matrix" else check_case(case)


def _worker(case):
    t = time.time()
    try:
        f = _dispatch(case)
    except Exception as e:
        import traceback
        f = [dict(what="oracle crashed: " + traceback.format_exc()[-800:], input=case, crash=True)]
    return case, f, time.time() - t


def oracle_fock(ctx, ncases=None, N=None):
    n = ncases or ctx.n(6, 80)
    # corpus (always runs): finding D23, N + g((1+i) a + (1-i) a†) made _poly_simplify raise GeneratorsNeeded at order 2
    cases = [dict(nbos=1, nfer=0, terms=[["bdispc", 0, [1, 1]]], inter=None, K=7, N=2)]
    for i in range(n):
        c = gen_matrix_case(ctx.rng) if i % 3 == 2 else (gen_spin_case(ctx.rng) if i % 3 == 0 else gen_case(ctx.rng))
        c["N"] = N or ctx.n(2, 3)
        cases.append(c)
    cases.append(gen_blocks_case(random.Random(7), sub=[0, 1, 2]))  # corpus: three 1x1 blocks (all pairs use the in-block entry [0,0])
    # corpus (fix 82feb7f): w a†a + g (a†b + b†a): b occurs only in the perturbation; H_tilde_2 = g^2 (N_a - N_b) / w
    cases.append(dict(kind="zerofreq", variant="bb", w=[3, 2], c=[[1, 1], [0, 1], [0, 1]], K=6, N=3))
    for i in range(ctx.n(2, 30)):
        cases.append(gen_zerofreq_case(ctx.rng))
    for i in range(ctx.n(3, 45)):  # matrix-valued Hamiltonians with several blocks / fully_diagonalize lists
        cases.append(gen_blocks_case(ctx.rng))
    # corpus: multi-condition two-mode masks that are NOT the product of their per-mode powers, with hopping in H_1
    for ent in ([[["eq", 1], ["eq", 1]], [["eq", -1], ["eq", -1]], [["eq", 0], ["eq", 1]], [["eq", 0], ["eq", -1]]],
                [[["eq", 1], ["eq", 0]], [["eq", -1], ["eq", 0]], [["eq", 1], ["eq", 1]], [["eq", -1], ["eq", -1]]]):
        cases.append(dict(kind="mask", sub="scalar2", form="expr", c=[[1, 2], [2, 3], [1, 1]], mask=[[ent]], K=7, N=2))
    # corpus + random: two parameters, mask operator absent from H_0, several request histories
    cases.append(dict(kind="mask2p", w=[3, 2], c=[[1, 2], [1, 1], [1, 3], [0, 1]], mask=[[[[["eq", 1], ["eq", -1]], [["eq", -1], ["eq", 1]]]]],
                      form="expr", K=8, hseed=1))
    for i in range(ctx.n(1, 12)):
        cases.append(gen_mask2p_case(ctx.rng))
    for i in range(ctx.n(4, 60)):  # operator-valued elimination masks (fully_diagonalize = sympy Matrix / dict / Expr)
        c = gen_mask_case(ctx.rng)
        c["N"] = N or 2
        cases.append(c)
    if ctx.quick:
        res = [_worker(c) for c in cases]
    else:
        import multiprocessing as mp
        with mp.Pool(16) as pool:
            res = pool.map(_worker, cases, chunksize=1)
    fails = [f for _, fs, _ in res for f in fs]
    import json
    distinct = {json.dumps(c, sort_keys=True) for c in cases}
    return dict(evaluations=len(cases), nontrivial=len(distinct),
                rule="random second-quantised Hamiltonians (0-1 boson modes truncated at 7 quanta, 1-3 fermion modes; every third case a spin-1/2 mode next to fermions/bosons with a spin flip and a fermion-linear term; number-conserving H_0 with incommensurate rational frequencies and optional density interaction, 2-4 perturbation terms incl. pairing and boson-assisted hopping), orders <= N; operator-valued H_tilde/U/U† converted to matrices (Jordan-Wigner, Fock truncation) and compared with the matrix computation on states >= order+1 below the truncation edge, plus U†U=1 and U†HU=H_tilde there; plus a masked family: fully_diagonalize given as operator-valued masks (sympy Matrix, {0: Matrix} and scalar Expr forms; a + a†, a**k / Dagger(a)**k and a**(k+2) + Dagger(a)**(k+2) with a symbolic nonnegative integer k, products over two modes, level x boson, level x fermion and scalar Hamiltonians) compared with the matrix computation using the 0/1 mask M[(i,n),(j,m)] = [mask[i,j] selects the power m-n], and the selected powers must be absent from H_tilde",
                samples=[dict(c) for c in cases[:2]], failures=fails)


def replay(inp):
    f = _dispatch(inp)
    for x in f[:5]:
        print("still fails:", x["what"])
    return 1 if f else 0
