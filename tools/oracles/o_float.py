"""Floating-point oracle for C01 / C02 / C05 (the "up to rounding" clause, and the numeric branches
with data that the exact families cannot reach: generic complex energies and entries, dense and
sparse).  Products are dense numpy Cauchy sums; tolerances are relative to the size of the terms.

Non-Hermitian cases stay OUTSIDE the class of the known finding C05-kept-distinct-energies: levels are
degenerate inside every block unless the block is fully diagonalised (then the kept elements are the
degenerate pairs only), so every kept element connects equal unperturbed energies.
"""
import sys
import itertools
import warnings

from vlib import core

sys.path.insert(0, str(core.REPO))
import numpy as np  # noqa: E402
import scipy.sparse as sp  # noqa: E402


def orders_upto(k, N):
    return [o for o in itertools.product(range(N + 1), repeat=k) if sum(o) <= N]


def gen_case(rng, hermitian):
    nb = rng.randint(1, 3)
    sizes = [rng.randint(1, 3) for _ in range(nb)]
    if sum(sizes) == 1:
        sizes = [2]
    nparam = rng.randint(1, 2)
    fmt = rng.choice(["dense", "sparse"])
    cplx = rng.random() < 0.7
    seed = rng.randrange(1 << 30)
    fully = sorted(rng.sample(range(nb), rng.randint(1, nb))) if (nb == 1 or rng.random() < 0.5) else []
    chain = hermitian and bool(fully) and rng.random() < 0.3  # Hermitian only: in non-Hermitian mode a chain is inside the known finding
    if chain:
        # a non-transitive tolerance chain E, E+0.06, E+0.12 (atol = 0.1) inside a fully diagonalised block of 3 levels
        # (plus 0-2 further, well separated levels in the same block)
        sizes[fully[0]] = 3 + rng.randint(0, 2)
    # a quarter of the cases designate the blocks by (complete) subspace_eigenvectors: a unitary basis in Hermitian mode,
    # biorthogonal (right, left) pairs with left != right in non-Hermitian mode; the perturbation is then given in the
    # lab basis (in non-Hermitian mode half of the terms are Hermitian matrices there) and projected by the oracle itself
    eig = (not chain) and rng.random() < 0.25
    # a custom Sylvester solver (then H_0 only has to be block diagonal, not diagonal): two-argument form for any number of
    # blocks, the deprecated one-argument form for two blocks in Hermitian mode
    # non-Hermitian: all imaginary parts of the unperturbed energies tiny (|Im E| ~ 1e-4): they must not be dropped
    tinyim = (not hermitian) and (not chain) and rng.random() < 0.25
    # blocks handed over separately as scipy.sparse MATRICES (csr_matrix / coo_matrix: `*` is the matrix product there),
    # as a BlockSeries-free nested list per order; only with subspace designation implied by the block structure
    spm = (fmt == "sparse") and (not chain) and (not eig) and rng.random() < 0.35
    custom = None
    if not chain and not eig and not fully and nb >= 2 and rng.random() < 0.3:
        custom = "legacy" if (nb == 2 and hermitian and rng.random() < 0.5) else "index"
    return dict(sizes=sizes, nparam=nparam, fmt=fmt, cplx=cplx, seed=seed, fully=fully, hermitian=hermitian,
                N=3, cplx_energy=(not hermitian and not chain and rng.random() < 0.6), chain=chain, atol=(0.1 if chain else None), eig=eig, custom=custom, tinyim=tinyim, spm=(spm and custom is None))


def build(case):
    rs = np.random.default_rng(case["seed"])
    sizes = case["sizes"]
    nb = len(sizes)
    dim = sum(sizes)
    sub = [b for b, s in enumerate(sizes) for _ in range(s)]
    E = np.zeros(dim, dtype=complex)
    pos = 0
    for b, s in enumerate(sizes):
        base = 3.0 * b + rs.uniform(0, 0.5) + (1j * rs.uniform(-1, 1) if case["cplx_energy"] else 0)
        if case.get("tinyim"):
            base = base.real + 1.5e-4j * rs.uniform(-1, 1)
        for a in range(s):
            if case.get("chain") and b == case["fully"][0]:
                lvl = base + (0.06 * a if a < 3 else 0.12 + 0.45 * (a - 2))
            elif b in case["fully"]:
                # distinct levels inside a fully diagonalised block (gaps >= 0.4), sometimes a degenerate pair
                lvl = base + 0.5 * (a if not (a == 1 and rs.uniform() < 0.3) else 0)
            else:
                lvl = base
            if case.get("tinyim") and b in case["fully"]:
                # every distinct level of a fully diagonalised block gets its own tiny imaginary part (equal levels stay equal)
                lvl = lvl.real + 1.5e-4j * np.sin(37.0 * lvl.real)
            E[pos] = lvl
            pos += 1
    if not (case["cplx_energy"] or case.get("tinyim")):
        E = E.real
    H0 = np.diag(E)
    terms = {}
    for o in orders_upto(case["nparam"], 2):
        if sum(o) == 0:
            continue
        if sum(o) == 1 or rs.uniform() < 0.3:
            M = rs.normal(size=(dim, dim))
            if case["cplx"]:
                M = M + 1j * rs.normal(size=(dim, dim))
            if case["hermitian"]:
                M = (M + M.conj().T) / 2
            if case.get("atol"):
                # the library converts a block whose entries are all below atol to an exact zero (documented meaning of
                # atol): keep every block of every term clearly above it, so that nothing is pruned
                offs = np.cumsum([0] + list(sizes))
                for i in range(nb):
                    for j in range(i, nb):
                        blk = M[offs[i]:offs[i + 1], offs[j]:offs[j + 1]]
                        if np.abs(blk).max() < 5 * case["atol"]:
                            M[offs[i], offs[j]] += 1.0
                            if i != j:
                                M[offs[j], offs[i]] += 1.0
                        if not case["hermitian"] and i != j:
                            blk2 = M[offs[j]:offs[j + 1], offs[i]:offs[i + 1]]
                            if np.abs(blk2).max() < 5 * case["atol"]:
                                M[offs[j], offs[i]] += 1.0
            terms[o] = M
    return sub, E, H0, terms


def dense(v, shape):
    from pymablock.series import zero, one
    if v is zero:
        return np.zeros(shape, dtype=complex)
    if v is one:
        return np.eye(shape[0], dtype=complex)
    if sp.issparse(v):
        v = v.toarray()
    return np.asarray(v, dtype=complex)


def check_case(case, tol=2e-8):
    from pymablock import block_diagonalize
    sub, E, H0, terms = build(case)
    sizes = case["sizes"]
    nb = len(sizes)
    dim = sum(sizes)
    k = case["nparam"]
    N = case["N"]
    conv = (lambda M: sp.csr_array(M)) if case["fmt"] == "sparse" else (lambda M: M)
    bkw = dict(subspace_indices=sub)
    if case.get("eig"):
        rs = np.random.default_rng(case["seed"] + 1)
        a = rs.standard_normal((dim, dim)) + (1j * rs.standard_normal((dim, dim)) if case["cplx"] else 0)
        if case["hermitian"]:
            Rm = np.linalg.qr(a)[0]
            Rinv = Rm.conj().T
        else:
            Rm = np.eye(dim) + 0.3 * a
            while np.linalg.cond(Rm) > 8:
                a = 0.7 * a
                Rm = np.eye(dim) + 0.3 * a
            Rinv = np.linalg.inv(Rm)
        # lab-basis problem; `terms` are re-drawn in the lab basis, the eigenbasis terms are computed here
        lab = {}
        for o in list(terms):
            T = rs.standard_normal((dim, dim)) + (1j * rs.standard_normal((dim, dim)) if case["cplx"] else 0)
            if case["hermitian"] or rs.uniform() < 0.5:
                T = (T + T.conj().T) / 2
            lab[o] = T
            terms[o] = Rinv @ T @ Rm
        H0lab = Rm @ np.diag(E) @ Rinv
        if not case["cplx"] and not np.iscomplexobj(E):
            H0lab = H0lab.real
        H = {(0,) * k: conv(H0lab)}
        for o, T in lab.items():
            H[o] = conv(T)
        offs0 = np.cumsum([0] + sizes)
        rights = [np.ascontiguousarray(Rm[:, offs0[i]:offs0[i + 1]]) for i in range(nb)]
        lefts = [np.ascontiguousarray(Rinv[offs0[i]:offs0[i + 1], :].conj().T) for i in range(nb)]
        bkw = dict(subspace_eigenvectors=rights if case["hermitian"] else list(zip(rights, lefts)))
    elif case.get("custom"):
        import scipy.linalg as sla
        rs = np.random.default_rng(case["seed"] + 2)
        offs0 = np.cumsum([0] + sizes)
        A = []
        H0 = np.zeros((dim, dim), dtype=complex)
        for i in range(nb):
            a = rs.standard_normal((sizes[i], sizes[i])) + (1j * rs.standard_normal((sizes[i], sizes[i])) if case["cplx"] else 0)
            if case["hermitian"]:
                q = np.linalg.qr(a)[0]
                Ai = q @ np.diag(E[offs0[i]:offs0[i + 1]]) @ q.conj().T
            else:
                q = np.eye(sizes[i]) + 0.25 * a / max(1.0, np.abs(a).max())
                Ai = q @ np.diag(E[offs0[i]:offs0[i + 1]]) @ np.linalg.inv(q)
            A.append(Ai)
            H0[offs0[i]:offs0[i + 1], offs0[i]:offs0[i + 1]] = Ai
        if not case["cplx"] and not np.iscomplexobj(E):
            H0 = H0.real
            A = [x.real for x in A]

        def solve2(Y, index):
            Yd = Y.toarray() if sp.issparse(Y) else np.asarray(Y)
            # H_0^(i) V - V H_0^(j) = Y
            return sla.solve_sylvester(A[index[0]], -A[index[1]], Yd)
        if case["custom"] == "legacy":
            bkw = dict(subspace_indices=sub, solve_sylvester=lambda Y: solve2(Y, (0, 1)))
        else:
            bkw = dict(subspace_indices=sub, solve_sylvester=solve2)
        H = {(0,) * k: conv(H0)}
        for o, M in terms.items():
            H[o] = conv(M)
    elif case.get("spm"):
        offs0 = np.cumsum([0] + sizes)
        mk = sp.csr_matrix if case["seed"] % 2 else sp.coo_matrix

        def blocks(M):
            return [[mk(np.asarray(M)[offs0[i]:offs0[i + 1], offs0[j]:offs0[j + 1]]) for j in range(nb)] for i in range(nb)]
        H = {(0,) * k: blocks(H0)}
        for o, M in terms.items():
            H[o] = blocks(M)
        bkw = {}
    else:
        H = {(0,) * k: conv(H0)}
        for o, M in terms.items():
            H[o] = conv(M)
    fails = []
    with warnings.catch_warnings():
        warnings.simplefilter("ignore")
        try:
            kw = dict(atol=case["atol"]) if case.get("atol") else {}
            Ht, U, Ui = block_diagonalize(dict(H), **bkw, fully_diagonalize=tuple(case["fully"]), hermitian=case["hermitian"], **kw)
            offs = np.cumsum([0] + sizes)
            S = {}
            for name, X in (("Ht", Ht), ("U", U), ("Ui", Ui)):
                for n in orders_upto(k, N):
                    M = np.zeros((dim, dim), dtype=complex)
                    for i in range(nb):
                        for j in range(nb):
                            M[offs[i]:offs[i + 1], offs[j]:offs[j + 1]] = dense(X[(i, j) + n], (sizes[i], sizes[j]))
                    S[name, n] = M
        except Exception as e:
            return [dict(what="block_diagonalize raised %s: %s" % (type(e).__name__, str(e)[:200]), input=case, prop="run")]
    Hd = {(0,) * k: H0.astype(complex)}
    Hd.update({o: M.astype(complex) for o, M in terms.items()})
    K = np.zeros((dim, dim), dtype=bool)
    for i in range(nb):
        sl = slice(offs[i], offs[i + 1])
        if i in case["fully"] or nb == 1:
            etol = case.get("atol") or 1e-9
            close = np.abs(E[sl][:, None] - E[sl][None, :]) < etol
            # kept elements = connected components of the tolerance relation
            reach = close.copy()
            for _ in range(len(reach)):
                reach = (reach.astype(int) @ close.astype(int)) > 0
            K[sl, sl] = reach
        else:
            K[sl, sl] = True

    def splits(n):
        return itertools.product(*[range(x + 1) for x in n])

    def cauchy2(A, B, n):
        tot = np.zeros((dim, dim), dtype=complex)
        for a in splits(n):
            b = tuple(x - y for x, y in zip(n, a))
            tot += A(a) @ B(b)
        return tot
    fU = lambda n: S["U", n]
    fUi = lambda n: S["Ui", n]
    fH = lambda n: Hd.get(n, np.zeros((dim, dim), dtype=complex))
    if not np.all(np.isfinite(np.array([np.abs(v).max() for v in S.values()]))):
        return [dict(what="non-finite element returned", input=case, prop="finite")]
    scale_all = max(1.0, max(np.abs(v).max() for v in S.values()))
    for n in orders_upto(k, N):
        # tolerance relative to the size of the terms that can enter order n (orders componentwise <= n): a mutation that
        # blows up high orders must not loosen the test of the low orders
        scale = max(1.0, max(np.abs(v).max() for (nm, m), v in S.items() if all(x <= y for x, y in zip(m, n))))
        HU = lambda m: cauchy2(fH, fU, m)
        tot = cauchy2(fUi, HU, n)
        d1 = np.abs((tot - S["Ht", n])[K]).max() if K.any() else 0
        d2 = np.abs(tot[~K]).max() if (~K).any() else 0
        tgt = np.eye(dim) if sum(n) == 0 else np.zeros((dim, dim))
        d3 = np.abs(cauchy2(fUi, fU, n) - tgt).max()
        d4 = np.abs(cauchy2(fU, fUi, n) - tgt).max()
        d5 = np.abs((S["U", n] - S["Ui", n])[K]).max() if sum(n) and K.any() else 0
        t = tol * scale ** 3
        for d, what, prop in ((d1, "kept part of U_inv H U differs from H_tilde", "kept"), (d2, "eliminated part of U_inv H U not zero", "eliminated"),
                              (d3, "U_inv U != 1", "UdU"), (d4, "U U_inv != 1", "UUd"), (d5, "U - U_inv has a kept element", "gauge")):
            if d > t:
                fails.append(dict(what="%s at order %s (%.3g > %.3g)" % (what, list(n), d, t), input=case, prop=prop, order=list(n)))
        if case["hermitian"]:
            d6 = np.abs(S["Ui", n] - S["U", n].conj().T).max()
            d7 = np.abs(S["Ht", n] - S["Ht", n].conj().T).max()
            if d6 > t:
                fails.append(dict(what="third series is not the adjoint of U at order %s (%.3g)" % (list(n), d6), input=case, prop="adjoint"))
            if d7 > t:
                fails.append(dict(what="H_tilde not Hermitian at order %s (%.3g)" % (list(n), d7), input=case, prop="Ht_herm"))
    return fails


def oracle_float(ctx, hermitian=True, ncases=None, props=None):
    import random
    n = ncases or ctx.n(16, 400)
    cases = [gen_case(ctx.rng, hermitian) for _ in range(n)]
    # every run contains each structured family at least once (rejection sampling of the same generator)
    def forced(pred):
        for _ in range(400):
            c = gen_case(ctx.rng, hermitian)
            if pred(c):
                return c
        return None
    wanted = [lambda c: c["spm"] and c["fully"] and max(c["sizes"]) >= 2, lambda c: c["spm"] and c["fully"] and len(c["sizes"]) >= 2,
              lambda c: c["eig"], lambda c: c["custom"], lambda c: c["chain"] or c["tinyim"], lambda c: c["chain"] or (c["tinyim"] and c["fully"])]
    cases += [c for c in (forced(w) for w in wanted) if c is not None]
    if ctx.quick:
        res = [check_case(c) for c in cases]
    else:
        import multiprocessing as mp
        with mp.Pool(16) as pool:
            res = pool.map(check_case, cases, chunksize=2)
    fails = [f for r in res for f in r if (props is None or f.get("prop") in props or f.get("prop") in ("run", "finite"))]
    import json
    return dict(evaluations=len(cases), nontrivial=len({json.dumps(c, sort_keys=True) for c in cases if sum(c["sizes"]) >= 2}),
                rule="random FLOAT problems (dense/sparse, real/complex entries, complex unperturbed energies in non-Hermitian mode, 1-3 blocks of size 1-3, 1-2 parameters, tuple fully_diagonalize with degenerate pairs; Hermitian tolerance chains; a quarter with complete subspace_eigenvectors - unitary, or biorthogonal (right,left) pairs - and lab-basis perturbations projected by the oracle; non-Hermitian energies with tiny imaginary parts; blocks given separately as scipy.sparse matrices (csr_matrix / coo_matrix); custom solve_sylvester (two-argument, and the deprecated one-argument form) with block-diagonal non-diagonal H_0), total order <= 3, tolerance 2e-8*scale^3; non-Hermitian cases keep every kept element between equal unperturbed energies",
                samples=cases[:2], failures=fails)


def replay(inp):
    f = check_case(inp)
    for x in f[:5]:
        print("still fails:", x["what"])
    return 1 if f else 0
