"""Property oracles on the implementation for C01-C05, C13, C15 (exact arithmetic).

Each oracle takes a generated case (harness/gen.py), runs the real block_diagonalize through
harness/implrun.py and checks the property on the RETURNED series only.  Nothing here shares
code with pymablock: products are dense exact Cauchy sums over Gaussian rationals.
"""
import random
import time
import traceback
from fractions import Fraction as Fr

from harness import gq, gen, implrun
from harness.gq import G


def notK(K):
    return [[1 - x for x in r] for r in K]


def delta(dim, n):
    return gq.eye(dim) if sum(n) == 0 else gq.zeros(dim)


def energies(case):
    nb, sizes, perm, offs = implrun.layout(case)
    E = gq.dec(case["H"][gen.key((0,) * case["nparam"])])
    return [E[p][p] for p in perm]


def kept_connects_distinct_energies(case):
    """classification predicate of known finding C05-D8"""
    K = implrun.keep_mask(case)
    E = energies(case)
    n = len(E)
    return any(K[p][q] and p != q and E[p] != E[q] for p in range(n) for q in range(n))


def check_case(case, props, res=None):
    """returns list of failure dicts (possibly empty)."""
    fails = []
    try:
        res = res or implrun.run(case)
    except Exception as e:  # accepted well-posed input must not raise
        return [dict(what="block_diagonalize raised %s: %s" % (type(e).__name__, str(e)[:300]), input=case, prop="run")]
    U, Ud, Ht, H = res["out"]["U"], res["out"]["U†"], res["out"]["H_tilde"], res["H"]
    K = implrun.keep_mask(case)
    nK = notK(K)
    dim = len(case["sub"])
    herm = case["hermitian"]

    def fail(prop, n, what):
        fails.append(dict(what="%s at order %s: %s" % (prop, list(n), what), input=case, prop=prop, order=list(n)))

    for n in gq.orders_upto(case["nparam"], case["N"]):
        if "similarity" in props:
            tot = gq.cauchy([Ud, H, U], n)
            if not gq.is_zero(gq.hadamard(gq.sub(tot, Ht.get(n)), K)):
                fail("kept", n, "kept part of U†HU differs from H_tilde")
            if not gq.is_zero(gq.hadamard(tot, nK)):
                fail("eliminated", n, "eliminated part of U†HU is not zero")
            if not gq.is_zero(gq.hadamard(Ht.get(n), nK)):
                fail("eliminated", n, "H_tilde has an eliminated element")
        if "unitary" in props:
            if not gq.eq(gq.cauchy([Ud, U], n), delta(dim, n)):
                fail("UdU", n, "U†U != 1")
            if not gq.eq(gq.cauchy([U, Ud], n), delta(dim, n)):
                fail("UUd", n, "UU† != 1")
            if herm:
                if not gq.eq(Ud.get(n), gq.adj(U.get(n))):
                    fail("adjoint", n, "third series is not the adjoint of U")
                if not gq.eq(Ht.get(n), gq.adj(Ht.get(n))):
                    fail("Ht_herm", n, "H_tilde is not Hermitian")
        if "gauge" in props and sum(n) > 0:
            # anti-Hermitian part of U-1 (Hermitian mode) / U - U_inv (non-Hermitian) has no kept element
            if not gq.is_zero(gq.hadamard(gq.sub(U.get(n), Ud.get(n)), K)):
                fail("gauge", n, "U - U† has a kept element")
    if "coincide" in props and not herm:
        # on Hermitian input the non-Hermitian mode must return the Hermitian-mode outputs
        Hs = res["H"]
        if all(gq.eq(M, gq.adj(M)) for M in Hs.d.values()) and not isinstance(case["fully"], dict) or \
           (all(gq.eq(M, gq.adj(M)) for M in Hs.d.values()) and all(m == [list(r) for r in zip(*m)] for m in case["fully"].values())):
            c2 = dict(case, hermitian=True)
            try:
                r2 = implrun.run(c2)
                for name in ("H_tilde", "U", "U†"):
                    for n in gq.orders_upto(case["nparam"], case["N"]):
                        if not gq.eq(res["out"][name].get(n), r2["out"][name].get(n)):
                            fail("coincide", n, "%s differs between hermitian=False and hermitian=True on Hermitian input" % name)
                            break
            except Exception as e:
                fails.append(dict(what="hermitian=True run raised %s" % type(e).__name__, input=case, prop="run"))
    if "reference" in props and herm:
        try:
            ref = reference_solver(case, res["H"], K)
        except ZeroDivisionError:
            ref = None
        if ref is not None:
            for n in gq.orders_upto(case["nparam"], case["N"]):
                if not gq.eq(ref["U"].get(n), U.get(n)):
                    fail("reference_U", n, "U differs from the independent order-by-order solution")
                if not gq.eq(ref["Ht"].get(n), Ht.get(n)):
                    fail("reference_Ht", n, "H_tilde differs from the independent order-by-order solution")
    return fails


def reference_solver(case, H, K):
    """Independent exact solver of unitarity + elimination + gauge, multiplying by H_0 explicitly."""
    dim = H.dim
    nparam = H.nparam
    E = [H.get((0,) * nparam)[p][p] for p in range(dim)]
    H0 = H.get((0,) * nparam)
    U = gq.Series(dim, nparam, {(0,) * nparam: gq.eye(dim)})
    orders = sorted(gq.orders_upto(nparam, case["N"]), key=lambda n: (sum(n), n))
    zero_n = (0,) * nparam
    for n in orders:
        if sum(n) == 0:
            continue
        Ud = gq.Series(dim, nparam, {k: gq.adj(v) for k, v in U.d.items()})
        # unitarity: W_n = -1/2 sum_{0<a<n} U_a† U_{n-a}
        s = gq.zeros(dim)
        for a in gq.splits(n):
            b = gq.msub(n, a)
            if sum(a) == 0 or sum(b) == 0:
                continue
            s = gq.add(s, gq.mul(Ud.get(a), U.get(b)))
        W = gq.scal(Fr(-1, 2), s)
        # elimination: [H0, V_n]_elim = -(rest + {H0, W_n})_elim where rest = all terms of (U† H U)_n without U_n
        Utmp = gq.Series(dim, nparam, dict(U.d))
        Utmp.d[tuple(n)] = W
        Udtmp = gq.Series(dim, nparam, {k: gq.adj(v) for k, v in Utmp.d.items()})
        tot = gq.cauchy([Udtmp, H, Utmp], n)  # includes H0 W + W H0, misses [H0, V]
        V = gq.zeros(dim)
        for p in range(dim):
            for q in range(dim):
                if not K[p][q]:
                    dE = E[p] - E[q]
                    if dE.is_zero():
                        raise ZeroDivisionError
                    V[p][q] = -(tot[p][q]) / dE
        U.d[tuple(n)] = gq.add(W, V)
    Ud = gq.Series(dim, nparam, {k: gq.adj(v) for k, v in U.d.items()})
    Ht = gq.Series(dim, nparam)
    for n in orders:
        tot = gq.cauchy([Ud, H, U], n)
        Ht.d[tuple(n)] = gq.hadamard(tot, K)
    return dict(U=U, Ht=Ht)


class _Timeout(BaseException):
    pass


def _alarm(signum, frame):
    raise _Timeout()


CASE_TIMEOUT = 45  # seconds; symbolic cases can be arbitrarily slow - such a case is skipped (counted), never a failure


def _worker(args):
    import signal
    seed, kw, props = args
    rng = random.Random(seed)
    if "special" in kw:
        case = gen.special_case(rng, kw["special"], hermitian=kw.get("hermitian", True), N=kw.get("N", 3), max_params=kw.get("max_params", 2))
    else:
        case = gen.random_case(rng, **kw)
    t = time.time()
    old = signal.signal(signal.SIGALRM, _alarm)
    signal.alarm(CASE_TIMEOUT)
    try:
        fails = check_case(case, props)
    except _Timeout:
        fails = None
    except Exception:
        fails = [dict(what="oracle crashed: " + traceback.format_exc()[-1500:], input=case, prop="crash")]
    finally:
        signal.alarm(0)
        signal.signal(signal.SIGALRM, old)
    return case, fails, time.time() - t


def sweep(ctx, ncases, props, kw, name="o_main", parallel=None):
    """Run `ncases` random cases; returns the oracle result dict."""
    seeds = [ctx.rng.randrange(1 << 30) for _ in range(ncases)]
    if kw.get("special_all"):
        # the structured families, each one at least once
        jobs = [(s, dict({x: y for x, y in kw.items() if x != "special_all"}, special=i), props) for i, s in enumerate(seeds)]
    else:
        jobs = [(s, kw, props) for s in seeds]
    results = []
    if parallel is None:
        parallel = not ctx.quick
    if parallel:
        import multiprocessing as mp
        with mp.Pool(min(16, max(1, ncases))) as pool:
            results = pool.map(_worker, jobs, chunksize=1)
    else:
        results = [_worker(j) for j in jobs]
    failures = []
    sigs = {}
    nontrivial = set()
    samples = []
    skipped = 0
    for case, fails, dt in results:
        if fails is None:
            skipped += 1
            continue
        sig = gen.case_signature(case)
        key = gq_key(sig)
        sigs[key] = sigs.get(key, 0) + 1
        if case["N"] >= 2 and len(case["sub"]) >= 2:
            nontrivial.add(core_canon(case))
        failures += fails
        if len(samples) < 3:
            samples.append(dict(signature=sig, sub=case["sub"], fully=case["fully"], orders=sorted(case["H"].keys())))
    return dict(evaluations=len(results) - skipped, skipped_timeout=skipped, nontrivial=len(nontrivial),
                rule="random exact problems (blocks<=%s, block size<=%s, params<=%s, total order<=%s); non-trivial = distinct case with dim>=2 checked to order>=2; properties checked: %s"
                % (kw.get("max_blocks", 3), kw.get("max_size", 3), kw.get("max_params", 2), kw.get("N", 3), ",".join(props)),
                samples=samples, failures=failures, distribution=sigs)


def gq_key(sig):
    return "%(mode)s/%(fmt)s/b%(blocks)d/p%(nparam)d/%(hermitian)s" % sig


def core_canon(case):
    import json
    return json.dumps(case, sort_keys=True)
