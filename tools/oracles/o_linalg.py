"""Property oracles for the linear-algebra layer (C17): the ComplementProjector is compared
with the dense matrix 1 - R L^H on random floating-point inputs of several dtypes."""
import sys
import warnings

import numpy as np

from vlib import core

sys.path.insert(0, str(core.REPO))
import scipy.sparse as sp  # noqa: E402
from scipy.sparse.linalg import aslinearoperator  # noqa: E402
from pymablock.linalg import ComplementProjector  # noqa: E402

DTYPES = ["float32", "float64", "complex64", "complex128", "int64"]


def rand_arr(rs, shape, dt):
    if dt == "int64":
        return rs.integers(-3, 4, size=shape).astype(np.int64)
    a = rs.standard_normal(shape)
    if dt.startswith("complex"):
        a = a + 1j * rs.standard_normal(shape)
    return a.astype(dt)


def enc(a):
    if a is None:
        return None
    a = np.asarray(a)
    return dict(dtype=str(a.dtype), shape=list(a.shape), re=np.real(a).astype(float).ravel().tolist(), im=np.imag(a).astype(float).ravel().tolist())


def dec(e):
    if e is None:
        return None
    a = np.array(e["re"], dtype=float) + 1j * np.array(e["im"], dtype=float)
    a = a.reshape(e["shape"])
    if "complex" not in e["dtype"]:
        a = a.real
    return a.astype(e["dtype"])


def gen_input(rs, pyrng, nmax):
    n = pyrng.randint(1, nmax)
    k = pyrng.randint(0 if pyrng.random() < 0.1 else 1, max(1, min(4, n)))
    rdt = pyrng.choice(DTYPES)
    kind = pyrng.choice(["none", "copy", "biorth", "generic", "orth", "near20", "near30", "near20", "near30"])
    R = rand_arr(rs, (n, k), rdt)
    L = None
    if kind.startswith("near") and k:
        # L = R + 2^-20 X or R + 2^-30 X (dyadic, exactly representable): numerically "almost" R, but the
        # operator is 1 - R L^H, not 1 - R R^H, and P.H is not P
        cx = pyrng.random() < 0.5
        R = (rs.integers(-2, 3, size=(n, k)) + (1j * rs.integers(-2, 3, size=(n, k)) if cx else 0)).astype(np.complex128 if cx else np.float64)
        if not np.any(R):
            R[0, 0] = 1
        X = rs.integers(-4, 5, size=(n, k)) + (1j * rs.integers(-4, 5, size=(n, k)) if (cx or pyrng.random() < 0.4) else 0)
        if kind == "near20":
            X = X * (R != 0)  # stays within 1e-5 |R_ij| of R
        if pyrng.random() < 0.4 and n > k:  # exact biorthogonality: orthonormal unit columns, X orthogonal to them
            R = np.zeros((n, k), dtype=R.dtype)
            rows = pyrng.sample(range(n), k)
            for j, r in enumerate(rows):
                R[r, j] = pyrng.choice([1, -1])
            X = rs.integers(-4, 5, size=(n, k)) + 0j
            X[rows, :] = 0
            kind += "_biorth"
        if not np.any(X):
            X[np.nonzero(R)[0][0] if "biorth" not in kind else [i for i in range(n) if i not in rows][0], 0] = 3
        L = R + X / 2.0 ** (20 if kind.startswith("near20") else 30)
        if not np.any(np.imag(L)):
            L = np.real(L).astype(np.float64)
    elif kind.startswith("near"):
        kind = "none"
    if kind == "orth" and k and rdt != "int64":
        R = np.linalg.qr(R.astype(np.complex128 if "complex" in rdt else np.float64))[0][:, :k].astype(rdt)
    elif kind == "copy":
        L = R.copy()
    elif kind == "generic":
        L = rand_arr(rs, (n, k), pyrng.choice(DTYPES))
    elif kind == "biorth" and k:
        big = np.complex128 if "complex" in rdt else np.float64
        G = rand_arr(rs, (n, k), "complex128" if "complex" in rdt else "float64")
        # L = G (R^H G)^-1 ^H  so that L^H R = 1
        M = R.astype(big).conj().T @ G
        if abs(np.linalg.det(M)) > 1e-2:
            L = G @ np.linalg.inv(M)
            L = L.astype(big)
        else:
            kind = "none"
    m = pyrng.randint(1, 3)
    xdt = pyrng.choice(DTYPES)
    dbl = ["float64", "complex128", "int64"]
    if kind.startswith("near"):  # double precision only: the comparison tolerance is 1e-9
        xdt = pyrng.choice(dbl)
        return dict(
            kind=kind, R=enc(R), L=enc(L), X=enc(rand_arr(rs, (n, m), xdt)), x=enc(rand_arr(rs, (n,), xdt)),
            X2=enc(rand_arr(rs, (m, n), xdt)), A=enc(rand_arr(rs, (n, n), pyrng.choice(dbl))),
            word="".join(pyrng.choice("THC") for _ in range(pyrng.randint(0, 8))), sparse=pyrng.random() < 0.5,
        )
    return dict(
        kind=kind, R=enc(R), L=enc(L), X=enc(rand_arr(rs, (n, m), xdt)), x=enc(rand_arr(rs, (n,), xdt)),
        X2=enc(rand_arr(rs, (m, n), xdt)), A=enc(rand_arr(rs, (n, n), pyrng.choice(DTYPES))),
        word="".join(pyrng.choice("THC") for _ in range(pyrng.randint(0, 8))), sparse=pyrng.random() < 0.5,
    )


def evaluate(inp):
    """Returns list of failure descriptions (strings) for this input."""
    R, L, X, x, X2, A = (dec(inp[k]) for k in ("R", "L", "X", "x", "X2", "A"))
    n = R.shape[0]
    Leff = R if L is None else L
    wide = np.complex128
    D = np.eye(n) - R.astype(wide) @ Leff.astype(wide).conj().T
    scale = 1 + float(np.abs(D).max()) ** 2 * (1 + float(np.abs(A).max()))
    single = any(np.dtype(inp[k]["dtype"]).itemsize <= (8 if "complex" in inp[k]["dtype"] else 4) and inp[k]["dtype"] != "int64" for k in ("R", "L", "X", "A") if inp[k] is not None)
    tol = (2e-4 if single else 1e-10) * scale * n
    if str(inp.get("kind", "")).startswith("near"):
        tol = min(tol, 1e-9)  # small dyadic data: everything is computed essentially exactly
    fails = []

    def chk(label, fn, ref):
        try:
            with warnings.catch_warnings():
                warnings.simplefilter("ignore")
                v = np.asarray(fn())
        except Exception as e:
            fails.append("%s raised %s: %s" % (label, type(e).__name__, e))
            return
        ref = np.asarray(ref)
        if v.shape != ref.shape:
            fails.append("%s: shape %s, dense result has shape %s" % (label, v.shape, ref.shape))
        elif not np.all(np.abs(v - ref) <= tol * (1 + np.abs(ref).max(initial=0))):
            fails.append("%s differs from the dense matrix by %.3g (tol %.3g)" % (label, float(np.abs(v - ref).max()), tol))

    mk = (lambda: ComplementProjector(R)) if L is None else (lambda: ComplementProjector(R, L))
    try:
        P = mk()
    except Exception as e:
        return ["constructor raised %s: %s" % (type(e).__name__, e)]
    Xw, xw, X2w, Aw = X.astype(wide), x.astype(wide), X2.astype(wide), A.astype(wide)
    chk("P@X", lambda: P @ X, D @ Xw)
    chk("P@x", lambda: P @ x, D @ xw)
    chk("X2@P", lambda: X2 @ P, X2w @ D)
    chk("x@P", lambda: x @ P, xw @ D)
    chk("P.rmatvec(x)", lambda: P.rmatvec(x), D.conj().T @ xw)
    chk("P.rmatmat(X)", lambda: P.rmatmat(X), D.conj().T @ Xw)
    chk("P.H@X", lambda: P.H @ X, D.conj().T @ Xw)
    chk("P.T@X", lambda: P.T @ X, D.T @ Xw)
    chk("P.conjugate()@X", lambda: P.conjugate() @ X, D.conj() @ Xw)
    chk("P@eye", lambda: P @ np.eye(n), D)
    if tuple(P.shape) != (n, n):
        fails.append("shape %s != (%d, %d)" % (P.shape, n, n))
    # P.H may be P itself only when the left vectors ARE the right vectors (same values)
    same_vectors = L is None or (L.shape == R.shape and np.array_equal(L, R))
    try:
        if (P.H is P) != same_vectors:
            fails.append("P.H is P: %s, although the left vectors %s the right vectors" % (P.H is P, "equal" if same_vectors else "differ from"))
    except Exception as e:
        fails.append("P.H raised %s: %s" % (type(e).__name__, e))
    if np.dtype(P.dtype) != np.result_type(R.dtype, Leff.dtype) and not (L is not None and np.array_equal(L, R) and np.dtype(P.dtype) == R.dtype):
        fails.append("dtype %s is not the result type of %s and %s" % (P.dtype, R.dtype, Leff.dtype))
    # words
    Q, Dw = mk(), D
    for c in inp["word"]:
        Q = Q.T if c == "T" else (Q.H if c == "H" else Q.conjugate())
        Dw = Dw.T if c == "T" else (Dw.conj().T if c == "H" else Dw.conj())
    chk("P.%s@X" % inp["word"], lambda: Q @ X, Dw @ Xw)
    chk("X2@P.%s" % inp["word"], lambda: X2 @ Q, X2w @ Dw)
    if tuple(Q.shape) != (n, n) or np.dtype(Q.dtype) != np.dtype(P.dtype):
        fails.append("shape/dtype of P.%s is %s/%s, of P %s/%s" % (inp["word"], Q.shape, Q.dtype, P.shape, P.dtype))
    # composites
    Aop = aslinearoperator(sp.csr_array(A) if inp["sparse"] else A)
    P3 = mk()
    M = D @ Aw @ D
    try:
        PAP = P3 @ Aop @ P3
        chk("PAP@X", lambda: PAP @ X, M @ Xw)
        chk("PAP.H@X", lambda: PAP.H @ X, M.conj().T @ Xw)
        chk("PAP.T@X", lambda: PAP.T @ X, M.T @ Xw)
        chk("X2@PAP", lambda: X2 @ PAP, X2w @ M)
        chk("x@PAP", lambda: x @ PAP, xw @ M)
        chk("PAP.rmatmat(X)", lambda: PAP.rmatmat(X), M.conj().T @ Xw)
    except Exception as e:
        fails.append("P@A@P raised %s: %s" % (type(e).__name__, e))
    # idempotency when L^H R = 1
    if R.shape[1] and np.allclose(Leff.astype(wide).conj().T @ R.astype(wide), np.eye(R.shape[1]), rtol=0, atol=1e-6 if single else 1e-12):
        chk("P@(P@X) (idempotent)", lambda: P @ (P @ X), D @ Xw)
    return fails


def oracle_projector(ctx, n=None):
    n = n or ctx.n(400, 20000)
    pyrng = ctx.rng
    rs = np.random.default_rng(pyrng.randrange(2**32))
    failures, samples, feats = [], [], set()
    for i in range(n):
        inp = gen_input(rs, pyrng, ctx.n(6, 12))
        fs = evaluate(inp)
        feats.add((inp["kind"], inp["R"]["dtype"], inp["X"]["dtype"], len(inp["word"]) > 0, inp["sparse"]))
        if i < 2:
            samples.append(dict(kind=inp["kind"], Rdtype=inp["R"]["dtype"], shape=inp["R"]["shape"], word=inp["word"]))
        for f in fs[:2]:
            failures.append(dict(what=f, input=dict(oracle="projector", data=inp)))
        if len(failures) > 10:
            break
    return dict(evaluations=n, nontrivial=len(feats), rule="distinct (kind, dtype of R, dtype of operand, word?, sparse?)", samples=samples, failures=failures)


def replay_projector(inp):
    fs = evaluate(inp["data"])
    for f in fs:
        print("  still failing:", f)
    return 1 if fs else 0
