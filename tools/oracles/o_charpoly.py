"""Property oracle for C04 (never looks at U).

For a generated exact Hermitian problem the implementation's H_tilde (only) is taken from
implrun.run.  With small integer scales c_k the substitution lambda_k := c_k * x turns

    Ht_N(c x) = sum_{|n|<=N} c^n x^|n| H_tilde_n        and        H(c x) = sum_n c^n x^|n| H_n

into matrices of one-variable polynomials with Gaussian-rational coefficients; "all
coefficients of total order <= N agree" becomes "agree modulo x^(N+1)" (for every c; with
N+1 scale vectors of distinct ratios this is the full two-parameter statement).  Both
characteristic polynomials are computed exactly, modulo x^(N+1), with an own
Faddeev-LeVerrier over the truncated polynomial ring (gq.G coefficients) and compared
coefficient by coefficient.

Rayleigh-Schroedinger clause: for every basis state i whose row and column are completely
eliminated apart from the diagonal (a fully diagonalised level: tuple/default/mask mode or a
1x1 block) and whose unperturbed energy is non-degenerate in H_0, the diagonal series
H_tilde[i,i] must equal the textbook RS series of H(c x), computed independently (a) from the
closed formulas of orders 1..3 and (b) from the RS recursion with intermediate normalisation
(all orders).
"""
import itertools
import multiprocessing
import os
import sys
import traceback
from fractions import Fraction as Fr

from vlib import core
from harness import gq, gen
from harness.gq import G

ZERO = G(0)


# ---------------------------------------------------------------------------
# truncated polynomials over G: lists of length N+1 (index = power of x)

def p_zero(N):
    return [ZERO] * (N + 1)


def p_const(c, N):
    return [gq.g(c)] + [ZERO] * N


def p_add(a, b):
    return [x + y for x, y in zip(a, b)]


def p_sub(a, b):
    return [x - y for x, y in zip(a, b)]


def p_scal(c, a):
    return [c * x for x in a]


def p_mul(a, b):
    N = len(a) - 1
    out = [ZERO] * (N + 1)
    for i, x in enumerate(a):
        if x.re == 0 and x.im == 0:
            continue
        for j in range(N + 1 - i):
            y = b[j]
            if y.re == 0 and y.im == 0:
                continue
            out[i + j] = out[i + j] + x * y
    return out


def p_eq(a, b):
    return all(x == y for x, y in zip(a, b))


def pm_mul(A, B, N):
    d = len(A)
    out = [[p_zero(N) for _ in range(d)] for _ in range(d)]
    for i in range(d):
        for k in range(d):
            a = A[i][k]
            if all(x.is_zero() for x in a):
                continue
            for j in range(d):
                out[i][j] = p_add(out[i][j], p_mul(a, B[k][j]))
    return out


def charpoly_trunc(A, N):
    """Faddeev-LeVerrier over Q(i)[x]/(x^(N+1)).  Returns [c_0..c_d], char poly = sum c_k X^k, c_d = 1."""
    d = len(A)
    c = [None] * (d + 1)
    c[d] = p_const(1, N)
    M = [[p_zero(N) for _ in range(d)] for _ in range(d)]
    for k in range(1, d + 1):
        # M_k = A M_{k-1} + c_{d-k+1} I
        M = pm_mul(A, M, N) if k > 1 else M
        for i in range(d):
            M[i][i] = p_add(M[i][i], c[d - k + 1])
        AM = pm_mul(A, M, N)
        tr = p_zero(N)
        for i in range(d):
            tr = p_add(tr, AM[i][i])
        c[d - k] = p_scal(G(Fr(-1, k)), tr)
    return c


def substituted(series_dict, dim, scales, N):
    """{multi-order: matrix} -> matrix of truncated polynomials in x under lambda_k = c_k x."""
    P = [[p_zero(N) for _ in range(dim)] for _ in range(dim)]
    for n, M in series_dict.items():
        m = sum(n)
        if m > N:
            continue
        w = Fr(1)
        for ck, nk in zip(scales, n):
            w *= Fr(ck) ** nk
        if w == 0:
            continue
        w = G(w)
        for i in range(dim):
            for j in range(dim):
                e = M[i][j]
                if not e.is_zero():
                    P[i][j][m] = P[i][j][m] + w * e
    return P


# ---------------------------------------------------------------------------
# Rayleigh-Schroedinger, textbook (H0 diagonal, level i non-degenerate)

def rs_closed(V, E, i, upto):
    """Closed formulas, orders 1..min(3,upto).  V[m] = matrix of order m (m>=1), E = diagonal of H0."""
    d = len(E)
    ks = [k for k in range(d) if k != i]
    D = {k: E[i] - E[k] for k in ks}
    V1 = V.get(1) or gq.zeros(d)
    V2 = V.get(2) or gq.zeros(d)
    V3 = V.get(3) or gq.zeros(d)
    out = {}
    if upto >= 1:
        out[1] = V1[i][i]
    if upto >= 2:
        s = V2[i][i]
        for k in ks:
            s = s + V1[i][k] * V1[k][i] / D[k]
        out[2] = s
    if upto >= 3:
        s = V3[i][i]
        for k in ks:
            s = s + (V1[i][k] * V2[k][i] + V2[i][k] * V1[k][i]) / D[k]
            for m in ks:
                s = s + V1[i][k] * V1[k][m] * V1[m][i] / (D[k] * D[m])
            s = s - V1[i][i] * V1[i][k] * V1[k][i] / (D[k] * D[k])
        out[3] = s
    return out


def rs_recursion(V, E, i, upto):
    """RS recursion with intermediate normalisation <i|psi> = 1; returns {n: E_n} for n = 1..upto."""
    d = len(E)
    psi = {0: [G(1) if k == i else ZERO for k in range(d)]}
    En = {}
    for n in range(1, upto + 1):
        acc = [ZERO] * d
        for m, Vm in V.items():
            if 1 <= m <= n:
                p = psi[n - m]
                for r in range(d):
                    s = ZERO
                    for t in range(d):
                        if not (Vm[r][t].is_zero() or p[t].is_zero()):
                            s = s + Vm[r][t] * p[t]
                    acc[r] = acc[r] + s
        En[n] = acc[i]
        new = [ZERO] * d
        for k in range(d):
            if k == i:
                continue
            s = acc[k]
            for j in range(1, n):
                s = s - En[j] * psi[n - j][k]
            new[k] = s / (E[i] - E[k])
        psi[n] = new
    return En


# ---------------------------------------------------------------------------

def scale_vectors(rng, nparam, count):
    """count scale vectors of small non-zero integers with pairwise distinct ratios (1 param: distinct values)."""
    out = []
    seen = set()
    first = tuple([1] * nparam)
    cand = [first]
    tries = 0
    while len(out) < count and tries < 1000:
        tries += 1
        c = cand.pop() if cand else tuple(rng.choice([-3, -2, -1, 1, 2, 3]) for _ in range(nparam))
        key = tuple(Fr(x, c[0]) for x in c) if nparam > 1 else c
        if key in seen:
            continue
        seen.add(key)
        out.append(list(c))
    return out


def rs_states(case):
    """block-ordered indices i that are fully decoupled by the requested elimination and non-degenerate in H0."""
    from harness import implrun
    K = implrun.keep_mask(case)
    nb, sizes, perm, offs = implrun.layout(case)
    E0 = gq.dec(case["H"][gen.key((0,) * case["nparam"])])
    Ed = [E0[p][p] for p in perm]
    d = len(Ed)
    out = []
    for i in range(d):
        alone = all(K[i][j] == 0 and K[j][i] == 0 for j in range(d) if j != i)
        nondeg = all(Ed[i] != Ed[j] for j in range(d) if j != i)
        if alone and nondeg:
            out.append(i)
    return out, Ed


APPROX_TOL = 1e-9


def same(a, b, scale_of, approx):
    """exact equality, or - for the generic-float family (case["approx"]) - equality up to APPROX_TOL relative to
    the largest coefficient of the reference polynomial (rounding errors are ~1e-15, a defect is O(1))."""
    if not approx:
        return a == b
    d = a - b
    if d.is_zero():
        return True
    big = max([1.0] + [float(x.abs2()) ** 0.5 for x in scale_of])
    return float(d.abs2()) ** 0.5 <= APPROX_TOL * big


def fmt_poly(p):
    return [gq.enc_s(x) for x in p]


def eval_case(case, scales_list, want_detail=False):
    """Run the implementation on `case` and test the C04 clauses for every scale vector.

    Returns dict(failures=[...], nontrivial=bool, rs_checked=int, sig=..., exc=None|str)."""
    from harness import implrun
    N = case["N"]
    dim = len(case["sub"])
    res = dict(failures=[], nontrivial=False, rs_checked=0, sig=gen.case_signature(case), evals=0)
    try:
        r = run_blocks(case) if case.get("blocks_as") else implrun.run(case, names=("H_tilde",))
    except Exception as e:  # a well-posed Hermitian problem must be answered
        res["failures"].append(dict(
            what="block_diagonalize raised %s on a well-posed Hermitian input" % type(e).__name__,
            input=dict(kind="exception", case=case, scales=scales_list), exc=type(e).__name__,
            detail=traceback.format_exc()[-1500:]))
        return res
    Ht = r["out"]["H_tilde"]
    Hs = r["H"]
    approx = bool(case.get("approx"))
    res["nontrivial"] = dim >= 2 and any(sum(n) >= 2 and not gq.is_zero(M) for n, M in Ht.d.items())
    states, Ed = rs_states(case)
    for scales in scales_list:
        res["evals"] += 1
        PH = substituted(Hs.d, dim, scales, N)
        PT = substituted(Ht.d, dim, scales, N)
        cH = charpoly_trunc(PH, N)
        cT = charpoly_trunc(PT, N)
        bad = [(k, m) for k in range(dim + 1) for m in range(N + 1) if not same(cH[k][m], cT[k][m], cH[k], approx)]
        if bad:
            k, m = bad[0]
            res["failures"].append(dict(
                what="char poly of truncated H_tilde differs from that of H: coefficient of X^%d x^%d (scales %s), %d coefficient(s) differ; lowest x-order %d"
                     % (k, m, scales, len(bad), min(b[1] for b in bad)),
                input=dict(kind="charpoly", case=case, scales=[scales]),
                expected=fmt_poly(cH[k]), observed=fmt_poly(cT[k])))
        # Rayleigh-Schroedinger clause
        if states:
            V = {}
            for n, M in Hs.d.items():
                m = sum(n)
                if m == 0 or m > N:
                    continue
                w = Fr(1)
                for ck, nk in zip(scales, n):
                    w *= Fr(ck) ** nk
                V[m] = gq.add(V[m], gq.scal(G(w), M)) if m in V else gq.scal(G(w), M)
            for i in states:
                res["rs_checked"] += 1
                diag = PT[i][i]
                offd = [j for j in range(dim) if j != i and
                        (any(not x.is_zero() for x in PT[i][j]) or any(not x.is_zero() for x in PT[j][i]))]
                rec = rs_recursion(V, Ed, i, N)
                clo = rs_closed(V, Ed, i, N)
                msgs = []
                if offd:
                    msgs.append("state is not decoupled in H_tilde (non-zero entries to %s)" % offd)
                ref = [Ed[i]] + [rec[n] for n in range(1, N + 1)]
                if not same(diag[0], Ed[i], ref, approx):
                    msgs.append("order 0: %s != E_i" % (diag[0],))
                for n in range(1, N + 1):
                    if n in clo and clo[n] != rec[n]:
                        msgs.append("INTERNAL: closed RS formula and RS recursion disagree at order %d" % n)
                    if not same(diag[n], rec[n], ref, approx):
                        msgs.append("order %d: H_tilde diagonal %s, Rayleigh-Schroedinger %s" % (n, diag[n], rec[n]))
                if msgs:
                    res["failures"].append(dict(
                        what="diagonal of H_tilde for fully diagonalised non-degenerate state %d is not the RS series (scales %s): %s"
                             % (i, scales, "; ".join(msgs[:3])),
                        input=dict(kind="rs", case=case, scales=[scales], state=i),
                        expected=fmt_poly([Ed[i]] + [rec[n] for n in range(1, N + 1)]), observed=fmt_poly(diag)))
    return res


def run_blocks(case):
    """Like implrun.run (H_tilde only), but the Hamiltonian is handed to block_diagonalize ALREADY SEPARATED INTO
    BLOCKS whose values are scipy.sparse *matrix* objects (csr_matrix / coo_matrix: `*` is the matrix product):
    case["blocks_as"] = dict(form="nested" | "blockseries", conv="csr_matrix" | "coo_matrix").
      nested      : {order: [[block_00, block_01, ...], ...]} (a list per order in the one-parameter first-order case)
      blockseries : pymablock.series.BlockSeries(data={(i, j, *order): block}, shape=(nb, nb))
    No subspace_indices are passed; everything is in the block-ordered basis."""
    import warnings
    import numpy as np
    import scipy.sparse as sp
    from harness import implrun
    from pymablock import block_diagonalize
    from pymablock.series import BlockSeries
    pres = case["blocks_as"]
    conv = {"csr_matrix": sp.csr_matrix, "coo_matrix": sp.coo_matrix}[pres["conv"]]
    nb, sizes, perm, offs = implrun.layout(case)
    nparam = case["nparam"]
    dim = len(case["sub"])
    full = {gen.unkey(k): implrun.permuted(gq.dec(M), perm) for k, M in case["H"].items()}

    def block(M, i, j):
        sub = [[M[offs[i] + a][offs[j] + b] for b in range(sizes[j])] for a in range(sizes[i])]
        return conv(implrun.to_numpy(sub))

    if pres["form"] == "nested":
        H = {n: [[block(M, i, j) for j in range(nb)] for i in range(nb)] for n, M in full.items()}
        first_order_only = nparam == 1 and set(H) <= {(0,), (1,)} and (1,) in H
        if first_order_only and pres.get("as_list", True):
            H = [H[(0,)], H[(1,)]]
    else:
        data = {}
        for n, M in full.items():
            for i in range(nb):
                for j in range(nb):
                    if sum(n) == 0 and i != j:
                        continue
                    data[(i, j) + tuple(n)] = block(M, i, j)
        H = BlockSeries(data=data, shape=(nb, nb), n_infinite=nparam)
    kw = dict(fully_diagonalize=implrun.build_fully(case), hermitian=True)
    with warnings.catch_warnings():
        warnings.simplefilter("ignore")
        res = block_diagonalize(H, **kw)
        S = res[0]
        ser = gq.Series(dim, nparam)
        for n in gq.orders_upto(nparam, case["N"]):
            M = gq.zeros(dim)
            nz = False
            for i in range(nb):
                for j in range(nb):
                    v = S[(i, j) + tuple(n)]
                    if isinstance(v, np.matrix):
                        v = np.asarray(v)
                    B = implrun.from_value(v, (sizes[i], sizes[j]))
                    for a in range(sizes[i]):
                        for b in range(sizes[j]):
                            if not B[a][b].is_zero():
                                nz = True
                            M[offs[i] + a][offs[j] + b] = B[a][b]
            if nz:
                ser.d[tuple(n)] = M
    Hs = gq.Series(dim, nparam, full)
    return dict(out={"H_tilde": ser}, H=Hs, layout=(nb, sizes, perm, offs))


def spmatrix_blocks_case(rng, N, max_params=2):
    """Exact-float problem presented as separate scipy.sparse csr_matrix / coo_matrix blocks (nested lists per order
    or a BlockSeries), fully_diagonalize in tuple form over one or all blocks, at least one fully diagonalised
    block with two or more states."""
    for _ in range(2000):
        if rng.random() < 0.3:
            case = unsorted_degenerate_case(rng, N, "exact", max_params=max_params)
        else:
            case = gen.random_case(rng, hermitian=True, N=N, fmt="sparse", max_blocks=3, max_size=3,
                                   max_params=max_params, allow_mask=False)
        if h0_is_zero(case):
            continue
        nb = max(case["sub"]) + 1
        f = case["fully"]
        if f is None:
            if nb > 1 and rng.random() < 0.8:
                f = list(range(nb)) if rng.random() < 0.5 else [rng.randrange(nb)]
            elif nb == 1:
                f = [0]
            else:
                continue
        if not isinstance(f, list):
            continue
        if rng.random() < 0.4:
            f = list(range(nb))
        sizes = [sum(1 for x in case["sub"] if x == b) for b in range(nb)]
        if not any(sizes[b] >= 2 for b in f):
            continue
        case["fully"] = sorted(f)
        case["fmt"] = "sparse"
        case.pop("present", None)  # (key of the shared generator for SymPy expression input; not applicable here)
        case["blocks_as"] = dict(form=rng.choice(["nested", "blockseries"]),
                               conv=rng.choice(["csr_matrix", "csr_matrix", "coo_matrix"]))
        return case
    raise RuntimeError("generator could not produce an spmatrix-blocks case")


def _worker(job):
    case, scales_list = job
    try:
        return eval_case(case, scales_list)
    except Exception:
        return dict(failures=[dict(what="oracle crashed on a case", crash=True,
                                   input=dict(kind="crash", case=case, scales=scales_list),
                                   detail=traceback.format_exc()[-2000:])],
                    nontrivial=False, rs_checked=0, sig=gen.case_signature(case), evals=0)


def selftest():
    """own Faddeev-LeVerrier against sympy's charpoly on a fixed 3x3 polynomial matrix."""
    import sympy
    x, X = sympy.symbols("x X")
    N = 3
    ent = [[[1, 2, 0, 0], [0, 1, 1, 0], [2, 0, 0, 0]],
           [[0, 1, 1, 0], [3, 0, 0, 1], [0, -1, 0, 0]],
           [[2, 0, 0, 0], [0, -1, 0, 0], [-1, 0, 2, 0]]]
    A = [[[G(c) for c in e] for e in row] for row in ent]
    cp = charpoly_trunc(A, N)
    S = sympy.Matrix([[sum(c * x ** k for k, c in enumerate(e)) for e in row] for row in ent])
    ref = sympy.Poly(S.charpoly(X).as_expr(), X, x)
    for k in range(4):
        for m in range(N + 1):
            want = ref.coeff_monomial(X ** k * x ** m)
            got = cp[k][m]
            if got.im != 0 or Fr(int(want)) != got.re:
                raise AssertionError("charpoly selftest failed at X^%d x^%d: %s vs %s" % (k, m, got, want))
    return True


def h0_is_zero(case):
    return gq.is_zero(gq.dec(case["H"][gen.key((0,) * case["nparam"])]))


def has_partial_mask(case):
    """mask mode with a block mask that eliminates some but not all off-diagonal pairs (the only situation in
    which the diagonal-block part of the "Yadj" series of algorithms.main is non-zero)."""
    f = case["fully"]
    if not isinstance(f, dict):
        return False
    for m in f.values():
        n = len(m)
        off = [m[i][j] for i in range(n) for j in range(n) if i != j]
        if any(off) and not all(off):
            return True
    return False


def focused_case(rng, N, focus, accept=None, **kw):
    """gen.random_case by rejection: focus = "any" | "partial-mask"; never H_0 = 0 (rejected by the library)."""
    for _ in range(2000):
        case = gen.random_case(rng, hermitian=True, N=N, **kw)
        if h0_is_zero(case):
            continue
        if focus == "partial-mask" and not has_partial_mask(case):
            continue
        if accept is not None and not accept(case):
            continue
        return case
    raise RuntimeError("generator could not produce a case with focus %r" % focus)


def is_unsorted_degenerate(case):
    """numerical format, some fully diagonalised block (list form / default) has a degenerate level and a sort
    permutation with a cycle of length >= 3"""
    if case["fmt"] == "sympy" or isinstance(case["fully"], dict):
        return False
    sub = case["sub"]
    nb = max(sub) + 1
    f = case["fully"]
    blocks = ([0] if nb == 1 else []) if f is None else f
    E0 = gq.dec(case["H"][gen.key((0,) * case["nparam"])])
    for b in blocks:
        vals = [E0[i][i].re for i in range(len(sub)) if sub[i] == b]
        if len(set(vals)) < len(vals) and _long_cycle(vals):
            return True
    return False


def _long_cycle(vals):
    """the (stable) sort permutation of vals is not an involution, i.e. has a cycle of length >= 3"""
    order = sorted(range(len(vals)), key=lambda k: (vals[k], k))
    return any(order[order[k]] != k for k in range(len(vals)))


def unsorted_degenerate_case(rng, N, family, cplx=None, max_extra=3, max_params=2):
    """Numerical H_0 (dense/sparse) given as an UNSORTED diagonal with a degenerate level inside a fully
    diagonalised block (list form of fully_diagonalize, or the single-block default), such that the sort
    permutation of the block's energies has a cycle of length >= 3 (e.g. diag(2, 0, 0, 1)).

    family = "exact": exact-float (levels {0,1,2}, dyadic entries; compared exactly);
    family = "float": generic decimal levels and entries (not representable in binary; case["approx"] = True,
                      compared up to APPROX_TOL)."""
    cplx = (rng.random() < 0.5) if cplx is None else cplx
    if family == "exact":
        levels = [Fr(0), Fr(1), Fr(2)]
    else:
        levels = [Fr(v, 10) for v in (-23, -11, 3, 9, 17, 26, 34)]
    rng.shuffle(levels)
    for _ in range(1000):
        size = rng.choice([3, 3, 4]) if max_extra > 0 else 3
        nlev = rng.randint(2, min(3, size - 1))
        if family == "exact" and max_extra > 0 and rng.random() < 0.5:
            nlev = 2  # leave a level for another block
        mine = levels[:nlev]
        vals = list(mine) + [rng.choice(mine) for _ in range(size - nlev)]
        rng.shuffle(vals)
        if _long_cycle(vals):
            break
    else:
        raise RuntimeError("no unsorted degenerate arrangement found")
    rest = levels[nlev:]
    blocks = [vals]
    extra_budget = max_extra
    while rest and extra_budget > 0 and len(blocks) < 3 and rng.random() < 0.6:
        lev = rest.pop()
        sz = rng.randint(1, min(2, extra_budget))
        other = [lev] * sz
        if family != "exact" and sz == 2 and rest and rng.random() < 0.5:
            other[1] = rest.pop()
        blocks.append(other)
        extra_budget -= sz
    order = list(range(len(blocks)))
    rng.shuffle(order)                       # which block index the degenerate block gets
    blocks = [blocks[k] for k in order]
    main = order.index(0)
    nb = len(blocks)
    sub = [b for b in range(nb) for _ in blocks[b]]
    if rng.random() < 0.5:
        rng.shuffle(sub)
    it = [iter(b) for b in blocks]
    E = [G(next(it[b])) for b in sub]
    if nb == 1:
        fully = None if rng.random() < 0.5 else [0]
    else:
        fully = sorted({main} | {b for b in range(nb) if rng.random() < 0.3})
    nparam = rng.randint(1, max_params)
    n = len(sub)

    def mat(density):
        if family == "exact":
            return gen.rand_matrix(rng, n, herm=True, cplx=cplx, dyadic=True, density=density)
        M = gq.zeros(n)
        for i in range(n):
            for j in range(i, n):
                if rng.random() > density:
                    continue
                e = G(Fr(rng.randint(-9, 9), 10), Fr(rng.randint(-9, 9), 10) if (cplx and i != j) else 0)
                M[i][j] = e
                M[j][i] = e.conj()
        return M

    H = {gen.key((0,) * nparam): gq.enc(gen.diag_matrix(E))}
    for o in gq.orders_upto(nparam, 2):
        if sum(o) == 1:
            H[gen.key(o)] = gq.enc(mat(1.0))
        elif sum(o) == 2 and rng.random() < 0.25:
            H[gen.key(o)] = gq.enc(mat(0.7))
    case = dict(sub=sub, nparam=nparam, N=N, H=H, hermitian=True, fully=fully,
                fmt=rng.choice(["dense", "sparse"]))
    if family != "exact":
        case["approx"] = True
    return case


def make_cases(rng, count, Ns, max_blocks=3, max_size=3, max_params=2, scales_per_case=2, full_scales=False):
    """Per 10 cases: 3 general, 3 partial-mask cases at N >= 3 (first place where the diagonal "Yadj" term
    matters), 2 unsorted-degenerate numerical H_0 cases (alternating exact-float / generic float), 2 cases
    presented as separate scipy.sparse csr_matrix / coo_matrix blocks (nested lists or BlockSeries)."""
    jobs = []
    pattern = ["any", "partial-mask", "unsorted-degenerate", "spmatrix-blocks", "any", "partial-mask",
               "unsorted-degenerate", "spmatrix-blocks", "partial-mask", "any"]
    nud = 0
    for k in range(count):
        N = Ns[k % len(Ns)]
        focus = pattern[k % len(pattern)]
        if focus == "spmatrix-blocks":
            case = spmatrix_blocks_case(rng, min(N, 3), max_params=max_params)
        elif focus == "unsorted-degenerate":
            nud += 1
            case = unsorted_degenerate_case(rng, min(N, 3), "exact" if nud % 2 else "float", max_params=max_params)
        else:
            if focus == "partial-mask":
                N = max(N, 3)
            case = focused_case(rng, N, focus, max_blocks=max_blocks, max_size=max_size, max_params=max_params)
        if case["nparam"] == 1:
            ns = 1  # another scale would only rescale x
        else:
            ns = (N + 1) if full_scales else scales_per_case
        jobs.append((case, scale_vectors(rng, case["nparam"], ns)))
    return jobs


def run_jobs(jobs, procs):
    if procs <= 1 or len(jobs) < 4:
        return [_worker(j) for j in jobs]
    ctx = multiprocessing.get_context("fork")
    with ctx.Pool(procs) as pool:
        return pool.map(_worker, jobs, chunksize=max(1, len(jobs) // (procs * 8)))


def summarise(jobs, results, rule_extra=""):
    failures = []
    seen = set()
    dist = {}
    evals = 0
    rs = 0
    for (case, scales), r in zip(jobs, results):
        evals += r.get("evals", 0)
        rs += r.get("rs_checked", 0)
        s = r["sig"]
        for key in ("mode", "fmt", "nparam", "blocks", "dim"):
            k = "%s=%s" % (key, s[key])
            dist[k] = dist.get(k, 0) + 1
        dist["N=%d" % case["N"]] = dist.get("N=%d" % case["N"], 0) + 1
        if case.get("approx"):
            dist["family=generic-float(toleranced)"] = dist.get("family=generic-float(toleranced)", 0) + 1
        if is_unsorted_degenerate(case):
            dist["unsorted-degenerate-H0"] = dist.get("unsorted-degenerate-H0", 0) + 1
        if case.get("blocks_as"):
            kk = "presentation=%s/%s" % (case["blocks_as"]["form"], case["blocks_as"]["conv"])
            dist[kk] = dist.get(kk, 0) + 1
        if r["nontrivial"]:
            seen.add(core.sha(core.canon(case)))
        failures += r["failures"]
    # wrong values first (more informative replay), then exceptions
    rank = {"charpoly": 0, "rs": 1, "exception": 2, "crash": 3}
    failures.sort(key=lambda f: rank.get((f.get("input") or {}).get("kind"), 4))
    return dict(
        evaluations=evals, nontrivial=len(seen),
        rule="distinct case hashes with dim >= 2 whose H_tilde has a non-zero term of total order >= 2; "
             "every evaluation compares all (dim+1)*(N+1) char-poly coefficients exactly" + rule_extra,
        samples=[dict(case=j[0], scales=j[1]) for j in jobs[:3]],
        distribution=dist, rs_states_checked=rs, cases=len(jobs),
        failures=failures[:20])


def oracle_charpoly(ctx):
    selftest()
    count = ctx.n(40, 1400)
    Ns = [2, 3] if ctx.quick else [2, 3, 3, 4]
    jobs = make_cases(ctx.rng, count, Ns, scales_per_case=2, full_scales=not ctx.quick)
    procs = min(16, os.cpu_count() or 1)
    results = run_jobs(jobs, procs)
    return summarise(jobs, results)


def search_charpoly(ctx):
    """Deeper random search (used after a proof/tie break when the oracle found nothing): higher orders
    (N = 3, 4), in chunks, stopping at the first chunk that contains a failing input."""
    total = ctx.n(96, 3000)
    chunk = ctx.n(32, 500)
    Ns = [3, 4, 4] if ctx.quick else [3, 4]
    procs = min(16, os.cpu_count() or 1)
    done = 0
    while done < total:
        jobs = make_cases(ctx.rng, min(chunk, total - done), Ns, scales_per_case=2, full_scales=not ctx.quick)
        done += len(jobs)
        out = []
        for r in run_jobs(jobs, procs):
            out += [f for f in r["failures"] if not f.get("crash")]
        if out:
            return out[:10]
    return []
