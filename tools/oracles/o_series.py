"""Property oracles for series.py, run on the implementation alone.

oracle_cauchy  (C18): cauchy_dot_product versus a dense reference sum computed
                independently with exact integer arithmetic.
oracle_getitem (C19): BlockSeries indexing versus numpy indexing of the dense object array
                of element values; exactly-once evaluation; IndexError classes; recursion.
"""
import sys
import itertools

from vlib import core

sys.path.insert(0, str(core.REPO))
import numpy as np  # noqa: E402

# ---------------------------------------------------------------------------
# exact 2x2 Gaussian-integer matrices: ((re,im),(re,im),(re,im),(re,im)) row-major

ZERO = ((0, 0),) * 4
EYE = ((1, 0), (0, 0), (0, 0), (1, 0))


def g_add(x, y):
    return (x[0] + y[0], x[1] + y[1])


def g_mul(x, y):
    return (x[0] * y[0] - x[1] * y[1], x[0] * y[1] + x[1] * y[0])


def m_add(a, b):
    return tuple(g_add(x, y) for x, y in zip(a, b))


def m_mul(a, b):
    return (
        g_add(g_mul(a[0], b[0]), g_mul(a[1], b[2])),
        g_add(g_mul(a[0], b[1]), g_mul(a[1], b[3])),
        g_add(g_mul(a[2], b[0]), g_mul(a[3], b[2])),
        g_add(g_mul(a[2], b[1]), g_mul(a[3], b[3])),
    )


def m_adj(a):
    c = lambda z: (z[0], -z[1])  # noqa: E731
    return (c(a[0]), c(a[2]), c(a[1]), c(a[3]))


def m_of(v):
    if v == "zero":
        return ZERO
    if v == "one":
        return EYE
    return tuple((int(a), int(b)) for a, b in v)


SPARSE_FORMATS = ["csr_array", "csc_array", "coo_array", "csr_matrix"]


def m_to_np(m, fmt="numpy"):
    a = np.array([[complex(*m[0]), complex(*m[1])], [complex(*m[2]), complex(*m[3])]])
    if fmt and fmt != "numpy":
        import scipy.sparse as sp

        return getattr(sp, fmt)(a)
    return a


def m_from_impl(x):
    from pymablock.series import zero, one

    if x is zero:
        return ZERO
    if x is one:
        return EYE
    if hasattr(x, "toarray") and hasattr(x, "format"):  # scipy sparse array / matrix
        x = x.toarray()
    a = np.asarray(x)
    if a.shape != (2, 2):
        raise TypeError("unexpected value %r" % (x,))
    out = []
    for z in a.reshape(-1):
        z = complex(z)
        if z.real != int(z.real) or z.imag != int(z.imag):
            raise TypeError("inexact value")
        out.append((int(z.real), int(z.imag)))
    return tuple(out)


JMAT = ((0, 0), (1, 0), (1, 0), (0, 1))  # used by the custom operator  a J b


def all_orders(N):
    return list(itertools.product(*(range(n + 1) for n in N)))


def leq_orders(n):
    return list(itertools.product(*(range(x + 1) for x in n)))


# ---------------------------------------------------------------------------
# C18


def dense_of_case(case):
    """list over factors of dict idx -> exact matrix (zero entries omitted)"""
    out = []
    for tab in case["tables"]:
        d = {}
        for k, v in tab:
            m = m_of(v)
            if m != ZERO:
                d[tuple(k)] = m
        out.append(d)
    return out


def conv(A, B, dims_a, dims_b, N, op):
    """dense two-factor Cauchy product (dict idx -> matrix)"""
    R = {}
    for i in range(dims_a[0]):
        for j in range(dims_b[1]):
            for n in all_orders(N):
                acc = ZERO
                for k in range(dims_a[1]):
                    for a in leq_orders(n):
                        b = tuple(x - y for x, y in zip(n, a))
                        x = A.get((i, k) + a)
                        y = B.get((k, j) + b)
                        if x is None or y is None:
                            continue
                        acc = m_add(acc, op(x, y))
                if acc != ZERO:
                    R[(i, j) + n] = acc
    return R


def reference(case):
    dense = dense_of_case(case)
    dims = case["dims"]
    N = tuple(case["N"])
    if case.get("operator") == "J":
        op = lambda a, b: m_mul(m_mul(a, JMAT), b)  # noqa: E731
        acc, da = dense[0], (dims[0], dims[1])
        for f in range(1, len(dense)):
            acc = conv(acc, dense[f], da, (dims[f], dims[f + 1]), N, op)
            da = (dims[0], dims[f + 1])
        return acc
    # matmul is associative: associate to the RIGHT (the implementation associates to the left)
    acc, da = dense[-1], (dims[-2], dims[-1])
    for f in range(len(dense) - 2, -1, -1):
        acc = conv(dense[f], acc, (dims[f], dims[f + 1]), da, N, m_mul)
        da = (dims[f], dims[-1])
    return acc


def build_impl(case, touched=None):
    from pymablock.series import BlockSeries, zero, one

    fmt = case.get("fmt", "numpy")

    def val(v):
        return zero if v == "zero" else one if v == "one" else m_to_np(m_of(v), fmt)

    factors = []
    for f, tab in enumerate(case["tables"]):
        table = {tuple(k): v for k, v in tab}
        known = {tuple(k) for k in case.get("known", [[]] * len(case["tables"]))[f]} if case.get("known") else set()
        forbidden = {tuple(k) for k in case.get("forbidden", [[]] * len(case["tables"]))[f]} if case.get("forbidden") else set()

        def ev(*index, _table=table, _f=f, _forb=forbidden):
            idx = tuple(int(x) for x in index)
            if touched is not None:
                touched.append((_f, idx))
            if idx in _forb:
                raise AssertionError("factor %d element %r must not be requested" % (_f, idx))
            return val(_table.get(idx, "zero"))

        factors.append(
            BlockSeries(
                eval=ev,
                data={k: val(table.get(k, "zero")) for k in known},
                shape=(case["dims"][f], case["dims"][f + 1]),
                n_infinite=case["nparam"],
            )
        )
    return factors


def run_cauchy_case(case):
    """-> list of failures (dicts) for this case"""
    from pymablock.series import cauchy_dot_product

    ref = reference(case)
    factors = build_impl(case)
    kw = {}
    if case.get("operator") == "J":
        J = m_to_np(JMAT)
        kw["operator"] = lambda a, b: a @ J @ b
    P = cauchy_dot_product(*factors, hermitian=case["herm"], **kw)
    fails = []
    for idx in case["requests"]:
        idx = tuple(idx)
        want = ref.get(idx, ZERO)
        try:
            got = m_from_impl(P[idx])
        except BaseException as e:  # noqa: BLE001
            fails.append(dict(what="cauchy_dot_product%s raised %s, dense reference has a value" % (list(idx), type(e).__name__), input=case, index=list(idx), expected=want, observed=type(e).__name__))
            continue
        if got != want:
            fails.append(dict(what="cauchy_dot_product element %s differs from the dense Cauchy sum" % (list(idx),), input=case, index=list(idx), expected=want, observed=got))
    # product_by_order called directly, operator left at its default (matmul), on fresh factors
    if len(case["tables"]) == 2 and not case.get("operator") and not case.get("forbidden") and case["kind"] not in ("witness_one_typeerror", "witness_one_sympify"):
        from pymablock.series import product_by_order

        fresh = build_impl(case)
        for idx in case["requests"][:2]:
            idx = tuple(idx)
            if case["herm"] and idx[0] > idx[1]:
                continue  # the transposition wrapper is not part of product_by_order
            want = ref.get(idx, ZERO)
            try:
                got = m_from_impl(product_by_order(idx, fresh[0], fresh[1], hermitian=case["herm"]))
            except BaseException as e:  # noqa: BLE001
                got = type(e).__name__
            if got != want:
                fails.append(dict(what="product_by_order(%s) with the default operator differs from the dense Cauchy sum" % (list(idx),), input=case, index=list(idx), expected=want, observed=got))
    # the factors must be unchanged by the requests: every stored element still equals the value it
    # was created with (the table is the deep copy taken before)
    if not case.get("forbidden"):
        for f, tab in enumerate(case["tables"]):
            for k, v in tab:
                try:
                    now = factors[f][tuple(k)]
                    same = (v in ("zero", "one") and _elem_kind(now) == v) or (v not in ("zero", "one") and _elem_kind(now) == "val" and m_from_impl(now) == m_of(v))
                except BaseException as e:  # noqa: BLE001
                    same, now = False, type(e).__name__
                if not same:
                    fails.append(dict(what="element %s of factor %d was modified by evaluating the product" % (list(k), f), input=case, index=None, factor=f, element=list(k), expected=v, observed=str(now)[:200]))
                    break
    return fails


def _elem_kind(x):
    from pymablock.series import zero, one

    return "zero" if x is zero else "one" if x is one else "val"


def rand_val(rng, small=2):
    return [[rng.randint(-small, small), rng.randint(-small, small)] for _ in range(4)]


def herm_val(rng, small=2):
    a, d = rng.randint(-small, small), rng.randint(-small, small)
    b = [rng.randint(-small, small), rng.randint(-small, small)]
    return [[a, 0], b, [b[0], -b[1]], [d, 0]]


def adj_val(v):
    m = m_adj(m_of(v))
    return [list(z) for z in m]


def gen_cauchy_case(rng, kind):
    nparam = rng.choice([1, 1, 2, 2, 3])
    N = [rng.randint(0, {1: 3, 2: 2, 3: 1}[nparam]) for _ in range(nparam)]
    if sum(N) == 0:
        N[0] = 1
    orders = all_orders(N)
    p_zero = rng.choice([0.0, 0.3, 0.6])

    def table(rows, cols, identity0=False, maker=rand_val):
        t = {}
        for i in range(rows):
            for k in range(cols):
                for o in orders:
                    if identity0 and sum(o) == 0:
                        t[(i, k) + o] = "one" if i == k else "zero"
                    elif rng.random() < p_zero:
                        t[(i, k) + o] = "zero"
                    else:
                        t[(i, k) + o] = maker(rng)
        return t

    herm = False
    operator = None
    if kind == "plain":
        nfac = rng.choice([2, 2, 3, 3, 4])
        dims = [rng.randint(1, 3) for _ in range(nfac + 1)]
        if rng.random() < 0.25:
            operator = "J"  # custom operator a J b; `one` is then not generated (it is the unit of the operator, not of J)
        tables = []
        for f in range(nfac):
            ident = operator is None and dims[f] == dims[f + 1] and rng.random() < 0.3
            tables.append(table(dims[f], dims[f + 1], identity0=ident))
    elif kind == "herm_adjoint":  # (A, A^dagger), hermitian=True
        nfac, herm = 2, True
        dims = [rng.randint(1, 3), rng.randint(1, 3)]
        dims.append(dims[0])
        t0 = table(dims[0], dims[1])
        t1 = {(k, i) + tuple(o): (adj_val(v) if isinstance(v, list) else v) for (i, k, *o), v in t0.items()}
        tables = [t0, t1]
    elif kind == "unitary":
        # the U / U^dagger pattern: `one` on the diagonal blocks at order zero, zero off the diagonal,
        # numpy arrays at higher orders; (A^dagger, A) or (A, A^dagger), hermitian=True (legitimate:
        # the factors are exact adjoints; no element needs `one + x`); ALL elements requested on one
        # product object in order of increasing total order
        nfac, herm = 2, True
        if sum(N) < 2:
            N[0] = max(N[0], 2)
            orders = all_orders(N)
        p = rng.randint(1, 3)
        dims = [p, p, p]
        p_zero = rng.choice([0.0, 0.0, 0.3])
        t0 = table(p, p, identity0=True)
        t1 = {(k, i) + tuple(o): (adj_val(v) if isinstance(v, list) else v) for (i, k, *o), v in t0.items()}
        tables = [t1, t0] if rng.random() < 0.5 else [t0, t1]
    elif kind == "herm_sandwich":  # (A, H, A^dagger) with H Hermitian: wrapper only
        nfac, herm = 3, True
        p, q = rng.randint(1, 3), rng.randint(1, 2)
        dims = [p, q, q, p]
        t0 = table(p, q)
        th = {}
        for i in range(q):
            for k in range(i, q):
                for o in orders:
                    v = "zero" if rng.random() < p_zero else (herm_val(rng) if i == k else rand_val(rng))
                    th[(i, k) + o] = v
                    th[(k, i) + o] = adj_val(v) if isinstance(v, list) else v
        t2 = {(k, i) + tuple(o): (adj_val(v) if isinstance(v, list) else v) for (i, k, *o), v in t0.items()}
        tables = [t0, th, t2]
    elif kind == "herm_commuting":  # Hermitian product of NON-adjoint factors: real scalar multiples of 1
        nfac, herm = 2, True
        dims = [1, 1, 1]

        def scal(rng):
            c = rng.randint(-3, 3)
            return [[c, 0], [0, 0], [0, 0], [c, 0]]

        tables = [table(1, 1, maker=scal), table(1, 1, maker=scal)]
    else:
        raise ValueError(kind)
    known = []
    for t in tables:
        known.append([list(k) for k in t if rng.random() < 0.3])
    req = [(i, j) + o for i in range(dims[0]) for j in range(dims[-1]) for o in orders]
    rng.shuffle(req)
    # value type: numpy arrays, or scipy sparse arrays / matrices with genuinely complex entries
    fmt = "numpy" if (operator or rng.random() < 0.55) else rng.choice(SPARSE_FORMATS)
    if kind == "unitary":
        req.sort(key=lambda r: sum(r[2:]))
        nreq = len(req)
    else:
        nreq = rng.randint(3, 12)
    return dict(
        kind=kind,
        fmt=fmt,
        nparam=nparam,
        dims=dims,
        N=N,
        herm=herm,
        operator=operator,
        tables=[[[list(k), v] for k, v in t.items()] for t in tables],
        known=known,
        requests=[list(r) for r in req[:nreq]],
    )


def witness_case():
    """A = 1 + 2 lambda, B = 1 + lambda (times the 2x2 identity), hermitian=True: the known finding"""
    s = lambda c: [[c, 0], [0, 0], [0, 0], [c, 0]]  # noqa: E731
    return dict(
        kind="witness",
        nparam=1,
        dims=[1, 1, 1],
        N=[1],
        herm=True,
        operator=None,
        tables=[[[[0, 0, 0], s(1)], [[0, 0, 1], s(2)]], [[[0, 0, 0], s(1)], [[0, 0, 1], s(1)]]],
        known=[[], []],
        requests=[[0, 0, 0], [0, 0, 1]],
    )


def lazy_case(rng):
    """Elements that must not be requested: their complementary element is a KNOWN zero (in data),
    or is cheaper, evaluated first and found to be zero."""
    nparam = rng.choice([1, 2])
    N = [rng.randint(1, 2) for _ in range(nparam)]
    orders = all_orders(N)
    top = tuple(N)
    zero_o = (0,) * nparam
    tA, tB = {}, {}
    for o in orders:
        tA[(0, 0) + o] = rand_val(rng)
        tB[(0, 0) + o] = rand_val(rng)
    mode = rng.choice(["known_zero_second", "known_zero_first", "cheap_zero"])
    forbidden = [[], []]
    known = [[], []]
    if mode == "known_zero_second":  # B[0,0,0..0] known zero -> A[0,0,top] never needed for P[top]
        tB[(0, 0) + zero_o] = "zero"
        known[1].append([0, 0] + list(zero_o))
        forbidden[0].append([0, 0] + list(top))
    elif mode == "known_zero_first":
        tA[(0, 0) + zero_o] = "zero"
        known[0].append([0, 0] + list(zero_o))
        forbidden[1].append([0, 0] + list(top))
    else:  # B[...,0] evaluates (lazily) to zero; it is the cheaper element so it is asked first
        tB[(0, 0) + zero_o] = "zero"
        forbidden[0].append([0, 0] + list(top))
    return dict(
        kind="lazy:" + mode,
        nparam=nparam,
        dims=[1, 1, 1],
        N=N,
        herm=False,
        operator=None,
        tables=[[[list(k), v] for k, v in tA.items()], [[list(k), v] for k, v in tB.items()]],
        known=known,
        forbidden=forbidden,
        requests=[[0, 0] + list(top)],
    )


def halfsum_value(case, idx):
    """what product_by_order's Hermitian half-sum gives on the diagonal element idx (two factors)"""
    A, B = dense_of_case(case)
    i, j, n = idx[0], idx[1], tuple(idx[2:])
    acc = ZERO
    for k in range(case["dims"][1]):
        for a in leq_orders(n):
            b = tuple(x - y for x, y in zip(n, a))
            if a > b:
                continue
            x, y = A.get((i, k) + a), B.get((k, j) + b)
            if x is None or y is None:
                continue
            t = m_mul(x, y)
            acc = m_add(acc, t)
            if a != b:
                acc = m_add(acc, m_adj(t))
    return acc


def classify_cauchy(failure):
    """'C18-halfsum-nonadjoint' iff: two factors, hermitian=True declared, diagonal block, the dense
    product IS Hermitian, the factors are NOT mutual adjoints, and the observed value is exactly the
    half-sum of product_by_order."""
    try:
        case = failure["input"]
        idx = tuple(failure["index"])
        if not case["herm"] or len(case["tables"]) != 2 or case.get("operator"):
            return None
        if idx[0] != idx[1]:
            return None
        A, B = dense_of_case(case)
        ref = reference(case)
        N = tuple(case["N"])
        d0, d2 = case["dims"][0], case["dims"][2]
        if d0 != d2:
            return None
        for i in range(d0):
            for j in range(d0):
                for n in all_orders(N):
                    if ref.get((i, j) + n, ZERO) != m_adj(ref.get((j, i) + n, ZERO)):
                        return None  # product not Hermitian: hermitian=True was a wrong declaration
        mutual = all(
            B.get((k, i) + n, ZERO) == m_adj(A.get((i, k) + n, ZERO))
            for i in range(d0)
            for k in range(case["dims"][1])
            for n in all_orders(N)
        )
        if mutual:
            return None
        obs = failure["observed"]
        if isinstance(obs, str):
            return None
        if tuple(tuple(z) for z in obs) != halfsum_value(case, idx):
            return None
        return "C18-halfsum-nonadjoint"
    except Exception:  # noqa: BLE001
        return None


# ---- the second known class: `one` that is not the only non-zero term ---------------


def kinds_of_case(case):
    """per factor: dict idx -> 'one' | 'val' (zero omitted)"""
    out = []
    for tab in case["tables"]:
        d = {}
        for k, v in tab:
            if v == "zero":
                continue
            d[tuple(k)] = "one" if v == "one" else "val"
        out.append(d)
    return out


def sentinel_outcome(case, idx):
    """Outcome of the sentinel arithmetic of product_by_order / the Hermitian wrapper for element idx,
    computed on KINDS only (zero / one / val): returns 'zero' | 'one' | 'val' | ('exc', classname).
    Mirrors series.py: enumeration order, `result + term`, `Dagger(term)`."""
    kinds = kinds_of_case(case)
    dims = case["dims"]
    nfac = len(kinds)
    memo = {}

    def element(level, index):
        # level 0 = factor 0; level l >= 1 = product of the first l+1 factors
        if level == 0:
            return kinds[0].get(index, "zero")
        key = (level, index)
        if key not in memo:
            memo[key] = product(level, index)
        return memo[key]

    def product(level, index):
        i, j, n = index[0], index[1], tuple(index[2:])
        final = level == nfac - 1
        herm = case["herm"] and final
        if herm and i > j:
            r = element(level, (j, i) + n)
            if isinstance(r, tuple):
                return r
            return ("exc", "SympifyError") if r == "one" else r
        half = herm and nfac == 2 and i == j
        result = "zero"
        for k in range(dims[level]):
            for a in leq_orders(n):
                b = tuple(x - y for x, y in zip(n, a))
                if half and a > b:
                    continue
                x = element(level - 1, (i, k) + a)
                if isinstance(x, tuple):
                    return x
                y = kinds[level].get((k, j) + b, "zero")
                if x == "zero" or y == "zero":
                    continue
                term = "one" if (x == "one" and y == "one") else "val"

                def add(r, t):
                    if r == "zero":
                        return t
                    if r == "val" and t == "val":
                        return "val"
                    return ("exc", "TypeError")

                result = add(result, term)
                if isinstance(result, tuple):
                    return result
                if half and a != b:
                    if term == "one":
                        return ("exc", "SympifyError")
                    result = add(result, "val")
                    if isinstance(result, tuple):
                        return result
        return result

    return element(nfac - 1, tuple(idx))


def classify_one_plus_term(failure):
    """'C18-one-plus-term' iff the implementation raised TypeError / SympifyError and the sentinel
    arithmetic on the kinds of the factor elements (one + x, x + one, Dagger(one)) explains exactly
    this exception for the requested element."""
    try:
        case = failure["input"]
        obs = failure["observed"]
        if obs not in ("TypeError", "SympifyError") or case.get("operator") or case.get("forbidden"):
            return None
        # note: the order in which factor elements are fetched does not matter for kinds
        out = sentinel_outcome(case, failure["index"])
        if out == ("exc", obs):
            return "C18-one-plus-term"
        return None
    except Exception:  # noqa: BLE001
        return None


def witness_one_cases():
    x = [[1, 0], [2, 0], [3, 0], [4, 0]]
    y = [[0, 0], [1, 0], [1, 0], [0, 0]]
    w1 = dict(
        kind="witness_one_typeerror", nparam=1, dims=[1, 2, 1], N=[0], herm=False, operator=None,
        tables=[[[[0, 0, 0], "one"], [[0, 1, 0], x]], [[[0, 0, 0], "one"], [[1, 0, 0], y]]],
        known=[[], []], requests=[[0, 0, 0]],
    )
    w2 = dict(
        kind="witness_one_sympify", nparam=1, dims=[1, 1, 1], N=[1], herm=True, operator=None,
        tables=[[[[0, 0, 0], "one"], [[0, 0, 1], "one"]], [[[0, 0, 0], "one"], [[0, 0, 1], "one"]]],
        known=[[], []], requests=[[0, 0, 1]],
    )
    return [w1, w2]


def run_cauchy_api_case(case):
    """Construction-time behaviour of cauchy_dot_product and the sentinel algebra (replayable from the seed)."""
    import random

    from sympy.physics.quantum import Dagger

    from pymablock import series as S
    from pymablock.series import BlockSeries, cauchy_dot_product, one, zero

    rng = random.Random(case["seed"])
    fails = []

    def fail(what, **kw):
        fails.append(dict(what=what, input=case, index=None, **kw))

    def mk(shape, ninf, names=None, name=None):
        return BlockSeries(eval=lambda *i: m_to_np(EYE), shape=shape, n_infinite=ninf, dimension_names=names, name=name)

    def expect_valueerror(label, *factors, **kw):
        try:
            cauchy_dot_product(*factors, **kw)
            fail("cauchy_dot_product accepted factors with %s" % label)
        except ValueError:
            pass
        except BaseException as e:  # noqa: BLE001
            fail("%s instead of ValueError for factors with %s" % (type(e).__name__, label), observed=type(e).__name__)

    p, q, r = rng.randint(1, 3), rng.randint(1, 3), rng.randint(1, 3)
    n = rng.randint(1, 3)
    herm = rng.random() < 0.5
    extra = [mk((r, r), n)] if rng.random() < 0.5 else []
    expect_valueerror("unequal numbers of infinite dimensions", mk((p, q), n), mk((q, r), n + 1), *extra, hermitian=herm)
    expect_valueerror("different dimension names", mk((p, q), n, tuple("a%d" % k for k in range(n))), mk((q, r), n, tuple("b%d" % k for k in range(n))), *extra)
    expect_valueerror("different dimension names (default vs custom)", mk((p, q), n), mk((q, r), n, tuple("b%d" % k for k in range(n))))
    expect_valueerror("incompatible finite dimensions", mk((p, q), n), mk((q + 1, r), n), *extra, hermitian=herm)
    if extra:
        expect_valueerror("incompatible finite dimensions in the third factor", mk((p, q), n), mk((q, r), n), mk((r + 1, r), n))
    expect_valueerror("a single factor", mk((p, p), n))
    # propagation of shape, n_infinite, dimension_names and name
    names = tuple("k_%s" % c for c in "xyz"[:n]) if rng.random() < 0.6 else None
    facs = [mk((p, q), n, names, "A"), mk((q, r), n, names, "B")]
    if rng.random() < 0.5:
        facs.append(mk((r, p), n, names, "C"))
    prod = cauchy_dot_product(*facs)
    want_names = names or tuple("n_%d" % k for k in range(n))
    want_shape = (p, facs[-1].shape[1])
    want_name = " @ ".join(f.name for f in facs)
    if tuple(prod.dimension_names) != want_names or prod.n_infinite != n or tuple(prod.shape) != want_shape:
        fail("product series has shape %r, n_infinite %r, dimension_names %r" % (prod.shape, prod.n_infinite, prod.dimension_names), expected=[list(want_shape), n, list(want_names)])
    if prod.name != want_name:
        fail("product series is named %r" % prod.name, expected=want_name)
    text = str(prod)
    if want_name not in text or any(str(nm) not in text for nm in want_names) or str(want_shape[0]) not in text:
        fail("str(product) = %r does not show its name, finite shape and dimension names" % text)
    idx = (0, 0) + (1,) * n
    v = prod[idx]
    k = len(facs)
    # every factor is the constant series 1 (identity matrices): the element counts chains and splittings
    from math import comb

    count = 1
    for d in [f.shape[1] for f in facs[:-1]]:
        count *= d
    count *= comb(1 + k - 1, k - 1) ** n
    if m_from_impl(v) != tuple((count * a, count * b) for a, b in EYE):
        fail("product of %d constant identity series at %r is not %d * identity" % (k, idx, count), observed=str(m_from_impl(v)), expected=count)
    # the sentinels
    x = m_to_np(m_of(rand_val(rng)))
    checks = [
        ("zero + x is x", lambda: (zero + x) is x),
        ("zero - x == -x", lambda: np.array_equal(zero - x, -x)),
        ("zero * x is zero", lambda: (zero * x) is zero),
        ("-zero is zero", lambda: (-zero) is zero),
        ("zero.adjoint() is zero", lambda: zero.adjoint() is zero),
        ("Dagger(zero) is zero", lambda: Dagger(zero) is zero),
        ("zero + one is one", lambda: (zero + one) is one),
        ("zero - zero is zero", lambda: (zero - zero) is zero),
        ("repr(zero) == 'zero'", lambda: repr(zero) == "zero"),
        ("repr(one) == 'one'", lambda: repr(one) == "one"),
        ("repr(PENDING) == 'pending'", lambda: repr(S.PENDING) == "pending"),
    ]
    for label, fn in checks:
        try:
            ok = bool(fn())
        except BaseException as e:  # noqa: BLE001
            ok = False
            label += " (raised %s)" % type(e).__name__
        if not ok:
            fail("sentinel law violated: " + label)
    return fails


def oracle_cauchy(ctx, ncases=None):
    n = ncases or ctx.n(150, 3000)
    rng = ctx.rng
    failures, samples = [], []
    dist = {}
    nontrivial = set()
    cases = [witness_case()] + witness_one_cases()
    kinds = ["plain"] * 5 + ["herm_adjoint"] * 2 + ["herm_sandwich"] * 2 + ["unitary"] * 2 + ["herm_commuting", "lazy"]
    for _ in range(n):
        k = rng.choice(kinds)
        cases.append(lazy_case(rng) if k == "lazy" else gen_cauchy_case(rng, k))
    evaluations = 0
    for k in range(max(3, n // 25)):
        cases.append(dict(kind="api", seed=rng.randrange(10**9), tables=[], N=[0], requests=[], dims=[], herm=False))
    for case in cases:
        try:
            f = run_cauchy_api_case(case) if case["kind"] == "api" else run_cauchy_case(case)
        except Exception as e:  # noqa: BLE001
            f = [dict(what="oracle could not run the case: %r" % (e,), input=case, index=None, observed=type(e).__name__)]
        evaluations += len(case["requests"])
        failures += f
        kind = case["kind"].split(":")[0]
        dist[kind] = dist.get(kind, 0) + 1
        if case.get("fmt", "numpy") != "numpy":
            dist["sparse:" + case["fmt"]] = dist.get("sparse:" + case["fmt"], 0) + 1
        if len(case["tables"]) >= 2 and sum(case["N"]) >= 1 and len(case["requests"]) >= 2:
            nontrivial.add(core.sha(core.canon(case))[:16])
        if len(samples) < 3:
            samples.append(dict(kind=case["kind"], dims=case["dims"], N=case["N"], herm=case["herm"], requests=case["requests"][:3]))
    return dict(
        evaluations=evaluations,
        nontrivial=len(nontrivial),
        rule="distinct cases with >= 2 requested elements and total maximal order >= 1",
        samples=samples,
        distribution=dist,
        failures=failures,
    )


# ---------------------------------------------------------------------------
# C19


def _py_item(item):
    out = []
    for e in item:
        if isinstance(e, list) and e and e[0] == "slice":
            out.append(slice(e[1], e[2], e[3]))
        else:
            out.append(e)
    return tuple(out)


def _is_slice(e):
    return isinstance(e, list) and bool(e) and e[0] == "slice"


def _elem(x):
    from pymablock.series import zero, one

    if x is zero:
        return "zero"
    if x is one:
        return "one"
    return int(x)


def make_series(case, log):
    from pymablock.series import BlockSeries, zero

    table = {tuple(k): v for k, v in case["table"]}

    def ev(*index):
        idx = tuple(int(x) for x in index)
        log.append(idx)
        v = table.get(idx, "zero")
        return zero if v == "zero" else v

    return BlockSeries(eval=ev, shape=tuple(case["shape"]), n_infinite=case["ninf"])


def dense_reference(case, extent):
    """dense object array of the element values, computed by a FRESH series with all-integer requests"""
    from pymablock.series import zero

    s = make_series(case, [])
    shape = tuple(case["shape"]) + tuple(extent)
    D = np.empty(shape, dtype=object)
    for idx in itertools.product(*(range(d) for d in shape)):
        D[idx] = s[idx]
    return D, zero


def needed_extent(orders):
    ext = []
    for o in orders:
        if _is_slice(o):
            ext.append(max(o[2], 0))
        elif isinstance(o, list):
            ext.append(max(o + [0]) + 1)
        else:
            ext.append(o + 1)
    return ext


def gen_getitem_case(rng):
    shape = rng.choice([(), (1,), (2,), (3,), (2, 2), (2, 3), (3, 3), (3, 1), (2, 3, 2), (2, 2, 2), (3, 2, 2), (2, 3, 2)])
    ninf = rng.choice([1, 1, 2, 2, 3]) if len(shape) < 3 else rng.choice([1, 1, 2])
    if rng.random() < 0.08 and shape:
        ninf = 0
    N = {0: 0, 1: 3, 2: 2, 3: 1}[ninf]
    p_zero = rng.choice([0.0, 0.25, 0.5])
    table, tag = [], 1
    for idx in itertools.product(*([range(d) for d in shape] + [range(N + 2)] * ninf)):
        if rng.random() < p_zero:
            table.append([list(idx), "zero"])
        else:
            table.append([list(idx), tag])
            tag += 1

    def fin_index(d):
        r = rng.random()
        if r < 0.4:
            return rng.randint(-d, d - 1)
        if r < 0.65:
            return [rng.randint(-d, d - 1) for _ in range(rng.choice([1, 2, 2, 3]))]
        return ["slice", rng.choice([None, None, 0, 1, -1, -2]), rng.choice([None, None, 1, 2, d, -1]), rng.choice([None, None, 1, 2])]

    def ord_index():
        r = rng.random()
        if r < 0.45:
            return rng.randint(0, N + 1)
        if r < 0.65:
            return [rng.randint(0, N + 1) for _ in range(rng.choice([1, 2, 2, 3]))]
        return ["slice", rng.choice([None, None, 0, 1, 2]), rng.randint(0, N + 2), rng.choice([None, None, 1, 2])]

    def unify(item):
        lists = [k for k, e in enumerate(item) if isinstance(e, list) and not _is_slice(e)]
        if len(lists) > 1:
            L = rng.choice([1, 2, 3])
            for k in lists:
                if k < len(shape):
                    item[k] = [rng.randint(-shape[k], shape[k] - 1) for _ in range(L if rng.random() < 0.85 else 1)]
                else:
                    item[k] = [rng.randint(0, N + 1) for _ in range(L if rng.random() < 0.85 else 1)]
        return item

    requests = [unify([fin_index(d) for d in shape] + [ord_index() for _ in range(ninf)]) for _ in range(rng.randint(2, 5))]
    views = []
    if ninf:
        for _ in range(rng.randint(0, 2)):
            views.append(dict(item=unify([fin_index(d) for d in shape]), orders=[[rng.randint(0, N + 1) for _ in range(ninf)] for _ in range(2)]))
        if len(shape) >= 2 and rng.random() < 0.6:
            # a list after a slice (and, with three finite dimensions, before another one)
            item = [["slice", None, None, None] for _ in shape]
            k = rng.randrange(1, len(shape))
            item[k] = [rng.randint(-shape[k], shape[k] - 1) for _ in range(rng.choice([1, 2, 3]))]
            if len(shape) == 3 and rng.random() < 0.3:
                j = rng.choice([x for x in range(3) if x != k])
                item[j] = rng.randint(-shape[j], shape[j] - 1)
            views.append(dict(item=item, orders=[[rng.randint(0, N + 1) for _ in range(ninf)] for _ in range(2)]))
    return dict(kind="numpy", shape=list(shape), ninf=ninf, N=N, table=table, requests=requests, views=views, extra=[rng.randint(0, 2) for _ in range(ninf)])


def run_getitem_case(case):
    from pymablock.series import BlockSeries, zero

    fails = []
    log = []
    s = make_series(case, log)
    nf = len(case["shape"])
    for item in case["requests"]:
        ext = [a + b for a, b in zip(needed_extent(item[nf:]), case["extra"])]
        D, _ = dense_reference(case, ext)
        pit = _py_item(item)
        try:
            want = D[pit]
        except IndexError:
            want = "IndexError"
        try:
            got = s[pit]
        except BaseException as e:  # noqa: BLE001
            got = type(e).__name__
        if isinstance(want, str) or isinstance(got, str):
            if want != got:
                fails.append(dict(what="series[item] and dense[item] disagree on raising", input=case, item=item, expected=str(want)[:200], observed=str(got)[:200]))
            continue
        if isinstance(want, np.ndarray):
            if not isinstance(got, np.ma.MaskedArray):
                fails.append(dict(what="array expected, got %r" % type(got).__name__, input=case, item=item))
                continue
            w_data = [_elem(x) for x in want.reshape(-1)]
            g_data = [_elem(x) for x in np.ma.getdata(got).reshape(-1)]
            g_mask = [bool(x) for x in np.ma.getmaskarray(got).reshape(-1)]
            if tuple(got.shape) != tuple(want.shape) or g_data != w_data or g_mask != [v == "zero" for v in w_data]:
                fails.append(dict(what="series[item] differs from dense_array[item] (shape / values / mask)", input=case, item=item, expected=[list(want.shape), w_data], observed=[list(got.shape), g_data, g_mask]))
        else:
            if isinstance(got, (np.ndarray, BlockSeries)) or _elem(got) != _elem(want):
                fails.append(dict(what="series[item] differs from dense_array[item] (scalar)", input=case, item=item, expected=_elem(want), observed=str(got)[:100]))
    # exactly once (no pops, no exceptions in this case)
    if len(set(log)) != len(log):
        dup = sorted({i for i in log if log.count(i) > 1})[:3]
        fails.append(dict(what="an element was evaluated more than once while cached: %s" % dup, input=case))
    # views
    for vw in case.get("views", []):
        item = vw["item"]
        pit = _py_item(item)
        try:
            want_shape = np.empty(tuple(case["shape"]))[pit].shape
        except IndexError:
            want_shape = None
        try:
            v = s[pit]
        except IndexError:
            if want_shape is not None and not all(isinstance(e, int) for e in item):
                fails.append(dict(what="view creation raised IndexError on a valid finite item", input=case, item=item))
            continue
        if want_shape is None:
            if not all(isinstance(e, int) for e in item):
                fails.append(dict(what="view created for an out-of-bounds finite item", input=case, item=item))
                continue
        elif tuple(v.shape) != tuple(want_shape):
            fails.append(dict(what="view shape differs from np.empty(shape)[item].shape", input=case, item=item, expected=list(want_shape), observed=list(v.shape)))
            continue
        for o in vw["orders"]:
            D, _ = dense_reference(case, [x + 1 for x in o])
            try:
                sub = D[pit + tuple(slice(x, x + 1) for x in o)]
                sub = sub.reshape(sub.shape[: sub.ndim - len(o)])
            except IndexError:
                sub = None
            for fidx in itertools.product(*(range(d) for d in v.shape)):
                try:
                    got = _elem(v[tuple(fidx) + tuple(o)])
                except BaseException as e:  # noqa: BLE001
                    got = type(e).__name__
                want = "IndexError" if sub is None else _elem(sub[fidx])
                if got != want:
                    fails.append(dict(what="view element differs from the element of the original", input=case, item=item, index=list(fidx) + list(o), expected=want, observed=got))
    return fails


def run_protocol_case(case):
    """IndexError classes, recursion, exception clean-up, exactly-once under pop"""
    from pymablock.series import BlockSeries, zero

    fails = []
    kind = case["kind"]
    shape, ninf = tuple(case["shape"]), case["ninf"]
    if kind == "indexerror":
        log = []
        s = make_series(case, log)
        for item in case["requests"]:
            try:
                r = s[_py_item(item)]
                fails.append(dict(what="no IndexError for a rejected request", input=case, item=item, observed=str(type(r).__name__)))
            except IndexError:
                pass
            except BaseException as e:  # noqa: BLE001
                fails.append(dict(what="%s instead of IndexError" % type(e).__name__, input=case, item=item, observed=type(e).__name__))
        if log:
            fails.append(dict(what="eval was called by a rejected request", input=case, observed=log[:3]))
    elif kind == "recursion":
        box = {}
        idx = tuple(case["index"])
        other = tuple(case["other"])
        calls = []

        def ev_a(*index):
            index = tuple(int(x) for x in index)
            calls.append(("a", index))
            if index == idx:
                return box["b" if case["mutual"] else "a"][idx]
            return 1

        def ev_b(*index):
            index = tuple(int(x) for x in index)
            calls.append(("b", index))
            return box["a"][index]

        box["a"] = BlockSeries(eval=ev_a, shape=shape, n_infinite=ninf)
        box["b"] = BlockSeries(eval=ev_b, shape=shape, n_infinite=ninf)
        ok_before = box["a"][other]
        try:
            box["a"][idx]
            fails.append(dict(what="self-referential element returned a value", input=case))
        except RuntimeError:
            pass
        except BaseException as e:  # noqa: BLE001
            fails.append(dict(what="%s instead of RuntimeError for a self-referential element" % type(e).__name__, input=case, observed=type(e).__name__))
        sentinel = object()
        for name in ("a", "b"):
            if box[name].pop(idx, sentinel) is not sentinel:
                fails.append(dict(what="key left in the cache of series %s after the failed evaluation" % name, input=case))
        n = len(calls)
        if box["a"][other] != ok_before or len(calls) != n:
            fails.append(dict(what="an evaluated element was lost or re-evaluated after the failure", input=case))
    elif kind == "cleanup":
        exc = {"ValueError": ValueError, "KeyboardInterrupt": KeyboardInterrupt, "RuntimeError": RuntimeError}[case["exc"]]
        bad = tuple(case["index"])
        calls = []
        state = {"fail": True}

        def ev(*index):
            index = tuple(int(x) for x in index)
            calls.append(index)
            if index == bad and state["fail"]:
                raise exc("injected")
            return 7 + sum(index)

        s = BlockSeries(eval=ev, shape=shape, n_infinite=ninf)
        item = _py_item(case["requests"][0])
        try:
            s[item]
            fails.append(dict(what="exception of eval was swallowed", input=case))
        except BaseException as e:  # noqa: BLE001
            if type(e).__name__ != case["exc"]:
                fails.append(dict(what="%s instead of %s" % (type(e).__name__, case["exc"]), input=case, observed=type(e).__name__))
        sentinel = object()
        if s.pop(bad, sentinel) is not sentinel:
            fails.append(dict(what="PENDING/partial key left behind after %s" % case["exc"], input=case))
        state["fail"] = False
        before = list(calls)
        try:
            r = s[item]
        except BaseException as e:  # noqa: BLE001
            fails.append(dict(what="series unusable after a failed evaluation: %s" % type(e).__name__, input=case))
            return fails
        again = calls[len(before):]
        # elements evaluated successfully before the failure must not be evaluated again
        done_before = [i for i in before if i != bad]
        if any(i in done_before for i in again):
            fails.append(dict(what="elements cached before the exception were evaluated again", input=case, observed=again[:4]))
        D = np.empty(tuple(shape) + tuple(case["extent"]), dtype=object)
        for i in itertools.product(*(range(d) for d in D.shape)):
            D[i] = 7 + sum(i)
        want = D[item]
        if [int(x) for x in np.asarray(np.ma.getdata(r)).reshape(-1)] != [int(x) for x in np.asarray(want).reshape(-1)]:
            fails.append(dict(what="wrong values after recovery from an exception", input=case))
    return fails


def gen_dependency_case(rng):
    """One or two series whose elements are defined through OTHER elements of the same series (or
    of each other): value = tag + sum of the values of its dependencies.  direction 'forward': the
    dependencies come later in C order (they get evaluated and cached while an earlier element of
    the same multi-element request is being evaluated), 'backward': earlier.  Acyclic by
    construction (strict order on (index, series)), so every element has a value."""
    shape = rng.choice([(), (), (2,), (2,), (3,), (2, 2)])
    ninf = rng.choice([1, 1, 1, 2])
    N = {1: rng.choice([3, 4, 5]), 2: 2}[ninf]
    nser = rng.choice([1, 1, 2])
    direction = rng.choice(["forward", "forward", "backward"])
    idxs = list(itertools.product(*([range(d) for d in shape] + [range(N + 1)] * ninf)))
    nodes = [(i, b) for i in idxs for b in range(nser)]
    p_dep = rng.choice([0.5, 0.8, 1.0])
    tables = [[] for _ in range(nser)]
    tag = 1
    for (i, b) in nodes:
        cand = [n for n in nodes if (n > (i, b) if direction == "forward" else n < (i, b))]
        deps = []
        if cand and rng.random() < p_dep:
            cand.sort(key=lambda n: sum(abs(x - y) for x, y in zip(n[0], i)) + (0 if n[1] == b else 0.5))
            pool = cand[:4]
            for _ in range(rng.choice([1, 1, 2])):
                n = rng.choice(pool)
                deps.append([n[1], list(n[0])])
        tables[b].append([list(i), tag, deps])
        tag += rng.randint(1, 3)
    reqs = []
    for _ in range(rng.randint(1, 3)):
        item = []
        for d in shape:
            item.append(rng.choice([["slice", None, None, None], ["slice", None, None, None], list(range(d)), rng.randrange(d)]))
        for _ in range(ninf):
            r = rng.random()
            if r < 0.6:
                item.append(["slice", rng.choice([None, 0, 0, 1]), rng.randint(2, N + 1), None])
            elif r < 0.85:
                item.append(sorted(rng.sample(range(N + 1), rng.randint(2, min(3, N + 1)))))
            else:
                item.append(rng.randint(0, N))
        lists = [k for k, e in enumerate(item) if isinstance(e, list) and not _is_slice(e)]
        if len(lists) > 1:  # keep at most one list so that broadcasting cannot fail
            for k in lists[1:]:
                item[k] = ["slice", None, (None if k < len(shape) else N + 1), None]
        reqs.append([rng.randrange(nser), item])
    return dict(kind="dependency", shape=list(shape), ninf=ninf, N=N, direction=direction, tables=tables, requests=reqs)


def run_dependency_case(case):
    from pymablock.series import BlockSeries

    fails = []
    shape, ninf = tuple(case["shape"]), case["ninf"]
    tabs = [{tuple(i): (tag, [(b, tuple(j)) for b, j in deps]) for i, tag, deps in t} for t in case["tables"]]
    # cache-free reference
    memo = {}

    def ref(b, i):
        if (b, i) not in memo:
            tag, deps = tabs[b][i]
            memo[(b, i)] = tag + sum(ref(b2, j) for b2, j in deps)
        return memo[(b, i)]

    calls = []
    series = []

    def make(b):
        def ev(*index):
            i = tuple(int(x) for x in index)
            calls.append((b, i))
            tag, deps = tabs[b][i]
            return tag + sum(series[b2][j] for b2, j in deps)

        return BlockSeries(eval=ev, shape=shape, n_infinite=ninf)

    for b in range(len(tabs)):
        series.append(make(b))
    for b, item in case["requests"]:
        pit = _py_item(item)
        D = np.empty(shape + (case["N"] + 1,) * ninf, dtype=object)
        for i in itertools.product(*(range(d) for d in D.shape)):
            D[i] = ref(b, i)
        want = D[pit]
        try:
            got = series[b][pit]
        except BaseException as e:  # noqa: BLE001
            fails.append(dict(what="request on a well-founded self-referential series raised %s" % type(e).__name__, input=case, item=item, observed=type(e).__name__))
            continue
        g = [int(x) for x in np.asarray(np.ma.getdata(got)).reshape(-1)] if isinstance(got, np.ndarray) else [int(got)]
        w = [int(x) for x in np.asarray(want).reshape(-1)]
        if g != w or tuple(np.shape(got)) != tuple(np.shape(want)):
            fails.append(dict(what="values of a self-referential series differ from the cache-free reference", input=case, item=item, expected=w, observed=g))
        dup = sorted({c for c in calls if calls.count(c) > 1})
        if dup:
            fails.append(
                dict(
                    what="element evaluated more than once while cached (no pop, no exception): %s"
                    % [[b2, list(i), calls.count((b2, i))] for b2, i in dup[:4]],
                    input=case,
                    item=item,
                    observed=[[b2, list(i), calls.count((b2, i))] for b2, i in dup],
                )
            )
            break
    return fails


def gen_paired_case(rng):
    """Paired (advanced) list indices on two or more axes - block axes and order axes - whose pairs do
    NOT fill the Cartesian box of the per-axis selections.  Elements of the box that numpy does not
    select raise when evaluated (with probability 1/2)."""
    while True:
        shape = rng.choice([(), (2,), (3,), (2, 2), (2, 3), (3, 3), (3, 2)])
        ninf = rng.choice([1, 2, 2, 3])
        if len(shape) + ninf >= 2:
            break
    nax = len(shape) + ninf
    N = 3
    sizes = list(shape) + [N + 1] * ninf
    k = rng.randint(2, min(3, nax))
    axes = sorted(rng.sample(range(nax), k))
    L = rng.choice([2, 2, 3])
    for _ in range(50):
        cols = {a: [rng.randrange(sizes[a]) for _ in range(L)] for a in axes}
        pairs = {tuple(cols[a][t] for a in axes) for t in range(L)}
        box = 1
        for a in axes:
            box *= len(set(cols[a]))
        if len(pairs) < box:
            break
    item = []
    for a in range(nax):
        if a in axes:
            item.append(cols[a])
        elif rng.random() < 0.5:
            item.append(rng.randrange(sizes[a]))
        else:
            lo = rng.randrange(sizes[a])
            item.append(["slice", lo, rng.randint(lo, sizes[a]), None])
    return dict(kind="paired", shape=list(shape), ninf=ninf, N=N, item=item, raise_outside=rng.random() < 0.5, tag0=rng.randint(1, 50))


def run_paired_case(case):
    from pymablock.series import BlockSeries

    fails = []
    shape, ninf, item = tuple(case["shape"]), case["ninf"], case["item"]
    nf = len(shape)
    pit = _py_item(item)
    ext = needed_extent(item[nf:])
    full = shape + tuple(ext)
    P = np.empty(full, dtype=object)
    for i in itertools.product(*(range(d) for d in full)):
        P[i] = i
    sel_arr = P[pit]
    selected = [tuple(x) for x in (sel_arr.reshape(-1) if isinstance(sel_arr, np.ndarray) else [sel_arr])]
    sel = set(selected)
    value = lambda i: case["tag0"] + sum((7 ** k) * x for k, x in enumerate(i))  # noqa: E731
    log = []

    def ev(*index):
        i = tuple(int(x) for x in index)
        log.append(i)
        if case["raise_outside"] and i not in sel:
            raise ValueError("element %r is not selected by the request" % (i,))
        return value(i)

    s = BlockSeries(eval=ev, shape=shape, n_infinite=ninf)
    try:
        got = s[pit]
    except BaseException as e:  # noqa: BLE001
        fails.append(dict(what="request failed with %s: an element outside the numpy-selected set was evaluated: %s" % (type(e).__name__, [list(i) for i in log if i not in sel][:3]), input=case, item=item, expected=sorted(map(list, sel)), observed=[list(i) for i in log]))
        got = None
    extra = sorted(set(log) - sel)
    missing = sorted(sel - set(log)) if got is not None else []
    if extra or missing:
        fails.append(dict(what="evaluated set differs from the set numpy indexing selects (extra %s, missing %s)" % ([list(i) for i in extra[:4]], [list(i) for i in missing[:4]]), input=case, item=item, expected=sorted(map(list, sel)), observed=sorted(map(list, set(log)))))
    if len(set(log)) != len(log):
        fails.append(dict(what="an element was evaluated twice", input=case, item=item))
    cached = {tuple(int(x) for x in k) for k in s._data}
    if got is not None and cached != sel:
        fails.append(dict(what="cache holds other keys than the selected elements after the request: extra %s" % sorted(map(list, cached - sel))[:4], input=case, item=item, expected=sorted(map(list, sel)), observed=sorted(map(list, cached))))
    if got is not None:
        want = [value(i) for i in selected]
        g = [int(x) for x in np.asarray(np.ma.getdata(got)).reshape(-1)] if isinstance(got, np.ndarray) else [int(got)]
        if g != want or tuple(np.shape(got)) != tuple(np.shape(sel_arr) if isinstance(sel_arr, np.ndarray) else ()):
            fails.append(dict(what="values differ from dense_array[item]", input=case, item=item, expected=want, observed=g))
    return fails


def gen_protocol_case(rng):
    r = rng.random()
    if r < 0.3:
        return gen_paired_case(rng)
    if r < 0.6:
        return gen_dependency_case(rng)
    shape = rng.choice([(), (2,), (2, 2), (2, 3)])
    ninf = rng.choice([1, 1, 2])
    kind = rng.choice(["indexerror", "indexerror", "recursion", "cleanup"])
    fin = [rng.randrange(d) for d in shape]
    if kind == "indexerror":
        bads = [-1, [0, -1], ["slice", None, None, None], ["slice", -1, 2, None], ["slice", 0, -1, None], ["slice", 1, None, 2], [-3, 1]]
        reqs = []
        for _ in range(3):
            orders = [rng.randint(0, 2) for _ in range(ninf)]
            orders[rng.randrange(ninf)] = rng.choice(bads)
            reqs.append(fin + orders)
        reqs.append(fin + [0] * (ninf + 1))
        if len(shape) + ninf > 1 and not (ninf and len(shape) + ninf - 1 == len(shape)):
            reqs.append((fin + [0] * ninf)[:-1])
        table = [[list(i), 5] for i in itertools.product(*([range(d) for d in shape] + [range(3)] * ninf))]
        return dict(kind=kind, shape=list(shape), ninf=ninf, table=table, requests=reqs)
    if kind == "recursion":
        idx = fin + [rng.randint(0, 2) for _ in range(ninf)]
        other = fin + [3] * ninf
        return dict(kind=kind, shape=list(shape), ninf=ninf, index=idx, other=other, mutual=rng.random() < 0.5)
    orders = [["slice", 0, 3, None] if k == 0 else rng.randint(0, 2) for k in range(ninf)]
    bad = fin + [rng.randint(0, 2)] + [o for o in orders[1:]]
    extent = [3] + [o + 1 for o in orders[1:]]
    return dict(kind=kind, shape=list(shape), ninf=ninf, index=bad, requests=[fin + orders], extent=extent, exc=rng.choice(["ValueError", "KeyboardInterrupt", "RuntimeError"]))


def run_getitem_api_case(case):
    """dimension_names / name / str(), their propagation to views, series without order axes
    (n_infinite=0) and scalar series (shape=()); replayable from the seed"""
    import random

    from pymablock.series import BlockSeries, zero

    rng = random.Random(case["seed"])
    fails = []

    def fail(what, **kw):
        fails.append(dict(what=what, input=case, **kw))

    value = lambda i: 1 + sum((5 ** k) * x for k, x in enumerate(i))  # noqa: E731
    shape = rng.choice([(), (2,), (2, 3), (3, 2)])
    n = rng.randint(1, 3)
    names = tuple("p_%s" % c for c in "abc"[:n]) if rng.random() < 0.7 else None
    name = "H_%d" % rng.randint(0, 9) if rng.random() < 0.7 else None
    calls = []

    def ev(*i):
        i = tuple(int(x) for x in i)
        calls.append(i)
        return value(i)

    s = BlockSeries(eval=ev, shape=shape, n_infinite=n, dimension_names=names, name=name)
    want_names = names or tuple("n_%d" % k for k in range(n))
    if tuple(s.dimension_names) != want_names:
        fail("dimension_names %r instead of %r" % (s.dimension_names, want_names))
    if name is not None and s.name != name:
        fail("name %r instead of %r" % (s.name, name))
    text = str(s)
    if s.name not in text or any(str(x) not in text for x in want_names) or any(str(d) not in text for d in shape):
        fail("str(series) = %r does not show name, finite shape and dimension names" % text)
    # views keep the number and the names of the order dimensions, and the same elements
    fin_int = tuple(rng.randrange(d) for d in shape)
    v = s[fin_int] if shape else s[()]
    orders = tuple(rng.randint(0, 3) for _ in range(n))
    if not isinstance(v, BlockSeries) or v.n_infinite != n or tuple(v.dimension_names) != want_names or tuple(v.shape) != ():
        fail("integer view has n_infinite %r, dimension_names %r, shape %r" % (getattr(v, "n_infinite", None), getattr(v, "dimension_names", None), getattr(v, "shape", None)))
    elif v[orders] != value(fin_int + orders):
        fail("integer view element differs from the element of the original", item=list(fin_int + orders))
    if shape:
        item = tuple(slice(None) if k else [d - 1, 0] for k, d in enumerate(shape))
        v2 = s[item]
        want_shape = np.empty(shape)[item].shape
        if not isinstance(v2, BlockSeries) or v2.n_infinite != n or tuple(v2.dimension_names) != want_names or tuple(v2.shape) != tuple(want_shape):
            fail("list/slice view has n_infinite %r, dimension_names %r, shape %r" % (getattr(v2, "n_infinite", None), getattr(v2, "dimension_names", None), getattr(v2, "shape", None)))
        else:
            D = np.empty(shape, dtype=object)
            for i in itertools.product(*(range(d) for d in shape)):
                D[i] = value(i + orders)
            sub = D[item]
            for f in itertools.product(*(range(d) for d in sub.shape)):
                if v2[f + orders] != sub[f]:
                    fail("list/slice view element %r differs from dense[item]" % (list(f + orders),))
                    break
    # a series without order axes: plain numpy indexing of the finite array, never a view
    shape0 = rng.choice([(), (2,), (2, 3)])
    log0 = []

    def ev0(*i):
        i = tuple(int(x) for x in i)
        log0.append(i)
        return zero if sum(i) % 3 == 2 else value(i)

    s0 = BlockSeries(eval=ev0, shape=shape0, n_infinite=0)
    if s0.dimension_names != ():
        fail("n_infinite=0 series has dimension_names %r" % (s0.dimension_names,))
    D0 = np.empty(shape0, dtype=object)
    for i in itertools.product(*(range(d) for d in shape0)):
        D0[i] = "zero" if sum(i) % 3 == 2 else value(i)
    items = [tuple(rng.randrange(d) for d in shape0), tuple(slice(None) for _ in shape0)]
    if len(shape0) == 2:
        items.append(([1, 0], slice(1, None)))
    for item in items:
        try:
            got = s0[item]
        except BaseException as e:  # noqa: BLE001
            fail("n_infinite=0 series: request %r raised %s" % (item, type(e).__name__))
            continue
        want = D0[item]
        if isinstance(got, BlockSeries):
            fail("n_infinite=0 series returned a view for %r" % (item,))
        elif isinstance(want, np.ndarray):
            g = [_elem(x) for x in np.ma.getdata(got).reshape(-1)]
            m = [bool(x) for x in np.ma.getmaskarray(got).reshape(-1)]
            w = list(want.reshape(-1))
            if g != w or m != [x == "zero" for x in w] or tuple(got.shape) != tuple(want.shape):
                fail("n_infinite=0 series: %r differs from the dense array" % (item,), expected=w, observed=g)
        elif _elem(got) != want:
            fail("n_infinite=0 series: element %r differs" % (item,), expected=want, observed=_elem(got))
    if len(set(log0)) != len(log0):
        fail("n_infinite=0 series: an element was evaluated twice")
    for bad in [tuple(0 for _ in shape0) + (0,), ()] if shape0 else [(0,)]:
        try:
            s0[bad]
            fail("n_infinite=0 series accepted a request with a wrong number of indices: %r" % (bad,))
        except IndexError:
            pass
        except BaseException as e:  # noqa: BLE001
            fail("%s instead of IndexError for a wrong number of indices %r" % (type(e).__name__, bad))
    return fails


def run_c19_case(case):
    if case["kind"] == "api":
        return run_getitem_api_case(case)
    if case["kind"] == "numpy":
        return run_getitem_case(case)
    if case["kind"] == "dependency":
        return run_dependency_case(case)
    if case["kind"] == "paired":
        return run_paired_case(case)
    return run_protocol_case(case)


def oracle_getitem(ctx, ncases=None):
    n = ncases or ctx.n(120, 2500)
    rng = ctx.rng
    failures, samples, dist = [], [], {}
    nontrivial = set()
    evaluations = 0
    for k in range(n):
        r0 = rng.random()
        case = dict(kind="api", seed=rng.randrange(10**9), shape=[], ninf=0) if r0 < 0.05 else gen_getitem_case(rng) if r0 < 0.57 else gen_protocol_case(rng)
        try:
            f = run_c19_case(case)
        except Exception as e:  # noqa: BLE001
            import traceback

            f = [dict(what="oracle could not run the case: %r" % (e,), input=case, detail=traceback.format_exc()[-800:])]
        failures += f
        evaluations += len(case.get("requests", [])) + len(case.get("views", [])) + 1
        dist[case["kind"]] = dist.get(case["kind"], 0) + 1
        if case["kind"] != "numpy" or any(any(isinstance(e, list) for e in it) for it in case["requests"]):
            nontrivial.add(core.sha(core.canon(case))[:16])
        if len(samples) < 3:
            samples.append(dict(kind=case["kind"], shape=case["shape"], ninf=case["ninf"], requests=case.get("requests", [])[:2]))
    return dict(
        evaluations=evaluations,
        nontrivial=len(nontrivial),
        rule="distinct cases that are protocol cases (IndexError / recursion / clean-up) or contain a list or slice request",
        samples=samples,
        distribution=dist,
        failures=failures,
    )
