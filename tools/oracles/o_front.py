"""Property oracles of the front end, on the implementation alone.

oracle_illposed(ctx)  C20: every ill-posed class raises ValueError/TypeError/NotImplementedError no
                      later than the first evaluation needing the quantity and never returns a value;
                      every accepted well-posed numeric case has only finite elements up to order 3.
oracle_formats(ctx)   C14: H_tilde, U, U† of block_diagonalize agree across container formats, value
                      types and subspace designations (defined in harness/k_formats.py, re-exported).
"""
import sys
from vlib import core

sys.path.insert(0, str(core.REPO))
from harness import k_validate as kv  # noqa: E402

# latest stage at which each class must have been rejected ('def' = at definition)
DEADLINE = dict(h0_offdiag="def", shared1=1, shared2=2, mask_equal="def", biorth="def", mask_asym="def",
                solver_fd="def", vecs_and_indices="def", herm_pairs="def", legacy_nonherm="def",
                fd_array_blocks="def", solver_single="def", unsupported_type="def",
                cross_overlap="def", cross_overlap_lr="def")


def stage_rank(s):
    return -1 if s == "def" else int(s)


def deadline(v):
    """earliest deadline over the damages of the case (None: no ill-posed class present)."""
    ds = []
    for d in v["damages"]:
        k = d["kind"]
        if k == "nonherm_term":
            n = sum(d["order"])
            ds.append("def" if n == 0 else n)
        elif k in DEADLINE:
            ds.append(DEADLINE[k])
    if kv.intrinsic_defect(v) is not None:
        ds.append("def")   # all-zero H_0 / unused declared symbol: also ill-posed, rejected at definition
    if not ds:
        return None
    return min(ds, key=stage_rank)


def judge(v, obs):
    """None if the implementation behaves as C20 demands, else a description."""
    dl = deadline(v)
    if dl is None:
        if obs["verdict"] != "accept":
            return "well-posed input rejected: %s at %s (%s)" % (obs["verdict"], obs["stage"], obs.get("msg"))
        if v["case"]["fmt"] in ("dense", "sparse") and not obs.get("finite", True):
            return "accepted well-posed numeric input has a non-finite element"
        return None
    if obs["verdict"] == "accept":
        return "ill-posed input (%s) answered with values up to order 2" % kv.summary(v)
    if obs["verdict"] not in kv.LISTED:
        return "ill-posed input (%s) raised %s (%s)" % (kv.summary(v), obs["verdict"], obs.get("msg"))
    if stage_rank(obs["stage"]) > stage_rank(dl):
        return "ill-posed input (%s) rejected only at order %s, deadline %s" % (kv.summary(v), obs["stage"], dl)
    return None


def oracle_illposed(ctx, ncases=None):
    n = ncases or ctx.n(90, 1500)
    vs = kv.stream(ctx.rng, n)
    failures, samples, nt = [], [], set()
    for v in vs:
        wellposed = deadline(v) is None
        obs = kv.observe(v, upto=3 if wellposed else 2, check_finite=wellposed)
        r = judge(v, obs)
        if r is not None:
            failures.append(dict(what=r, input=dict(kind="illposed", vcase=v), observed=obs))
        if not wellposed or v["case"]["fmt"] != "sympy":
            nt.add(core.canon(v))
        if len(samples) < 3:
            samples.append(dict(vcase=v, observed=obs))
    return dict(evaluations=len(vs), nontrivial=len(nt),
                rule="distinct ill-posed inputs (class x position x value type) plus distinct well-posed numeric inputs checked for finiteness to order 3",
                samples=samples, failures=failures)


def replay_illposed(inp):
    v = inp["vcase"]
    wellposed = deadline(v) is None
    obs = kv.observe(v, upto=3 if wellposed else 2, check_finite=wellposed)
    r = judge(v, obs)
    print("block_diagonalize on", kv.summary(v), v["case"]["fmt"], "->", obs, "|", r or "as demanded")
    return 1 if r else 0


def oracle_formats(ctx, *a, **kw):
    from harness import k_formats
    return k_formats.oracle_formats(ctx, *a, **kw)
