"""Property oracles of the front end, on the implementation alone.

oracle_illposed(ctx)  C20: every ill-posed class raises ValueError/TypeError/NotImplementedError no
                      later than the first evaluation needing the quantity and never returns a value;
                      every accepted well-posed numeric case has only finite elements up to order 3.
oracle_formats(ctx)   C14: H_tilde, U, U† of block_diagonalize agree across container formats, value
                      types and subspace designations (defined in harness/k_formats.py, re-exported).
"""
import sys
from vlib import core

sys.path.insert(0, str(core.REPO))
from harness import k_validate as kv  # noqa: E402

# latest stage at which each class must have been rejected ('def' = at definition)
DEADLINE = dict(h0_offdiag="def", shared1=1, shared2=2, mask_equal="def", biorth="def", mask_asym="def",
                solver_fd="def", vecs_and_indices="def", herm_pairs="def", legacy_nonherm="def",
                fd_array_blocks="def", solver_single="def", unsupported_type="def",
                cross_overlap="def", cross_overlap_lr="def")


for _k in kv.STRUCT:
    DEADLINE[_k] = 1 if _k in ("ragged1", "legacy_three_blocks", "atol_gap") else "def"


def stage_rank(s):
    return -1 if s == "def" else int(s)


def deadline(v):
    """earliest deadline over the damages of the case (None: no ill-posed class present)."""
    ds = []
    for d in v["damages"]:
        k = d["kind"]
        if k == "nonherm_term":
            n = sum(d["order"])
            ds.append("def" if n == 0 else n)
        elif k in DEADLINE:
            ds.append(DEADLINE[k])
    if kv.intrinsic_defect(v) is not None:
        ds.append("def")   # all-zero H_0 / unused declared symbol: also ill-posed, rejected at definition
    if not ds:
        return None
    return min(ds, key=stage_rank)


def judge(v, obs):
    """None if the implementation behaves as C20 demands, else a description."""
    dl = deadline(v)
    if dl is None:
        if obs["verdict"] != "accept":
            return "well-posed input rejected: %s at %s (%s)" % (obs["verdict"], obs["stage"], obs.get("msg"))
        if v["case"]["fmt"] in ("dense", "sparse") and not obs.get("finite", True):
            return "accepted well-posed numeric input has a non-finite element"
        want = kv.EXPECT_WARNING.get(v.get("note") or "")
        if want and want not in obs.get("warnings", []):
            return "accepted input (%s) without the %s the code promises" % (v.get("note"), want)
        return None
    if obs["verdict"] == "accept":
        return "ill-posed input (%s) answered with values up to order 2" % kv.summary(v)
    if obs["verdict"] not in kv.LISTED:
        return "ill-posed input (%s) raised %s (%s)" % (kv.summary(v), obs["verdict"], obs.get("msg"))
    if stage_rank(obs["stage"]) > stage_rank(dl):
        return "ill-posed input (%s) rejected only at order %s, deadline %s" % (kv.summary(v), obs["stage"], dl)
    if obs.get("repeat") and any(r not in kv.LISTED for r in obs["repeat"]):
        return "ill-posed input (%s) rejected at order %s, but the repeated request of element %s was answered: %s" % (
            kv.summary(v), obs["stage"], obs.get("element"), obs["repeat"])
    return None


def otbs_direct(rng):
    """operator_to_BlockSeries called directly: its own rejections (mutually exclusive designations,
    Hermitian (right, left) pairs, blocked input with a designation, non-square block series).
    Returns a list of failure descriptions."""
    import warnings
    import numpy as np
    from pymablock.block_diagonalization import operator_to_BlockSeries
    from pymablock.series import BlockSeries
    out = []
    v = kv.make_vcase(rng, [], fmt=rng.choice(["dense", "sparse", "sympy"]))
    v["designation"] = "eigvecs"
    ham, kw = kv.build_call(v)
    vecs = kw["subspace_eigenvectors"]
    sub = list(v["case"]["sub"])
    nparam = v["case"]["nparam"]
    trials = [
        ("hermitian (right, left) pairs", lambda: operator_to_BlockSeries(ham, subspace_eigenvectors=[(vecs[0], vecs[0])] + list(vecs[1:]), hermitian=True)),
        ("both designations", lambda: operator_to_BlockSeries(ham, subspace_eigenvectors=vecs, subspace_indices=sub)),
        ("blocked input with indices", lambda: operator_to_BlockSeries({(0,) * nparam: [[np.eye(1)]]}, subspace_indices=[0])),
        ("non-square block series", lambda: operator_to_BlockSeries(BlockSeries(data={(0, 0) + (0,) * nparam: np.eye(1)}, shape=(1, 2), n_infinite=nparam))),
        ("unsupported container", lambda: operator_to_BlockSeries(2.5, subspace_indices=sub)),
    ]
    for name, f in trials:
        with warnings.catch_warnings():
            warnings.simplefilter("ignore")
            try:
                f()
                out.append("operator_to_BlockSeries accepted: " + name)
            except (ValueError, TypeError, NotImplementedError):
                pass
            except Exception as e:  # noqa: BLE001
                out.append("operator_to_BlockSeries (%s) raised %s" % (name, type(e).__name__))
    return out


def oracle_illposed(ctx, ncases=None):
    n = ncases or ctx.n(150, 1500)
    vs = kv.stream(ctx.rng, n)
    failures, samples, nt = [], [], set()
    for v in vs:
        wellposed = deadline(v) is None
        obs = kv.observe(v, upto=3 if wellposed else 2, check_finite=wellposed)
        r = judge(v, obs)
        if r is not None:
            failures.append(dict(what=r, input=dict(kind="illposed", vcase=v), observed=obs))
        if any(d["kind"] in ("shared1", "shared2") for d in v["damages"]) and v["solver"] is None and not v["case"]["fully"]:
            # the same ill-posed problem with a solver the user built with solve_sylvester_diagonal
            import copy
            v2 = copy.deepcopy(v)
            v2["solver"] = "diag_user"
            v2["case"]["fully"] = None
            if max(v2["case"]["sub"]) >= 1:
                obs2 = kv.observe(v2, upto=2)
                r2 = judge(v2, obs2)
                if r2 is not None:
                    failures.append(dict(what="user-built solve_sylvester_diagonal: " + r2, input=dict(kind="illposed", vcase=v2), observed=obs2))
        if not wellposed or v["case"]["fmt"] != "sympy":
            nt.add(core.canon(v))
        if len(samples) < 3:
            samples.append(dict(vcase=v, observed=obs))
    extra = 0
    for _ in range(ctx.n(3, 30)):
        for msg in otbs_direct(ctx.rng):
            failures.append(dict(what=msg, input=dict(kind="otbs_direct")))
        extra += 5
    return dict(evaluations=len(vs) + extra, nontrivial=len(nt),
                rule="distinct ill-posed inputs (class x position x value type) plus distinct well-posed numeric inputs checked for finiteness to order 3",
                samples=samples, failures=failures)


def replay_illposed(inp):
    if inp.get("kind") == "otbs_direct":
        import random
        msgs = [m for s_ in range(20) for m in otbs_direct(random.Random(s_))]
        print("operator_to_BlockSeries direct rejections:", msgs or "all raised")
        return 1 if msgs else 0
    v = inp["vcase"]
    wellposed = deadline(v) is None
    obs = kv.observe(v, upto=3 if wellposed else 2, check_finite=wellposed)
    r = judge(v, obs)
    print("block_diagonalize on", kv.summary(v), v["case"]["fmt"], "->", obs, "|", r or "as demanded")
    return 1 if r else 0


def oracle_formats(ctx, *a, **kw):
    from harness import k_formats
    return k_formats.oracle_formats(ctx, *a, **kw)
