"""Independent direct interpreter of the series mini-language (property oracle of C09).

Works from the translator's JSON form of a program.  No cache protocol, no deletion, no
Hermitian shortcut, no sentinel, no cost ordering: mathematical values only (2x2 sympy
matrices).  An element that is (transitively) defined in terms of itself is "undefined"
(Bottom); a product term is 0 as soon as one factor is 0, even if the other is undefined - the
only non-strictness of the language, which is what makes the shipped recurrences well founded.
A memo of COMPLETED values keeps the recursion polynomial; it is not a model of the library's
cache (never invalidated, never observed).
"""
import itertools
import sys

from vlib import core

sys.path.insert(0, str(core.REPO))
import sympy  # noqa: E402


class Bottom(Exception):
    pass


ZERO = sympy.zeros(2, 2)
ONE = sympy.eye(2)


def K(i):
    return sympy.Matrix([[1, i + 1], [0, 1]])


def spec_fn(f, args, idx, diag_custom, extra=None):
    if extra and f in extra:
        return extra[f](args, idx)
    if f == "diag":
        return K(idx[0] + 1) * args[0] if diag_custom else args[0]
    if f == "f_scale":
        return 3 * args[0]
    if f == "f_lmul":
        return K(idx[0]) * args[0]
    if f == "g_mul":
        return args[0] * args[1]
    if f == "h_cond":
        return ZERO if idx[0] == 1 else args[0]
    if f == "offdiag":
        return ZERO if idx[0] == 0 else args[0]
    raise KeyError(f)


def accesses(f, idx):
    if f == "h_cond":
        return idx[0] != 1
    if f == "offdiag":
        return idx[0] != 0
    return True


class Interp:
    def __init__(self, js, inputs, env, nb, np_, gflags=(), rflags=None, hasoff=False, diag_custom=False, extra_fns=None):
        """env(name, idx) -> sympy Matrix (the mathematical value of the input element)"""
        self.series = {s["name"]: s for s in js["series"]}
        self.products = {" @ ".join(p["factors"]): p for p in js["products"]}
        self.inputs, self.env, self.nb, self.np = set(inputs), env, nb, np_
        self.gflags, self.rflags = set(gflags), rflags or {}
        self.hasoff, self.diag_custom, self.extra = hasoff, diag_custom, extra_fns
        self.memo, self.stack = {}, set()

    def get(self, key, idx):
        k = (key, idx)
        if k in self.memo:
            return self.memo[k]
        if k in self.stack:
            raise Bottom()
        self.stack.add(k)
        try:
            v = self.rhs(key, idx)
        finally:
            self.stack.discard(k)
        self.memo[k] = v
        return v

    def flag(self, c, idx):
        return (c[1] in self.gflags) if c[0] == "FlagGlobal" else (idx[0] in self.rflags.get(c[1], []))

    def series_arg(self, f, s, idx):
        return self.get(s, idx) if accesses(f, idx) else ZERO

    def expr(self, e, idx):
        t = e[0]
        if t == "Lit":
            return self.get(e[1], idx)
        if t == "Adj":
            return self.get(e[1], (idx[1], idx[0]) + idx[2:]).T
        if t == "EZero":
            return ZERO
        if t == "Neg":
            return -self.expr(e[1], idx)
        if t == "Add":
            return self.expr(e[1], idx) + self.expr(e[2], idx)
        if t == "Sub":
            return self.expr(e[1], idx) - self.expr(e[2], idx)
        if t == "DivInt":
            return self.expr(e[1], idx) / e[2]
        if t == "Call":
            args = [self.series_arg(e[1], a[1], idx) if a[0] == "ArgSeries" else self.expr(a[1], idx) for a in e[2]]
            return spec_fn(e[1], args, idx, self.diag_custom, self.extra)
        if t == "IfFlag":
            return self.expr(e[2], idx) if self.flag(e[1], idx) else self.expr(e[3], idx)
        raise ValueError(t)

    def wrapped(self, f, e, idx):
        x = self.series_arg(f, e[1], idx) if e[0] == "Lit" else self.expr(e, idx)
        return spec_fn(f, [x], idx, self.diag_custom, self.extra)

    def product(self, k1, k2, idx):
        i, j, n = idx[0], idx[1], idx[2:]
        acc = ZERO
        for mid in range(self.nb):
            for m1 in itertools.product(*(range(x + 1) for x in n)):
                m2 = tuple(a - b for a, b in zip(n, m1))
                vals = []
                for key, ix in ((k1, (i, mid) + m1), (k2, (mid, j) + m2)):
                    try:
                        vals.append(self.get(key, ix))
                    except Bottom:
                        vals.append(None)
                if any(v is not None and v == ZERO for v in vals):
                    continue
                if any(v is None for v in vals):
                    raise Bottom()
                acc = acc + vals[0] * vals[1]
        return acc

    def rhs(self, key, idx):
        if isinstance(key, tuple):  # inner product of the first k factors
            p, k = key
            fs = self.products[p]["factors"]
            return self.product(fs[0] if k == 2 else (p, k - 1), fs[k - 1], idx)
        if key in self.products:
            fs = self.products[key]["factors"]
            m = len(fs)
            return self.product(fs[0] if m == 2 else (key, m - 1), fs[m - 1], idx)
        if key in self.series:
            s = self.series[key]
            i, j, n = idx[0], idx[1], idx[2:]
            if not any(n):
                st = s["start"]
                if st[0] == "StartZero":
                    return ZERO
                if st[0] == "StartOne" and i == j:
                    return ONE
                if st[0] == "StartInput" and st[1] in self.inputs:
                    return self.env(st[1], idx)
            acc = ZERO
            for l in s["body"]:
                if l[0] == "Marker":
                    if i > j:
                        a = self.get(key, (j, i) + n).T
                        return acc + (a if l[1] == "Herm" else -a)
                    continue
                c, e = l[1], l[2]
                if c == "Default":
                    acc = acc + self.expr(e, idx)
                elif c == "Diagonal":
                    if i == j:
                        acc = acc + self.wrapped("diag", e, idx)
                elif c == "Offdiagonal":
                    if i != j:
                        acc = acc + self.expr(e, idx)
                    elif self.hasoff:
                        acc = acc + self.wrapped("offdiag", e, idx)
            return acc
        if key in self.inputs:
            return self.env(key, idx)
        raise KeyError(key)


def oracle_interp(ctx):
    """series_computation vs the interpreter on ALL series names (outputs, non-outputs, products, inputs)"""
    from harness import k_seriescomp as KS
    from harness import proggen as PG
    from pymablock.series import one, zero

    rng = ctx.rng
    n_gen, n_ship = ctx.n(110, 600), ctx.n(20, 100)
    ship = KS.shipped_programs()
    cases = []
    for k in range(n_ship):
        p = ship[k % 2]
        w = KS.shipped_world(rng, p["name"], max_order=3)
        if p["name"] == "main":
            # the product "U'† @ U'" is declared hermitian: the shortcut is valid (U'† is the adjoint of
            # U') only if diag / offdiag / the solver keep (anti)hermiticity; the stand-in solver of this
            # harness does not on diagonal blocks, so the oracle uses the scope without offdiag / custom diag
            w["hasoff"] = False
            w["diag_custom"] = False
        cases.append((p, p["fn"], w))
    for k in range(n_gen):
        p = PG.random_program(rng, idx=10000 + k)
        cases.append((p, PG.load_function(p), KS.random_world(rng, p, max_order=3)))
    evaluations = nontrivial = undefined = raised = 0
    failures, samples = [], []
    for p, fn, w in cases:
        f = check_case(p, fn, w, rng, ctx.n(12, 20))
        evaluations += f["evaluations"]; nontrivial += f["nontrivial"]; undefined += f["undefined"]; raised += f["raised"]
        failures += f["failures"]
        if len(samples) < 2:
            samples.append(dict(program=p["name"], source=p["source"], requests=f["requests"][:5]))
    PG.cleanup()
    return dict(evaluations=evaluations, nontrivial=nontrivial,
                rule="requests at total order >= 2 whose value is defined in the interpreter; undefined=%d raised=%d" % (undefined, raised),
                samples=samples, failures=failures)


def check_case(p, fn, w, rng, nreq, requests=None):
    from harness import k_seriescomp as KS
    from harness import proggen as PG
    from pymablock.series import one, zero

    if p.get("shipped"):
        w.setdefault("extra_scope", KS.shipped_scope(w))
        w["extra_scope"]["solve_sylvester"] = PG.scope_functions()["f_lmul"]
    series, lin, inputs = KS.build(p, fn, w)

    def env(x, idx):
        v = w["env"].get((x, idx))
        return ZERO if v is None else PG.to_sympy(v)

    extra = {"solve_sylvester": lambda args, idx: K(idx[0]) * args[0]} if p.get("shipped") else None
    it = Interp(p["json"], p["inputs"], env, w["nb"], w["np"], gflags=w["gflags"], rflags=w["rflags"],
                hasoff=w["hasoff"], diag_custom=w["diag_custom"], extra_fns=extra)
    names = sorted(series.keys())
    if requests is None:
        mt = 3 if w["np"] == 1 else 2
        requests = [tuple(r) for r in KS.random_schedule(rng, names, w["nb"], w["np"], mt, nreq)]
        if p.get("stress_pair"):
            a, b = p["stress_pair"]
            blk = (rng.randrange(w["nb"]), rng.randrange(w["nb"]))
            z = (0,) * w["np"]
            requests = [("tab", a, blk + z), ("tab", b, blk + z), ("tab", a, blk + z)] + requests
        if p.get("herm_long") and p["herm_long"] in names:
            z = (0,) * (w["np"] - 1)
            requests = [("tab", p["herm_long"], (1, 0, 2) + z), ("tab", p["herm_long"], (1, 1, 2) + z),
                        ("tab", p["herm_long"], (0, 1, 2) + z)] + requests
    out = dict(evaluations=0, nontrivial=0, undefined=0, raised=0, failures=[], requests=[])
    for (_, name, idx) in requests:
        idx = tuple(idx)
        out["evaluations"] += 1
        try:
            v = series[name][idx]
        except Exception as e:  # noqa: BLE001
            out["raised"] += 1
            if isinstance(e, RuntimeError):
                # recursion on an element that the direct interpretation defines
                try:
                    sys.setrecursionlimit(20000)
                    ref = it.get(name, idx)
                except Bottom:
                    continue
                out["failures"].append(dict(
                    what="series_computation raised RuntimeError at %s%s where the direct interpretation is defined" % (name, list(idx)),
                    input=dict(source=p["source"], shipped=p["name"] if p.get("shipped") else None,
                               world=PG.world_to_json(w), request=["tab", name, list(idx)],
                               history=[[r[0], r[1], list(r[2])] for r in requests]),
                    impl="RuntimeError", spec=str(ref)))
                break
            continue
        v = ZERO if v is zero else ONE if v is one else sympy.Matrix(v)
        try:
            sys.setrecursionlimit(20000)
            ref = it.get(name, idx)
        except Bottom:
            out["undefined"] += 1
            continue
        out["requests"].append([name, list(idx)])
        if sum(idx[2:]) >= 2:
            out["nontrivial"] += 1
        if sympy.simplify(v - ref) != ZERO:
            out["failures"].append(dict(
                what="series_computation value differs from the direct interpretation at %s%s" % (name, list(idx)),
                input=dict(source=p["source"], shipped=p["name"] if p.get("shipped") else None,
                           world=PG.world_to_json(w), request=["tab", name, list(idx)],
                           history=[[r[0], r[1], list(r[2])] for r in requests]),
                impl=str(v), spec=str(ref)))
            break
    # multi-element requests (slices / lists) on any name: every element against the interpreter, no exception
    if not out["failures"] and requests and nreq:
        shape_hint = (w["nb"], w["nb"]) + (5,) * w["np"]
        for name, spec in KS.random_multi_requests(rng, names, w["nb"], w["np"], 2):
            o, elems = KS.observe_multi(series, name, spec, shape_hint)
            out["evaluations"] += 1
            refs = []
            try:
                refs = [it.get(name, e) for e in elems]
            except Bottom:
                continue
            inp = dict(source=p["source"], shipped=p["name"] if p.get("shipped") else None, world=PG.world_to_json(w),
                       multi_request=[name, spec])
            if o[0] == "exn":
                if o[1] in ("RuntimeError", "KeyError"):
                    out["failures"].append(dict(what="the multi-element request %s%s raised %s where the direct interpretation defines every element" % (name, spec, o[1]), input=inp))
                    break
                continue
            for v, ref in zip(o[1], refs):
                vm = ZERO if v == "zero" else ONE if v == "one" else (PG.to_sympy(v) if isinstance(v, tuple) and len(v) == 4 and v[0] != "other" else None)
                if vm is None or sympy.simplify(vm - ref) != ZERO:
                    out["failures"].append(dict(what="an element of the multi-element request %s%s differs from the direct interpretation" % (name, spec), input=inp))
                    break
    return out


def replay_case(inp):
    """re-run a failure input; returns the list of failures found"""
    from harness import k_seriescomp as KS
    from harness import proggen as PG

    w = PG.world_from_json(inp["world"])
    if inp.get("shipped"):
        p = [q for q in KS.shipped_programs() if q["name"] == inp["shipped"]][0]
        fn = p["fn"]
    else:
        p = PG.program_from_source(inp["source"])
        fn = PG.load_function(p)
    reqs = [(r[0], r[1], tuple(r[2])) for r in inp.get("history", [inp["request"]])]
    import random

    return check_case(p, fn, w, random.Random(0), 0, requests=reqs)["failures"]


# ------------------------------------------------------------------ constructs outside the translated fragment

EXTRA_SOURCES = {
    # (legal, undocumented corner) a binary operation that is neither +, - nor /: left untouched by the transformers
    "mult": '''def extra_mult():
    with "Y":
        "A" * 2 + 3 * "A"
    return "Y"
''',
    # a callable that is not a plain name (only compilable under a unary minus, a division or as an argument: as a
    # direct operand of + / - the compiler raises AttributeError) is called with the evaluated element, no index
    "subscripted_callable": '''def extra_call():
    with "Y":
        -fns[0]("A")
    return "Y"
''',
    # NOT in the language: an `if` with an unknown condition, `pass` in a series definition
    "unknown_condition": '''def extra_cond():
    with "Y":
        if somewhere:
            "A"
    return "Y"
''',
    "pass_in_series": '''def extra_pass():
    with "Y":
        pass
    return "Y"
''',
}


def oracle_extras(ctx):
    """implementation-only checks of constructs that the translator rejects (fail-closed): values of the two
    tolerated corners are compared with hand-written expectations; programs outside the language and inconsistent
    input series must be REJECTED (any exception) rather than answered"""
    from harness import proggen as PG
    from pymablock.algorithm_parsing import series_computation
    from pymablock.series import BlockSeries, zero

    rng = ctx.rng
    failures, evaluations, samples = [], 0, []

    def load(name):
        prog = dict(name=EXTRA_SOURCES[name].split("(")[0].split()[1], source=EXTRA_SOURCES[name])
        return PG.load_function(prog)

    def mk_input(nm, np_=1, dims=None, table=None):
        table = table if table is not None else {}

        def ev(*idx):
            idx = tuple(int(i) for i in idx)
            if idx not in table:
                table[idx] = PG.to_sympy(PG.rand_matrix(rng))
            return table[idx]

        return BlockSeries(eval=ev, shape=(2, 2), n_infinite=np_, name=nm, dimension_names=dims), table

    for _ in range(ctx.n(3, 20)):
        A, tab = mk_input("A")
        idx = (rng.randrange(2), rng.randrange(2), rng.randrange(3))
        # multiplication by integer literals
        evaluations += 1
        series, _ = series_computation({"A": A}, load("mult"))
        got = series["Y"][idx]
        if sympy.simplify(sympy.Matrix(got) - 5 * tab[idx]) != ZERO:
            failures.append(dict(what='value of "A" * 2 + 3 * "A" is not 5 A', input=dict(extra="mult", index=list(idx), A=str(tab[idx])), impl=str(got)))
        # subscripted callable
        evaluations += 1
        A, tab = mk_input("A")
        series, _ = series_computation({"A": A}, load("subscripted_callable"), scope={"fns": [lambda x: 4 * x]})
        got = series["Y"][idx]
        if sympy.simplify(sympy.Matrix(got) + 4 * tab[idx]) != ZERO:
            failures.append(dict(what='value of -fns[0]("A") with fns[0] = 4x is not -4 A', input=dict(extra="subscripted_callable", index=list(idx)), impl=str(got)))
    # outside the language: must not be answered
    for name in ("unknown_condition", "pass_in_series"):
        evaluations += 1
        A, tab = mk_input("A")
        try:
            series, _ = series_computation({"A": A}, load(name), scope={"somewhere": True})
            v = series["Y"][0, 0, 1]
        except Exception:  # noqa: BLE001
            continue
        samples.append(dict(extra=name, note="accepted by the implementation", value=str(v)))
    # inconsistent input series must be rejected
    for kind in ("dimension_names", "n_infinite"):
        evaluations += 1
        A, _ = mk_input("A", np_=1, dims=("x",))
        # (a series may carry fewer names than infinite dimensions: same names, different n_infinite)
        C, _ = mk_input("C", np_=1 if kind == "dimension_names" else 2, dims=("y",) if kind == "dimension_names" else ("x",))
        try:
            series_computation({"A": A, "C": C}, load("mult"))
        except ValueError:
            continue
        except Exception as e:  # noqa: BLE001
            samples.append(dict(extra=kind, note="rejected with %s" % type(e).__name__))
            continue
        failures.append(dict(what="series_computation accepted input series with different %s" % kind, input=dict(extra=kind)))
    PG.cleanup()
    return dict(evaluations=evaluations, nontrivial=evaluations,
                rule="hand-written programs outside the translated fragment (integer multiplication, subscripted callable, unknown condition, pass, inconsistent inputs)",
                samples=samples[:3], failures=failures)


def replay_extra(inp):
    class C:
        tier = "quick"
        import random as _r
        rng = _r.Random(0)

        @staticmethod
        def n(q, t):
            return q

    return oracle_extras(C())["failures"]
