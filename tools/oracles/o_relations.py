"""Covariance / bookkeeping relations C13 and C15 tested on the real implementation.

For every relation a random exact problem (harness/gen.py) is transformed into a related
problem, both are run through the real `block_diagonalize`, and ALL elements of H_tilde, U and
U† (U_inv in non-Hermitian mode) up to the requested total order are compared exactly with
the predicted transform of the base result.  Everything is compared in the ORIGINAL basis of
the problem (the block-ordered layout of harness/implrun.py is undone first), so relabelling
blocks or permuting basis states has a well-defined prediction.

C13 (order bookkeeping):  scale, merge, permute, vanishing, power
C15 (covariance):         relabel, basis_perm, rotation, conjugation, shift, pos_scale, direct_sum

A failure input is `dict(relation=..., base=[case, ...], params=..., keyfmt=...)`; it is JSON-able
and `check_relation(**input)` replays it.

The way the Hamiltonian is handed to the library is varied as well (`keyfmt`): dict with order
tuples, list `[h0, h1, ...]` (first-order problems), dict with symbolic monomial keys, or one
SymPy matrix expression with `symbols=` (exact SymPy problems only), so that the normalisation
of parameter names/orders takes part in the relations.
"""
import itertools
import json
import random
import time
import traceback
import warnings
from fractions import Fraction as Fr

from harness import gq, gen, implrun   # implrun puts core.REPO on sys.path
from harness.gq import G

NAMES = ("H_tilde", "U", "U†")
C13_RELATIONS = ("scale", "merge", "permute", "vanishing", "power")
C15_RELATIONS = ("relabel", "basis_perm", "rotation", "conjugation", "shift", "pos_scale", "direct_sum")


# ---------------------------------------------------------------------------
# running the implementation with several input formats

def _matrix_value(M, fmt):
    import scipy.sparse as sp
    if fmt == "sympy":
        return implrun.to_sympy(M)
    if fmt == "dense":
        return implrun.to_numpy(M)
    if fmt == "sparse":
        return sp.csr_array(implrun.to_numpy(M))
    raise ValueError(fmt)


def keyfmt_applicable(case, keyfmt):
    orders = [gen.unkey(k) for k in case["H"]]
    if keyfmt == "tuple":
        return True
    if keyfmt == "list":
        # list input = unperturbed + exactly one first-order term per parameter
        want = {tuple(int(i == j) for j in range(case["nparam"])) for i in range(case["nparam"])}
        return {o for o in orders if sum(o)} == want
    if keyfmt == "monomial":
        # every parameter must occur in some key, otherwise the library cannot know about it
        return all(any(o[i] for o in orders) for i in range(case["nparam"]))
    if keyfmt == "expr":
        if case["fmt"] != "sympy":
            return False
        # every parameter must really occur in the expression
        return all(any(o[i] and not gq.is_zero(gq.dec(case["H"][gen.key(o)])) for o in orders)
                   for i in range(case["nparam"]))
    raise ValueError(keyfmt)


# alphabetical order = parameter position, but neither the order by length nor by (length, name)
MONO_NAMES = ["pa_long", "pb", "pc0", "pd_x"]


def run_case(case, keyfmt="tuple", symnames=None):
    """Run block_diagonalize; returns {name: gq.Series} in the ORIGINAL basis of the case.

    `symnames`: names of the perturbative symbols by PARAMETER POSITION (used by the expression format,
    where the order of the parameters is the order of the explicit `symbols=` list and must not depend
    on the names; the monomial-key format always uses names in alphabetical order because there the
    library defines the parameter order by the names)."""
    import sympy
    from pymablock import block_diagonalize
    nb, sizes, perm, offs = implrun.layout(case)
    nparam = case["nparam"]
    fmt = case["fmt"]
    terms = {gen.unkey(k): gq.dec(M) for k, M in case["H"].items()}
    kw = dict(subspace_indices=case["sub"], fully_diagonalize=implrun.build_fully(case), hermitian=case["hermitian"])
    names = list(symnames) if (symnames and keyfmt == "expr") else MONO_NAMES[:nparam]
    assert len(names) == nparam and len(set(names)) == nparam
    syms = [sympy.Symbol(nm, real=True) for nm in names]
    if keyfmt == "tuple":
        H = {n: _matrix_value(M, fmt) for n, M in terms.items()}
    elif keyfmt == "list":
        H = [_matrix_value(terms[(0,) * nparam], fmt)]
        for i in range(nparam):
            H.append(_matrix_value(terms[tuple(int(i == j) for j in range(nparam))], fmt))
    elif keyfmt == "monomial":
        H = {}
        for n, M in terms.items():
            mono = sympy.Integer(1)
            for s, e in zip(syms, n):
                mono = mono * s ** e
            H[mono] = _matrix_value(M, fmt)
    elif keyfmt == "expr":
        dim = len(case["sub"])
        H = sympy.zeros(dim, dim)
        for n, M in terms.items():
            mono = sympy.Integer(1)
            for s, e in zip(syms, n):
                mono = mono * s ** e
            H = H + mono * implrun.to_sympy(M)
        kw["symbols"] = syms
    else:
        raise ValueError(keyfmt)
    dim = len(case["sub"])
    out = {}
    with warnings.catch_warnings():
        warnings.simplefilter("ignore")
        res = block_diagonalize(H, **kw)
        for name, S in zip(NAMES, res):
            ser = gq.Series(dim, nparam)
            for n in gq.orders_upto(nparam, case["N"]):
                M = gq.zeros(dim)
                nz = False
                for i in range(nb):
                    for j in range(nb):
                        v = S[(i, j) + tuple(n)]
                        if keyfmt == "expr" and isinstance(v, sympy.MatrixBase):
                            # the expression format returns coefficient * monomial
                            v = v.subs({s: 1 for s in syms})
                        B = implrun.from_value(v, (sizes[i], sizes[j]))
                        for a in range(sizes[i]):
                            for b in range(sizes[j]):
                                if not B[a][b].is_zero():
                                    nz = True
                                    # block-ordered position (offs[i]+a) is original state perm[offs[i]+a]
                                    M[perm[offs[i] + a]][perm[offs[j] + b]] = B[a][b]
                if nz:
                    ser.d[tuple(n)] = M
            out[name] = ser
    return out


# ---------------------------------------------------------------------------
# helpers on cases

def _energies(case):
    E = gq.dec(case["H"][gen.key((0,) * case["nparam"])])
    return [E[i][i] for i in range(len(E))]


def elim_full(case):
    """dim x dim 0/1 matrix in the ORIGINAL basis: 1 = eliminated by the `fully` specification
    inside a diagonal block (dict form only). Returns None if `fully` is not a dict."""
    f = case["fully"]
    if not isinstance(f, dict):
        return None
    sub = case["sub"]
    dim = len(sub)
    Efull = [[0] * dim for _ in range(dim)]
    for b, m in f.items():
        idx = [i for i in range(dim) if sub[i] == int(b)]
        for a, i in enumerate(idx):
            for c, j in enumerate(idx):
                Efull[i][j] = int(bool(m[a][c]))
    return Efull


def fully_from_full(Efull, sub, blocks):
    out = {}
    for b in blocks:
        idx = [i for i in range(len(sub)) if sub[i] == int(b)]
        out[str(b)] = [[Efull[i][j] for j in idx] for i in idx]
    return out


def kept_full(case):
    """dim x dim kept mask (1 = kept) in the ORIGINAL basis (same semantics as implrun.keep_mask)."""
    sub = case["sub"]
    dim = len(sub)
    nb = max(sub) + 1
    E = _energies(case)
    f = case["fully"]
    if f is None and nb == 1:
        f = [0]
    Ef = elim_full(case) if isinstance(f, dict) else None
    K = [[0] * dim for _ in range(dim)]
    for i in range(dim):
        for j in range(dim):
            if sub[i] != sub[j]:
                continue
            b = sub[i]
            if f is None or (isinstance(f, list) and b not in f) or (isinstance(f, dict) and str(b) not in f):
                K[i][j] = 1
            elif isinstance(f, list):
                K[i][j] = 1 if E[i] == E[j] else 0
            else:
                K[i][j] = 1 - Ef[i][j]
    return K


def in_nh_class(case):
    """domain of validity of the non-Hermitian similarity theorems (Props/C05, *_nh_partial): every
    kept off-diagonal matrix element connects equal unperturbed energies"""
    K = kept_full(case)
    E = _energies(case)
    n = len(E)
    return not any(K[p][q] and p != q and E[p] != E[q] for p in range(n) for q in range(n))


def _map_H(case, fn):
    return {k: gq.enc(fn(gen.unkey(k), gq.dec(M))) for k, M in case["H"].items()}


def _rekey_H(case, keyfn, nparam_new):
    """move the term of order n to order keyfn(n); terms landing on the same key are added"""
    out = {}
    for k, M in case["H"].items():
        n2 = tuple(keyfn(gen.unkey(k)))
        assert len(n2) == nparam_new
        M = gq.dec(M)
        out[n2] = gq.add(out[n2], M) if n2 in out else M
    return {gen.key(n): gq.enc(M) for n, M in out.items()}


def _frac(s):
    return Fr(s)


def _pow(c, e):
    return c ** e


# ---------------------------------------------------------------------------
# the relations: draw parameters, build the transformed case, predict

def draw_params(rel, bases, rng):
    """returns JSON-able params, or None if the relation does not apply to this base case"""
    case = bases[0]
    k = case["nparam"]
    dim = len(case["sub"])
    exactfloat = case["fmt"] != "sympy"
    if rel == "scale":
        if exactfloat:
            pool = [Fr(2), Fr(-1), Fr(1, 2), Fr(-2), Fr(1)]
        else:
            pool = [Fr(2), Fr(-1), Fr(1, 2), Fr(-3, 2), Fr(3), Fr(2, 3), Fr(1)]
        cs = [rng.choice(pool) for _ in range(k)]
        if all(c == 1 for c in cs):
            cs[rng.randrange(k)] = Fr(2)
        return dict(c=[str(c) for c in cs])
    if rel == "merge":
        if k < 2:
            return None
        i, j = sorted(rng.sample(range(k), 2))
        return dict(i=i, j=j)
    if rel == "permute":
        if k < 2:
            return None
        s = list(range(k))
        while s == list(range(k)):
            rng.shuffle(s)
        return dict(sigma=s)
    if rel == "vanishing":
        return dict(pos=rng.randrange(k + 1), explicit=rng.random() < 0.6)
    if rel == "power":
        return dict(idx=rng.randrange(k), p=rng.choice([2, 2, 3]))
    if rel == "relabel":
        nb = max(case["sub"]) + 1
        if nb < 2:
            return None
        s = list(range(nb))
        while s == list(range(nb)):
            rng.shuffle(s)
        return dict(sigma=s)
    if rel == "basis_perm":
        s = list(range(dim))
        while s == list(range(dim)):
            rng.shuffle(s)
        return dict(pi=s)
    if rel == "rotation":
        return _draw_rotation(case, rng)
    if rel == "conjugation":
        return dict()
    if rel == "shift":
        E = _energies(case)
        for _ in range(20):
            c = Fr(rng.choice([-3, -2, -1, 1, 2, 3, 5])) if exactfloat else Fr(rng.randint(-6, 6), rng.choice([1, 1, 2, 3]))
            if c != 0 and any(not (e + G(c)).is_zero() for e in E):
                return dict(c=str(c))
        return None
    if rel == "pos_scale":
        if exactfloat:
            # powers of two are exact in binary64; the tiny ones keep every entry and every energy difference far
            # above the library's default atol=1e-12 (smallest non-zero entry 2**-36, smallest difference 2**-34)
            # but below numpy's default tolerances, the huge ones far above
            extreme = [Fr(1, 2 ** 20), Fr(1, 2 ** 27), Fr(1, 2 ** 30), Fr(1, 2 ** 30), Fr(1, 2 ** 34), Fr(1, 2 ** 34), Fr(2 ** 20), Fr(2 ** 30)]
            s = rng.choice(extreme) if rng.random() < 0.7 else rng.choice([Fr(2), Fr(1, 2), Fr(4)])
        else:
            s = rng.choice([Fr(2), Fr(1, 3), Fr(3, 2), Fr(5), Fr(2, 7), Fr(1, 2 ** 30), Fr(2 ** 20)])
        return dict(s=str(s))
    if rel == "direct_sum":
        a, b = bases
        if a["nparam"] != b["nparam"] or a["hermitian"] != b["hermitian"] or a["fmt"] != b["fmt"]:
            return None
        variant = "disjoint"
        if a["fully"] is None and b["fully"] is None and max(a["sub"]) >= 1 and max(b["sub"]) >= 1 and rng.random() < 0.4:
            variant = "shared"   # block b of the sum = block b of A together with block b of B
        # make the energy pools of the two summands disjoint
        off = 20 if not exactfloat else 16
        return dict(variant=variant, offset=str(off), interleave=rng.random() < 0.4)
    raise ValueError(rel)


def _draw_rotation(case, rng):
    """a unitary acting inside one degenerate level of H_0 that lies in one kept class and has
    equal rows/columns of the kept mask"""
    E = _energies(case)
    sub = case["sub"]
    dim = len(sub)
    K = kept_full(case)
    levels = {}
    for i in range(dim):
        levels.setdefault((sub[i], E[i]), []).append(i)
    cands = []
    for (b, e), idx in levels.items():
        for p, q in itertools.combinations(idx, 2):
            if not (K[p][q] and K[q][p]):
                continue
            if all(K[p][r] == K[q][r] and K[r][p] == K[r][q] for r in range(dim)):
                cands.append((p, q))
    if not cands:
        return None
    p, q = rng.choice(cands)
    exactfloat = case["fmt"] != "sympy"
    kinds = ["swap", "signswap", "sign"] if exactfloat else ["swap", "signswap", "rot345", "crot345", "iphase", "rot51213"]
    kind = rng.choice(kinds)
    one, zero = G(1), G(0)
    blocks = {
        "swap": [[zero, one], [one, zero]],
        "signswap": [[zero, G(-1)], [one, zero]],
        "sign": [[one, zero], [zero, G(-1)]],
        "rot345": [[G(Fr(3, 5)), G(Fr(4, 5))], [G(Fr(-4, 5)), G(Fr(3, 5))]],
        "rot51213": [[G(Fr(5, 13)), G(Fr(-12, 13))], [G(Fr(12, 13)), G(Fr(5, 13))]],
        "crot345": [[G(Fr(3, 5)), G(0, Fr(4, 5))], [G(0, Fr(4, 5)), G(Fr(3, 5))]],
        "iphase": [[G(0, 1), zero], [zero, one]],
    }[kind]
    R = gq.eye(dim)
    R[p][p], R[p][q], R[q][p], R[q][q] = blocks[0][0], blocks[0][1], blocks[1][0], blocks[1][1]
    assert gq.eq(gq.mul(gq.adj(R), R), gq.eye(dim))
    return dict(p=p, q=q, kind=kind, R=gq.enc(R))


def transform(rel, bases, P):
    """the transformed case"""
    case = bases[0]
    k = case["nparam"]
    sub = case["sub"]
    dim = len(sub)
    c2 = dict(case)
    if rel == "scale":
        cs = [_frac(x) for x in P["c"]]

        def f(n, M):
            s = Fr(1)
            for c, e in zip(cs, n):
                s *= c ** e
            return gq.scal(s, M)
        c2["H"] = _map_H(case, f)
    elif rel == "merge":
        i, j = P["i"], P["j"]
        c2["nparam"] = k - 1
        c2["H"] = _rekey_H(case, lambda n: merge_key(n, i, j), k - 1)
    elif rel == "permute":
        s = P["sigma"]
        c2["H"] = _rekey_H(case, lambda n: tuple(n[s[a]] for a in range(k)), k)
    elif rel == "vanishing":
        pos = P["pos"]
        c2["nparam"] = k + 1
        H = _rekey_H(case, lambda n: n[:pos] + (0,) + n[pos:], k + 1)
        if P["explicit"]:
            e = tuple(int(a == pos) for a in range(k + 1))
            H[gen.key(e)] = gq.enc(gq.zeros(dim))
        c2["H"] = H
    elif rel == "power":
        idx, p = P["idx"], P["p"]
        c2["H"] = _rekey_H(case, lambda n: tuple(x * p if a == idx else x for a, x in enumerate(n)), k)
    elif rel == "relabel":
        s = P["sigma"]
        c2["sub"] = [s[b] for b in sub]
        f = case["fully"]
        if isinstance(f, list):
            c2["fully"] = sorted(s[b] for b in f)
        elif isinstance(f, dict):
            # the mask of a block moves with the block; the order of the states inside a block is unchanged
            c2["fully"] = {str(s[int(b)]): m for b, m in f.items()}
    elif rel == "basis_perm":
        pi = P["pi"]
        c2["sub"] = [sub[pi[i]] for i in range(dim)]
        c2["H"] = _map_H(case, lambda n, M: [[M[pi[i]][pi[j]] for j in range(dim)] for i in range(dim)])
        Ef = elim_full(case)
        if Ef is not None:
            Ef2 = [[Ef[pi[i]][pi[j]] for j in range(dim)] for i in range(dim)]
            c2["fully"] = fully_from_full(Ef2, c2["sub"], list(case["fully"].keys()))
    elif rel == "rotation":
        R = gq.dec(P["R"])
        Rd = gq.adj(R)
        c2["H"] = _map_H(case, lambda n, M: gq.mul(gq.mul(Rd, M), R))
    elif rel == "conjugation":
        c2["H"] = _map_H(case, lambda n, M: gq.conj(M))
    elif rel == "shift":
        c = _frac(P["c"])
        c2["H"] = _map_H(case, lambda n, M: gq.add(M, gq.scal(c, gq.eye(dim))) if sum(n) == 0 else M)
    elif rel == "pos_scale":
        s = _frac(P["s"])
        c2["H"] = _map_H(case, lambda n, M: gq.scal(s, M))
    elif rel == "direct_sum":
        c2 = direct_sum_case(bases[0], bases[1], P)
    else:
        raise ValueError(rel)
    return c2


def merge_key(n, i, j):
    n = list(n)
    n[i] = n[i] + n[j]
    del n[j]
    return tuple(n)


def _explicit_fully(case):
    """`fully` with the single-block default made explicit"""
    f = case["fully"]
    if f is None and max(case["sub"]) == 0:
        return [0]
    return f


def _list_to_mask(case, blocks):
    """dict form of `fully_diagonalize = blocks` (eliminate all pairs of different energy)"""
    E = _energies(case)
    sub = case["sub"]
    out = {}
    for b in blocks:
        idx = [i for i in range(len(sub)) if sub[i] == b]
        out[str(b)] = [[int(E[i] != E[j]) for j in idx] for i in idx]
    return out


def direct_sum_positions(a, b, P):
    """positions of the states of A and of B in the direct sum"""
    da, db = len(a["sub"]), len(b["sub"])
    if not P.get("interleave"):
        return list(range(da)), list(range(da, da + db))
    pa, pb, ia, ib = [], [], 0, 0
    pos = 0
    # deterministic interleaving: alternate while both remain
    while ia < da or ib < db:
        if ia < da:
            pa.append(pos); pos += 1; ia += 1
        if ib < db:
            pb.append(pos); pos += 1; ib += 1
    return pa, pb


def direct_sum_case(a, b, P):
    off = _frac(P["offset"])
    da, db = len(a["sub"]), len(b["sub"])
    dim = da + db
    pa, pb = direct_sum_positions(a, b, P)
    nba = max(a["sub"]) + 1
    shared = P["variant"] == "shared"
    sub = [None] * dim
    for i, p in enumerate(pa):
        sub[p] = a["sub"][i]
    for i, p in enumerate(pb):
        sub[p] = b["sub"][i] + (0 if shared else nba)
    H = {}
    k = a["nparam"]
    keys = set(a["H"]) | set(b["H"])
    for key in keys:
        M = gq.zeros(dim)
        if key in a["H"]:
            A = gq.dec(a["H"][key])
            for i in range(da):
                for j in range(da):
                    M[pa[i]][pa[j]] = A[i][j]
        if key in b["H"]:
            B = gq.dec(b["H"][key])
            for i in range(db):
                for j in range(db):
                    M[pb[i]][pb[j]] = B[i][j]
        if sum(gen.unkey(key)) == 0:
            for i in range(db):
                M[pb[i]][pb[i]] = M[pb[i]][pb[i]] + G(off)
        H[key] = gq.enc(M)
    fa, fb = _explicit_fully(a), _explicit_fully(b)
    if shared:
        fully = None
    else:
        if isinstance(fa, dict) or isinstance(fb, dict):
            if isinstance(fa, list):
                fa = _list_to_mask(a, fa)
            if isinstance(fb, list):
                fb = _list_to_mask(b, fb)
            fully = {}
            for bb, m in (fa or {}).items():
                fully[str(int(bb))] = m
            for bb, m in (fb or {}).items():
                fully[str(int(bb) + nba)] = m
            if not fully:
                fully = None
        else:
            fully = sorted(list(fa or []) + [x + nba for x in (fb or [])]) or None
    return dict(sub=sub, nparam=k, N=min(a["N"], b["N"]), H=H, hermitian=a["hermitian"], fully=fully, fmt=a["fmt"])


def predict(rel, bases, P, outs, tcase):
    """predicted outputs {name: function n -> matrix} of the transformed case (original basis)"""
    case = bases[0]
    k = case["nparam"]
    dim = len(case["sub"])
    B = outs[0]

    def mk(fn):
        return {name: (lambda n, name=name: fn(name, tuple(n))) for name in NAMES}

    if rel == "scale":
        cs = [_frac(x) for x in P["c"]]

        def f(name, n):
            s = Fr(1)
            for c, e in zip(cs, n):
                s *= c ** e
            return gq.scal(s, B[name].get(n))
        return mk(f)
    if rel == "merge":
        i, j = P["i"], P["j"]

        def f(name, m):
            tot = gq.zeros(dim)
            for a in range(m[i] + 1):
                n = list(m)
                n[i] = a
                n.insert(j, m[i] - a)
                tot = gq.add(tot, B[name].get(tuple(n)))
            return tot
        return mk(f)
    if rel == "permute":
        s = P["sigma"]

        def f(name, n2):
            n = [0] * k
            for a in range(k):
                n[s[a]] = n2[a]
            return B[name].get(tuple(n))
        return mk(f)
    if rel == "vanishing":
        pos = P["pos"]

        def f(name, n2):
            if n2[pos] != 0:
                return gq.zeros(dim)
            return B[name].get(n2[:pos] + n2[pos + 1:])
        return mk(f)
    if rel == "power":
        idx, p = P["idx"], P["p"]

        def f(name, n2):
            if n2[idx] % p:
                return gq.zeros(dim)
            n = list(n2)
            n[idx] = n2[idx] // p
            return B[name].get(tuple(n))
        return mk(f)
    if rel == "relabel":
        return mk(lambda name, n: B[name].get(n))
    if rel == "basis_perm":
        pi = P["pi"]

        def f(name, n):
            M = B[name].get(n)
            return [[M[pi[i]][pi[j]] for j in range(dim)] for i in range(dim)]
        return mk(f)
    if rel == "rotation":
        R = gq.dec(P["R"])
        Rd = gq.adj(R)
        return mk(lambda name, n: gq.mul(gq.mul(Rd, B[name].get(n)), R))
    if rel == "conjugation":
        return mk(lambda name, n: gq.conj(B[name].get(n)))
    if rel == "shift":
        c = _frac(P["c"])

        def f(name, n):
            M = B[name].get(n)
            if name == "H_tilde" and sum(n) == 0:
                M = gq.add(M, gq.scal(c, gq.eye(dim)))
            return M
        return mk(f)
    if rel == "pos_scale":
        s = _frac(P["s"])
        return mk(lambda name, n: gq.scal(s, B[name].get(n)) if name == "H_tilde" else B[name].get(n))
    if rel == "direct_sum":
        a, b = bases
        off = _frac(P["offset"])
        pa, pb = direct_sum_positions(a, b, P)
        da, db = len(a["sub"]), len(b["sub"])

        def f(name, n):
            M = gq.zeros(da + db)
            A = outs[0][name].get(n)
            Bm = outs[1][name].get(n)
            for i in range(da):
                for j in range(da):
                    M[pa[i]][pa[j]] = A[i][j]
            for i in range(db):
                for j in range(db):
                    M[pb[i]][pb[j]] = Bm[i][j]
            if name == "H_tilde" and sum(n) == 0:
                for i in range(db):
                    M[pb[i]][pb[i]] = M[pb[i]][pb[i]] + G(off)
            return M
        return mk(f)
    raise ValueError(rel)


# ---------------------------------------------------------------------------
# one evaluation

def _try_run(case, keyfmt, symnames=None):
    try:
        return run_case(case, keyfmt, symnames), None
    except Exception as e:
        return None, "%s: %s" % (type(e).__name__, str(e)[:200])


def draw_symnames(rng, nparam):
    """symbol names by parameter position whose order is NOT the alphabetical one (reverse-alphabetical,
    or a rotation / random derangement of it) whenever there are at least two parameters"""
    alpha = ["a", "b", "c", "d", "e"][:nparam]
    if nparam < 2:
        return alpha
    choice = rng.random()
    if choice < 0.5:
        return alpha[::-1]
    if choice < 0.75:
        return alpha[1:] + alpha[:1]
    names = list(alpha)
    while names == alpha:
        rng.shuffle(names)
    return names


def check_relation(relation, base, params, keyfmt="tuple", keyfmt_t=None, symnames=None, symnames_t=None):
    """Replayable: returns (failures, info). `base` is a list of one or two cases."""
    inp = dict(relation=relation, base=base, params=params, keyfmt=keyfmt, keyfmt_t=keyfmt_t, symnames=symnames, symnames_t=symnames_t)
    tcase = transform(relation, base, params)
    kt = keyfmt_t or keyfmt
    outs = []
    errs = []
    for c in base:
        o, e = _try_run(c, keyfmt, symnames)
        outs.append(o)
        errs.append(e)
    ot, et = _try_run(tcase, kt, symnames_t)
    info = dict(nontrivial=False, raised=bool(et or any(errs)))
    fails = []
    if any(errs) or et:
        # a well-posed problem and its transform must be accepted or rejected alike
        cls = lambda e: None if e is None else e.split(":")[0]
        base_cls = sorted({cls(e) for e in errs if e})
        if (not any(errs)) != (et is None) or (et and base_cls and cls(et) not in base_cls):
            fails.append(dict(what="%s: base problem %s but transformed problem %s"
                              % (relation, "raised " + str([e for e in errs if e]) if any(errs) else "was accepted",
                                 "raised " + et if et else "was accepted"),
                              input=inp, relation=relation, prop="run"))
        return fails, info
    pred = predict(relation, base, params, outs, tcase)
    N = tcase["N"]
    high = False
    for n in gq.orders_upto(tcase["nparam"], N):
        for name in NAMES:
            want = pred[name](n)
            got = ot[name].get(n)
            if sum(n) >= 2 and not gq.is_zero(got):
                high = True
            if not gq.eq(want, got):
                bad = [(i, j) for i in range(len(got)) for j in range(len(got)) if not (want[i][j] == got[i][j])]
                i, j = bad[0]
                fails.append(dict(what="%s: %s at order %s differs from the predicted transform of the base result (%d elements, e.g. [%d,%d]: got %s/%s expected %s/%s)"
                                  % (relation, name, list(n), len(bad), i, j, got[i][j].re, got[i][j].im, want[i][j].re, want[i][j].im),
                                  input=inp, relation=relation, prop=relation, name=name, order=list(n)))
                break
        if len(fails) >= 3:
            break
    info["nontrivial"] = high and len(tcase["sub"]) >= 2
    return fails, info


def _pick_keyfmt(rel, bases, rng):
    """input format for base and transformed problem (the relation must be expressible in it)"""
    if rng.random() < 0.45:
        return "tuple", "tuple"
    cands = [f for f in ("list", "monomial", "expr") if all(keyfmt_applicable(c, f) for c in bases)]
    if not cands:
        return "tuple", "tuple"
    f = rng.choice(cands)
    return f, f


# ---------------------------------------------------------------------------
# targeted base problems

def taylor_case(rng, hermitian, N=3):
    """exact SymPy problem with two perturbative symbols whose Hamiltonian contains the mixed
    monomials x*y and x**2*y: handed over as ONE SymPy matrix with `symbols=` it goes through the
    Taylor-expansion path of the front end (_sympy_to_BlockSeries)"""
    for _ in range(50):
        case = gen.random_case(rng, hermitian=hermitian, fmt="sympy", N=N, max_blocks=2, max_size=2, max_params=2)
        if case["nparam"] == 2:
            break
    else:
        raise RuntimeError("no two-parameter case drawn")
    n = len(case["sub"])
    cplx = rng.random() < 0.5
    for o in ((1, 1), (2, 1)):
        M = gen.rand_matrix(rng, n, herm=hermitian, cplx=cplx, dyadic=False, density=1.0)
        if gq.is_zero(M):
            M[0][0] = G(1)
        case["H"][gen.key(o)] = gq.enc(M)
    return case


def degenerate_numeric_case(rng, hermitian, N=3):
    """exact-float (dense / sparse numpy) problem with a FULLY DIAGONALISED block (tuple form, or
    the single-block default) that has a degenerate level of H_0 and an UNSORTED diagonal, the
    degenerate members not necessarily adjacent, e.g. diag(0,1,0,2), diag(2,0,0), diag(1,-1,1,-1)"""
    fmt = rng.choice(["dense", "sparse"])
    nb = rng.choice([1, 1, 2])
    if nb == 1:
        levels = rng.choice([[0, 1, 2], [0, 1, 2], [-1, 1], [0, 2], [0, 1]])
        size = rng.randint(3, 4)
    else:
        levels = rng.choice([[0, 2], [0, 1], [1, 2]])
        size = 3
    while True:
        d = [rng.choice(levels) for _ in range(size)]
        if len(set(d)) < len(d) and len(set(d)) > 1 and d != sorted(d) and any(x != 0 for x in d):
            break
    if nb == 1:
        sub = [0] * size
        E = d
        fully = rng.choice([None, [0]])
    else:
        other = [x for x in (0, 1, 2) if x not in levels][0]
        sizeB = rng.randint(1, 2)
        a_label = rng.choice([0, 1])
        sub = [a_label] * size + [1 - a_label] * sizeB
        E = d + [other] * sizeB
        order = list(range(len(sub)))
        if rng.random() < 0.5:
            rng.shuffle(order)
            # keep the diagonal of the fully diagonalised block unsorted
            dd = [E[i] for i in order if sub[i] == a_label]
            if dd == sorted(dd):
                order = list(range(len(sub)))
        sub = [sub[i] for i in order]
        E = [E[i] for i in order]
        fully = rng.choice([[a_label], [a_label], [0, 1]])
    n = len(sub)
    nparam = rng.randint(1, 2)
    cplx = rng.random() < 0.5
    H = {gen.key((0,) * nparam): gq.enc(gen.diag_matrix([G(x) for x in E]))}
    for o in gq.orders_upto(nparam, 2):
        if sum(o) == 1 or (sum(o) == 2 and rng.random() < 0.2):
            H[gen.key(o)] = gq.enc(gen.rand_matrix(rng, n, herm=hermitian, cplx=cplx, dyadic=True, density=1.0))
    return dict(sub=sub, nparam=nparam, N=N, H=H, hermitian=hermitian, fully=fully, fmt=fmt)


def sorting_perm(case):
    """the basis permutation that sorts the diagonal of H_0 inside every block"""
    E = _energies(case)
    sub = case["sub"]
    pos = {}
    for b in set(sub):
        idx = [i for i in range(len(sub)) if sub[i] == b]
        srt = sorted(idx, key=lambda i: (E[i].re, E[i].im, i))
        for i, j in zip(idx, srt):
            pos[i] = j
    return [pos[i] for i in range(len(sub))]


def _worker(args):
    seed, rel, kw = args
    rng = random.Random(seed)
    t = time.time()
    try:
        for attempt in range(60 if kw.get("nh_class") else 12):
            bkw = dict(kw)
            nh_class = bkw.pop("nh_class", False)
            # kw extras: "fmts" restricts the value formats, "N_sympy" caps the order of the (slow) exact SymPy family
            fmts = bkw.pop("fmts", None) or ["sympy", "sympy", "dense", "sparse"]
            nsym = bkw.pop("N_sympy", None)
            if rel in ("merge", "permute"):
                bkw["max_params"] = max(2, bkw.get("max_params", 2))
            fmt = rng.choice(fmts)
            special = bkw.pop("special", None)
            if special == "taylor":
                bases = [taylor_case(rng, bkw["hermitian"], min(bkw.get("N", 3), 3))]
                fmt = "sympy"
            elif special == "degnum":
                bases = [degenerate_numeric_case(rng, bkw["hermitian"], bkw.get("N", 3))]
                fmt = bases[0]["fmt"]
            elif rel == "direct_sum":
                bkw["max_blocks"] = min(2, bkw.get("max_blocks", 3))
                bkw["max_size"] = min(2, bkw.get("max_size", 3))
                a = gen.random_case(rng, fmt=fmt, **bkw)
                b = gen.random_case(rng, fmt=fmt, **bkw)
                tries = 0
                while b["nparam"] != a["nparam"] and tries < 20:
                    b = gen.random_case(rng, fmt=fmt, **bkw)
                    tries += 1
                bases = [a, b]
            else:
                bases = [gen.random_case(rng, fmt=fmt, **bkw)]
                if rel in ("merge", "permute") and bases[0]["nparam"] < 2:
                    continue
            if nsym and fmt == "sympy":
                for c in bases:
                    c["N"] = min(c["N"], nsym)
            if nh_class and not all(in_nh_class(c) for c in bases):
                continue
            P = draw_params(rel, bases, rng)
            if P is None:
                continue
            if special == "degnum" and rel == "basis_perm" and rng.random() < 0.5:
                sp = sorting_perm(bases[0])
                if sp != list(range(len(sp))):
                    P = dict(pi=sp)
            tcase = transform(rel, bases, P)
            if special == "taylor":
                # base through the Taylor path; the transformed problem too whenever it can be written as an
                # expression in all its symbols (a vanishing perturbation cannot), sometimes as a dict instead
                kf = "expr"
                kft = "expr" if keyfmt_applicable(tcase, "expr") and rng.random() < 0.75 else "tuple"
                if not keyfmt_applicable(bases[0], "expr"):
                    continue
            else:
                kf, kft = _pick_keyfmt(rel, bases, rng)
                if not keyfmt_applicable(tcase, kft):
                    kf = kft = "tuple"
            # expression format: explicit symbols= lists in non-alphabetical order, drawn independently for the
            # base and the transformed problem; everything is compared by parameter position
            sn = draw_symnames(rng, bases[0]["nparam"]) if kf == "expr" else None
            snt = draw_symnames(rng, tcase["nparam"]) if kft == "expr" else None
            fails, info = check_relation(rel, bases, P, kf, kft, sn, snt)
            return dict(rel=rel, bases=bases, params=P, keyfmt=kf if kf == kft else "%s->%s" % (kf, kft), fails=fails, info=info, dt=time.time() - t, skipped=False)
        return dict(rel=rel, bases=None, params=None, keyfmt=None, fails=[], info=dict(nontrivial=False, raised=False), dt=time.time() - t, skipped=True)
    except Exception:
        return dict(rel=rel, bases=None, params=None, keyfmt=None,
                    fails=[dict(what="oracle crashed: " + traceback.format_exc()[-1500:], input=dict(seed=seed, relation=rel, kw=kw), prop="crash", crash=True)],
                    info=dict(nontrivial=False, raised=False), dt=time.time() - t, skipped=False)


def corpus(ctx):
    """Fixed inputs that once exposed a genuine defect; run on every check.

    D26 (fixed in /repo, e4d96a1): H_0 = s * diag(0, 1), H_1 = s * [[0,1],[1,0]], subspace_indices=[0, 1] was
    rejected ("The subspaces must not share eigenvalues") for s = 2**-27, 2**-34 because the inter-block
    comparison used numpy's default absolute tolerance instead of the solver's atol."""
    one, zero = ["1", "0"], ["0", "0"]
    failures = []
    n = 0
    samples = []
    for fmt in ("dense", "sparse"):
        for herm in (True, False):
            base = dict(sub=[0, 1], nparam=1, N=3, hermitian=herm, fully=None, fmt=fmt,
                        H={"0": [[zero, zero], [zero, one]], "1": [[zero, one], [one, zero]]})
            for s_ in ("1/134217728", "1/17179869184", "1/1073741824", "1073741824"):
                for kf in ("list", "tuple"):
                    fails, info = check_relation("pos_scale", [base], dict(s=s_), kf, kf)
                    failures += fails
                    n += 1
            samples.append(dict(relation="pos_scale", fmt=fmt, hermitian=herm, sub=[0, 1], H0="diag(0,1)", s=["2**-27", "2**-34", "2**-30", "2**30"]))
    return dict(evaluations=n, nontrivial=n, rule="fixed corpus: positive scaling by 2**-27, 2**-34, 2**-30, 2**30 of H_0 = diag(0,1), H_1 = sigma_x with two blocks (defect D26), dense and sparse, both modes, list and dict input",
                samples=samples[:2], failures=failures, distribution={"corpus/D26": n})


def sweep(ctx, relations, per_relation, kw, parallel=None):
    """`per_relation` random evaluations of every relation in `relations`."""
    jobs = []
    for rel in relations:
        for _ in range(per_relation):
            jobs.append((ctx.rng.randrange(1 << 30), rel, kw))
    if parallel is None:
        parallel = not ctx.quick
    if parallel:
        import multiprocessing as mp
        with mp.Pool(min(16, max(1, len(jobs)))) as pool:
            results = pool.map(_worker, jobs, chunksize=1)
    else:
        results = [_worker(j) for j in jobs]
    failures = []
    dist = {}
    nontrivial = set()
    samples = []
    evaluations = 0
    for r in results:
        failures += r["fails"]
        if r["skipped"]:
            dist["%s/skipped" % r["rel"]] = dist.get("%s/skipped" % r["rel"], 0) + 1
            continue
        if r["bases"] is None:
            continue
        evaluations += 1
        sig = gen.case_signature(r["bases"][0])
        key = "%s/%s/%s/%s/%s" % (r["rel"], r["keyfmt"], sig["fmt"], sig["mode"], "raised" if r["info"]["raised"] else "ok")
        dist[key] = dist.get(key, 0) + 1
        if r["info"]["nontrivial"]:
            nontrivial.add(json.dumps([r["rel"], r["params"], r["bases"]], sort_keys=True))
        if len([s for s in samples if s["relation"] == r["rel"]]) < 1:
            samples.append(dict(relation=r["rel"], params={k: v for k, v in r["params"].items() if k != "R"}, keyfmt=r["keyfmt"],
                                signature=sig, sub=r["bases"][0]["sub"], fully=r["bases"][0]["fully"],
                                orders=sorted(r["bases"][0]["H"].keys())))
    return dict(evaluations=evaluations, nontrivial=len(nontrivial),
                rule="relations %s on random exact problems (hermitian=%s, blocks<=%s, block size<=%s, params<=%s): base and transformed problem run through block_diagonalize, all elements of H_tilde, U, U† compared exactly up to total order %s; non-trivial = distinct (relation, parameters, base) with dim>=2 and a non-zero output at total order>=2"
                % (",".join(relations), kw.get("hermitian"), kw.get("max_blocks", 3), kw.get("max_size", 3), kw.get("max_params", 2), kw.get("N", 3))
                + ("; inputs restricted to the class where kept matrix elements connect equal unperturbed energies" if kw.get("nh_class") else "")
                + ("; base problems = SymPy matrix expression with symbols= (Taylor path) in two symbols with mixed monomials x*y, x**2*y" if kw.get("special") == "taylor" else "")
                + ("; base problems = exact-float dense/sparse with a fully diagonalised block (tuple form or single-block default) having a degenerate H_0 level and an unsorted diagonal" if kw.get("special") == "degnum" else ""),
                samples=samples, failures=failures, distribution=dist)
