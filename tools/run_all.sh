#!/bin/bash
# usage: tools/run_all.sh <tier> <seed>...   runs every claimed check, prints one line per check
TIER=$1; shift
cd "$(dirname "$0")/.."
PROPS=$(python3 -c "import json; print(' '.join(c['property_id'] for c in json.load(open('MANIFEST.json'))['checks']))")
for S in "$@"; do
  for P in $PROPS; do
    START=$(date +%s)
    OUT=$(VERIF_SEED=$S tools/check.py $P --tier $TIER 2>&1); RC=$?
    END=$(date +%s)
    echo "seed=$S $P rc=$RC $((END-START))s $(echo "$OUT" | grep -c VIOLATION) violation-lines $(echo "$OUT" | grep VIOLATION | head -1 | cut -c1-120) $(echo "$OUT" | grep -i "traceback" | head -1)"
  done
done
