#!/bin/bash
# Re-checks every compiled Props file (and everything it depends on) with the independent checker coqchk and prints
# the axioms the closure relies on (-o). Run after a full build; takes several minutes and a few GB.
cd "$(dirname "$0")/../coq"
MODS=$(ls theories/Props/*.v | sed 's#theories/Props/\(.*\)\.v#PV.Props.\1#')
timeout 7200 coqchk -silent -o -Q theories PV $MODS 2>&1 | tail -60
