#!/bin/bash
# usage: tools/seeded_recheck.sh <seed-id> [props...]   re-applies seeded/<id>/patch.diff in a scratch worktree of /repo
# (outside /repo and /verif), runs the given checks (default: meta.json property + also) against it, removes the worktree.
# Prints one line per check: "<id> <prop> rc=<rc> <n> VIOLATION line(s) [no-failing-input-found]"
ID=$1; shift
V=$(cd "$(dirname "$0")/.." && pwd)
WT=/tmp/wt/re_$ID
mkdir -p /tmp/wt
git -C /repo worktree remove --force $WT >/dev/null 2>&1
git -C /repo worktree add --detach $WT >/dev/null 2>&1 || { echo "$ID: cannot create worktree"; exit 2; }
cp /repo/pymablock/_version.py $WT/pymablock/_version.py 2>/dev/null
if ! git -C $WT apply $V/seeded/$ID/patch.diff; then echo "$ID: patch does not apply"; git -C /repo worktree remove --force $WT; exit 2; fi
PROPS="$@"
if [ -z "$PROPS" ]; then PROPS=$(python3 -c "import json;m=json.load(open('$V/seeded/$ID/meta.json'));print(' '.join([m['property']]+m.get('also',[])))"); fi
for P in $PROPS; do
  OUT=$(VERIF_REPO=$WT VERIF_SEED=${VERIF_SEED:-0} $V/tools/check.py $P --tier quick 2>&1); RC=$?
  echo "$ID $P rc=$RC $(echo "$OUT" | grep -c '^VIOLATION') VIOLATION line(s) $(echo "$OUT" | grep '^VIOLATION' | grep -o 'no-failing-input-found' | head -1)"
done
git -C /repo worktree remove --force $WT
