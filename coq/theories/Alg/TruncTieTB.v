(** Two-block counterpart of Alg/TruncTie.v (two_block_optimized = True: exactly two blocks, no
    fully_diagonalize): [check_alg ... true ...] and [inputs_ok && tb_ok] imply the conclusions of
    C01/C02/C03 for the implementation's tables up to total order N. *)
Require Import List ZArith Arith Bool String Ncring Ncring_tac Setoid Morphisms Lia.
From PV.Base Require Import Classes AlgLemmas.
From PV.Series Require Import MultiIndex Cauchy Lift Inst ExecIdx Exec SylvInst Wiring.
From PV.Block Require Import Mat Masks CoefAlg BlockSel ExecScalar QLemmas QInst.
From PV.DSL Require Import Syntax Sem.
From PV.Gen Require Import Algorithms_gen.
From PV.Alg Require Import MainLift MainCorrect SemExec SemExecSound Trunc TruncMain GqInv TruncTie.
Open Scope string_scope.

Section TieTB.
Variables D k N : nat.
Variable bl : list nat.
Variable msk : list (list bool).
Variable cb : list bool.
Variable El : list gq.
Variable sols : list (string * tser gq).

Let blk := mk_blk bl.
Let keep := mk_keep bl msk.
Let cm := mk_cm bl cb.
Let ksym := mk_keep_sym bl msk.
Let kblk := mk_keep_blk bl msk.
Let cblk := mk_cm_blk bl cb.

Local Notation TT := (T D k gq).
Local Notation BA0 := (BAi D k bl msk cb).
Local Hint Extern 0 (BlockAlg _) => exact BA0 : typeclass_instances.
Local Notation sol := (asol D k sols).
Local Notation rfl := (arflag D k bl msk cb).
Local Notation fen := (afenv D k El).
Local Notation M := (S N).
Local Notation hst := (hsum_trunc_i D k N bl msk cb).
Local Notation Ef := (Efun El).

Definition two_ok : bool := forallb (fun p => Nat.ltb (blk p) 2) (range D).
Definition full_ok : bool :=
  forallb (fun p => forallb (fun q => Bool.eqb (keep p q) (Nat.eqb (blk p) (blk q))) (range D)) (range D).
Definition cm_ok : bool := forallb cm (range D).
Definition tb_ok : bool := two_ok && full_ok && cm_ok.

Hypothesis Hcheck : check_alg D k N bl msk cb El true sols main_alg = true.
Hypothesis Hin : inputs_ok D k N bl msk cb El sols = true.
Hypothesis Htb : tb_ok = true.

Lemma tb_parts : two_ok = true /\ full_ok = true /\ cm_ok = true.
Proof.
  pose proof Htb as H. unfold tb_ok in H. apply andb_prop in H. destruct H as [H H3].
  apply andb_prop in H. destruct H as [H1 H2]. repeat split; assumption.
Qed.
Lemma two_blocks : forall p, (p < D)%nat -> (blk p < 2)%nat.
Proof.
  destruct tb_parts as (H & _). unfold two_ok in H. rewrite forallb_forall in H.
  intros p Hp. apply Nat.ltb_lt. apply H. apply in_range. exact Hp.
Qed.
Lemma keep_full : forall p q, (p < D)%nat -> (q < D)%nat -> keep p q = Nat.eqb (blk p) (blk q).
Proof.
  destruct tb_parts as (_ & H & _). unfold full_ok in H. rewrite forallb_forall in H.
  intros p q Hp Hq. specialize (H p (proj2 (in_range D p) Hp)). rewrite forallb_forall in H.
  specialize (H q (proj2 (in_range D q) Hq)). apply Bool.eqb_prop. exact H.
Qed.
Lemma cm_all : forall p, (p < D)%nat -> cm p = true.
Proof.
  destruct tb_parts as (_ & _ & H). unfold cm_ok in H. rewrite forallb_forall in H.
  intros p Hp. apply H. apply in_range. exact Hp.
Qed.

Lemma b_Sel_Dg : forall x : TT, Sel x == Dg x.
Proof.
  intros x n _ p q Hp Hq.
  change (Sel x n p q) with (if keep p q then x n p q else 0).
  change (Dg x n p q) with (if Nat.eqb (blk p) (blk q) then x n p q else 0).
  rewrite (keep_full p q Hp Hq). reflexivity.
Qed.
Lemma b_Rw_Dg : forall x : TT, Rw (Dg x) == Dg x.
Proof.
  intros x n _ p q Hp Hq.
  change (Rw (Dg x) n p q) with (if cm p then Dg x n p q else 0).
  rewrite (cm_all p Hp). reflexivity.
Qed.
Lemma b_odd_odd : forall x y : TT, Dg (Od x * Od y) == Od x * Od y.
Proof.
  intros x y. unfold Od.
  assert (Z1 : Up x * Up y == 0) by exact (Up_Up_zero blk keep cm ksym kblk cblk two_blocks x y).
  assert (Z2 : Lo x * Lo y == 0) by exact (Lo_Lo_zero blk keep cm ksym kblk cblk two_blocks x y).
  assert (Z3 : Dg (Up x * Lo y) == Up x * Lo y) by exact (Dg_Up_Lo blk keep cm ksym kblk cblk two_blocks x y).
  assert (Z4 : Dg (Lo x * Up y) == Lo x * Up y) by exact (Dg_Lo_Up blk keep cm ksym kblk cblk two_blocks x y).
  assert (E : (Up x + Lo x) * (Up y + Lo y) == Up x * Lo y + Lo x * Up y).
  { assert (E1 : (Up x + Lo x) * (Up y + Lo y) == Up x * Up y + Up x * Lo y + (Lo x * Up y + Lo x * Lo y)) by non_commutative_ring.
    rewrite E1, Z1, Z2. non_commutative_ring. }
  rewrite E, (am_add (f := Dg)), Z3, Z4. reflexivity.
Qed.

Lemma trunc_solution_tb :
  @solution TT _ _ _ _ _ _ (teq M) (trunc_ops M) (BAt M hst) (gflag_of true) rfl fen sol main_alg.
Proof.
  pose proof (check_alg_sound D k N bl msk cb El true sols main_alg Hcheck) as [Hs Hp].
  split.
  - apply Forall_forall. intros d Hd. specialize (Hs d Hd). apply (teq_eqN D k N bl msk cb) in Hs. exact Hs.
  - apply Forall_forall. intros p Hp'. specialize (Hp p Hp'). apply (teq_eqN D k N bl msk cb) in Hp. exact Hp.
Qed.

Local Notation concl L := (L TT _ _ _ _ _ _ _ _ _ BA0 M hst rfl fen (SylvInst.H0 D k Ef) sol (sylv_sub_i D k El)
  (fun x => Equivalence_Reflexive (Rw x))
  (fun x y => comm_sound_l (k := k) blk ksym kblk cblk (keep_eucl D k N bl msk cb El sols Hin) x y)
  (fun x y => comm_sound_r (k := k) blk ksym kblk cblk (keep_eucl D k N bl msk cb El sols Hin) x y)
  (fun m y Hy => SylvInst.sylv_ord (keep_sym := ksym) (keep_blk := kblk) (cm_blk := cblk) Ef gq_inv0 Hy)
  (fun y => SylvInst.sylv_adj (k := k) blk keep cm ksym kblk cblk Ef (E_real D k N bl msk cb El sols Hin) inv_P inv_opp inv_conj y)
  (Sel_H0_b D k N bl msk cb El sols Hin)
  (fun x => SylvInst.Sel_comm_H0 (k := k) blk keep cm ksym kblk cblk Ef x)
  (fun y => SylvInst.sylv_spec (k := k) blk keep cm ksym kblk cblk Ef gq_inv0 (inv_spec D k N bl msk cb El sols Hin) y)
  (proj2 (teq_eqN D k N bl msk cb _ _) (H_herm D k N bl msk cb El sols Hin))
  (proj2 (teq_eqN D k N bl msk cb _ _) (H_zero D k N bl msk cb El sols Hin))
  b_Sel_Dg b_Rw_Dg b_odd_odd
  (fun x y => Up_Dg_Up blk keep cm ksym kblk cblk x y) (fun x y => Up_Up_Dg blk keep cm ksym kblk cblk x y)
  (fun x y => Lo_Dg_Lo blk keep cm ksym kblk cblk x y) (fun x y => Lo_Lo_Dg blk keep cm ksym kblk cblk x y)
  trunc_solution_tb) (only parsing).

Theorem tie_conclusions_tb :
  eqN D k N (Sel (sol "U†" * sol "H" * sol "U")) (sol "H_tilde") /\
  eqN D k N (Rp (sol "U†" * sol "H" * sol "U")) 0 /\
  eqN D k N (sol "U†" * sol "U") 1 /\
  eqN D k N (sol "U" * sol "U†") 1 /\
  eqN D k N (adj (sol "U")) (sol "U†") /\
  eqN D k N (adj (sol "H_tilde")) (sol "H_tilde") /\
  eqN D k N (Sel (half ((sol "U" - 1) - adj (sol "U" - 1)))) 0.
Proof.
  refine (Logic.conj _ (Logic.conj _ (Logic.conj _ (Logic.conj _ (Logic.conj _ (Logic.conj _ _)))))); apply (teq_eqN D k N bl msk cb).
  - exact (concl (@kept_tb_upto0)).
  - exact (concl (@eliminated_tb_upto0)).
  - exact (concl (@unitary_l_tb_upto0)).
  - exact (concl (@unitary_r_tb_upto0)).
  - exact (concl (@adjoint_tb_upto0)).
  - exact (concl (@Ht_herm_tb_upto0)).
  - exact (concl (@gauge_tb_upto0)).
Qed.
End TieTB.
