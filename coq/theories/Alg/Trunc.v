(** Truncation of a [BlockAlg] at order M: same carrier and operations, equality modulo the
    filtration,  x ~ y := ord M (x - y).  The result is again a [BlockAlg] ([trunc_BlockAlg]), so
    every theorem proved for arbitrary [BlockAlg]s holds "up to order M - 1" for valuations that
    satisfy the program's equations only up to that order - which is exactly what the
    correspondence check k_semeq establishes about the implementation's values (Alg/SemExecSound.v).

    The only hypothesis beyond the class laws: the half-sum respects the truncated equality
    ([hsum_trunc]; proved for the series instance as [eqN_hsum]). *)
Require Import Ncring Ncring_tac Setoid Morphisms ZArith Lia Arith.
From PV.Base Require Import Classes AlgLemmas.
Set Implicit Arguments.

Section Trunc.
Context {T : Type} {r0 r1 : T} {add mul sub : T -> T -> T} {opp : T -> T} {req : T -> T -> Prop}
        {Ro : @Ring_ops T r0 r1 add mul sub opp req} {Rg : @Ring T r0 r1 add mul sub opp req Ro}
        {BA : BlockAlg T}.

Variable M : nat.
Definition teq (x y : T) : Prop := ord M (x - y).
Definition tord (k : nat) (x : T) : Prop := ord (Nat.min k M) x.
Hypothesis hsum_trunc : forall a a' b b', teq a a' -> teq b b' -> teq (hsum a b) (hsum a' b').

(** ** the filtration is decreasing *)
Lemma ord_le a b x : a <= b -> ord b x -> ord a x.
Proof. intros L H. induction L as [|b L IH]. exact H. apply IH. apply ord_S. exact H. Qed.
Lemma ord_sub k x y : ord k x -> ord k y -> ord k (x - y).
Proof. intros. rewrite ring_sub_def. apply ord_add. assumption. apply ord_opp. assumption. Qed.
Lemma ord_Zc k x : ord k x -> ord k (Zc x).
Proof.
  intros H. destruct k as [|k]. apply ord_O.
  assert (H1 : ord 1 x) by (apply (@ord_le 1 (S k)); [lia | exact H]).
  apply Zc_ord in H1. rewrite H1. apply ord_zero.
Qed.
Lemma ord_mul_l k x y : ord k x -> ord k (x * y).
Proof. intros H. assert (H1 : ord (Nat.add k 0) (x * y)) by (apply ord_mul; [exact H | apply ord_O]). rewrite Nat.add_0_r in H1. exact H1. Qed.
Lemma ord_mul_r k x y : ord k y -> ord k (x * y).
Proof. intros H. assert (H1 : ord (Nat.add 0 k) (x * y)) by (apply ord_mul; [apply ord_O | exact H]). exact H1. Qed.

(** ** truncated equality *)
Lemma lift_teq x y : x == y -> teq x y.
Proof. intros E. unfold teq. assert (Z : x - y == 0) by (rewrite E; non_commutative_ring). rewrite Z. apply ord_zero. Qed.
Lemma teq_equiv : Equivalence teq.
Proof.
  split.
  - intros x. apply lift_teq. reflexivity.
  - intros x y H. unfold teq in *. assert (Z : y - x == - (x - y)) by non_commutative_ring. rewrite Z. apply ord_opp. exact H.
  - intros x y z H1 H2. unfold teq in *. assert (Z : x - z == (x - y) + (y - z)) by non_commutative_ring. rewrite Z.
    apply ord_add; assumption.
Qed.
Lemma t_add_P : Proper (teq ==> teq ==> teq) add.
Proof. intros x x' H y y' H'. unfold teq in *. change (ord M ((x + y) - (x' + y'))).
  assert (Z : (x + y) - (x' + y') == (x - x') + (y - y')) by non_commutative_ring. rewrite Z. apply ord_add; assumption. Qed.
Lemma t_sub_P : Proper (teq ==> teq ==> teq) sub.
Proof. intros x x' H y y' H'. unfold teq in *. change (ord M ((x - y) - (x' - y'))).
  assert (Z : (x - y) - (x' - y') == (x - x') - (y - y')) by non_commutative_ring. rewrite Z. apply ord_sub; assumption. Qed.
Lemma t_opp_P : Proper (teq ==> teq) opp.
Proof. intros x x' H. unfold teq in *. change (ord M ((- x) - (- x'))).
  assert (Z : (- x) - (- x') == - (x - x')) by non_commutative_ring. rewrite Z. apply ord_opp; assumption. Qed.
Lemma t_mul_P : Proper (teq ==> teq ==> teq) mul.
Proof. intros x x' H y y' H'. unfold teq in *. change (ord M (x * y - x' * y')).
  assert (Z : x * y - x' * y' == (x - x') * y + x' * (y - y')) by non_commutative_ring. rewrite Z.
  apply ord_add. apply ord_mul_l; assumption. apply ord_mul_r; assumption. Qed.

Definition trunc_ops : @Ring_ops T r0 r1 add mul sub opp teq.
Proof. constructor. Defined.

Definition trunc_ring : @Ring T r0 r1 add mul sub opp teq trunc_ops :=
  @Build_Ring T r0 r1 add mul sub opp teq trunc_ops
    teq_equiv t_add_P t_mul_P t_sub_P t_opp_P
    (fun x => lift_teq (ring_add_0_l x)) (fun x y => lift_teq (ring_add_comm x y))
    (fun x y z => lift_teq (ring_add_assoc x y z))
    (fun x => lift_teq (ring_mul_1_l x)) (fun x => lift_teq (ring_mul_1_r x))
    (fun x y z => lift_teq (ring_mul_assoc x y z))
    (fun x y z => lift_teq (ring_distr_l x y z)) (fun x y z => lift_teq (ring_distr_r x y z))
    (fun x y => lift_teq (ring_sub_def x y)) (fun x => lift_teq (ring_opp_def x)).

(** ** structure maps *)
Definition tAddMap (f : T -> T) := @AddMap T r0 r1 add mul sub opp teq trunc_ops f.
Section TAM.
Variable f : T -> T.
Context {Hf : AddMap f}.
Hypothesis Hord : forall k x, ord k x -> ord k (f x).
Lemma t_am_P : Proper (teq ==> teq) f.
Proof. intros x y H. unfold teq in *. assert (Z : f x - f y == f (x - y)) by (symmetry; apply am_sub; exact Hf). rewrite Z. apply Hord. exact H. Qed.
Definition t_am : tAddMap f :=
  @Build_AddMap T r0 r1 add mul sub opp teq trunc_ops f t_am_P
    (fun x y => lift_teq (am_add x y)) (fun x => lift_teq (am_opp x)).
End TAM.

Lemma t_divz_P k : Proper (teq ==> teq) (fun x => divz x k).
Proof. intros x y H. unfold teq in *. rewrite <- divz_sub. apply ord_divz. exact H. Qed.

Lemma t_ord_P k : Proper (teq ==> iff) (tord k).
Proof.
  assert (A : forall x y, teq x y -> tord k x -> tord k y).
  { intros x y H Hx. unfold teq, tord in *.
    assert (Z : y == x - (x - y)) by non_commutative_ring. rewrite Z. apply ord_sub. exact Hx.
    apply (@ord_le (Nat.min k M) M). lia. exact H. }
  intros x y H. split. apply A; exact H. apply A. destruct teq_equiv as [_ S _]. apply S. exact H.
Qed.
Lemma t_ord_O x : tord O x. Proof. apply ord_O. Qed.
Lemma t_ord_S k x : tord (S k) x -> tord k x.
Proof. unfold tord. apply ord_le. lia. Qed.
Lemma t_ord_zero k : tord k 0. Proof. apply ord_zero. Qed.
Lemma t_ord_add k x y : tord k x -> tord k y -> tord k (x + y). Proof. apply ord_add. Qed.
Lemma t_ord_opp k x : tord k x -> tord k (- x). Proof. apply ord_opp. Qed.
Lemma t_ord_mul a b x y : tord a x -> tord b y -> tord (Nat.add a b) (x * y).
Proof. unfold tord. intros Hx Hy. apply (@ord_le _ (Nat.add (Nat.min a M) (Nat.min b M))). lia. apply ord_mul; assumption. Qed.
Lemma t_ord_sep x : (forall k, tord k x) -> teq x 0.
Proof. intros H. unfold teq. specialize (H M). unfold tord in H. rewrite Nat.min_id in H.
  assert (Z : x - 0 == x) by non_commutative_ring. rewrite Z. exact H. Qed.
Lemma t_Zc_ord x : tord 1 x <-> teq (Zc x) 0.
Proof.
  unfold tord, teq. assert (Z : Zc x - 0 == Zc x) by non_commutative_ring. rewrite Z.
  destruct M as [|m].
  - cbn [Nat.min]. split; intros _; apply ord_O.
  - cbn [Nat.min]. split.
    + intros H. apply Zc_ord in H. rewrite H. apply ord_zero.
    + intros H. apply Zc_ord. assert (H1 : ord 1 (Zc x)) by (apply (@ord_le 1 (S m)); [lia | exact H]).
      apply Zc_ord in H1. rewrite Zc_idem in H1. exact H1.
Qed.
Lemma t_hsum_P : Proper (teq ==> teq ==> teq) hsum.
Proof. intros a a' H b b' H'. apply hsum_trunc; assumption. Qed.
Lemma t_hsum_spec k a b : tord 1 a -> tord 1 b -> tord k (b - adj a) -> tord (S k) (hsum a b - Dg (a * b)).
Proof.
  unfold tord. destruct M as [|m].
  - intros _ _ _. rewrite Nat.min_0_r. apply ord_O.
  - cbn [Nat.min]. intros Ha Hb Hk.
    apply (@ord_le _ (S (Nat.min k (S m)))). lia. apply hsum_spec; assumption.
Qed.

Definition trunc_BlockAlg : @BlockAlg T r0 r1 add mul sub opp teq trunc_ops :=
  @Build_BlockAlg T r0 r1 add mul sub opp teq trunc_ops
    adj (t_am (f := adj) ord_adj) (fun x y => lift_teq (adj_mul x y)) (fun x => lift_teq (adj_inv x)) (lift_teq adj_one)
    divz t_divz_P (fun k x y => lift_teq (divz_add k x y)) (fun k x => lift_teq (divz_opp k x))
    (fun k x Hk => lift_teq (divz_spec x Hk))
    Dg Up Lo (t_am (f := Dg) ord_Dg) (t_am (f := Up) ord_Up) (t_am (f := Lo) ord_Lo)
    (fun x => lift_teq (blk_split x))
    (fun x => lift_teq (Dg_Dg x)) (fun x => lift_teq (Up_Up x)) (fun x => lift_teq (Lo_Lo x))
    (fun x => lift_teq (Dg_Up x)) (fun x => lift_teq (Dg_Lo x))
    (fun x => lift_teq (Up_Dg x)) (fun x => lift_teq (Up_Lo x))
    (fun x => lift_teq (Lo_Dg x)) (fun x => lift_teq (Lo_Up x))
    (fun x => lift_teq (Dg_adj x)) (fun x => lift_teq (Up_adj x)) (fun x => lift_teq (Lo_adj x))
    (fun x y => lift_teq (Dg_mul_l x y)) (fun x y => lift_teq (Dg_mul_r x y)) (lift_teq Dg_one)
    Sel (t_am (f := Sel) ord_Sel)
    (fun x => lift_teq (Sel_idem x)) (fun x => lift_teq (Sel_adj x)) (fun x => lift_teq (Sel_Dg x)) (fun x => lift_teq (Dg_Sel x))
    Rw (t_am (f := Rw) ord_Rw)
    (fun x => lift_teq (Rw_idem x)) (fun x => lift_teq (Rw_Dg x)) (fun x => lift_teq (Rw_Sel x)) (fun x => lift_teq (Rw_adj_Dg x))
    tord t_ord_P t_ord_O t_ord_S t_ord_zero t_ord_add t_ord_opp t_ord_mul t_ord_sep
    (fun k x => @ord_adj _ _ _ _ _ _ _ _ _ BA _ x) (fun k x z => @ord_divz _ _ _ _ _ _ _ _ _ BA _ x z)
    (fun k x => @ord_Dg _ _ _ _ _ _ _ _ _ BA _ x) (fun k x => @ord_Up _ _ _ _ _ _ _ _ _ BA _ x)
    (fun k x => @ord_Lo _ _ _ _ _ _ _ _ _ BA _ x) (fun k x => @ord_Sel _ _ _ _ _ _ _ _ _ BA _ x)
    (fun k x => @ord_Rw _ _ _ _ _ _ _ _ _ BA _ x)
    Zc (t_am (f := Zc) ord_Zc) (fun x y => lift_teq (Zc_mul x y)) (lift_teq Zc_one)
    (fun x => lift_teq (Zc_idem x)) t_Zc_ord
    (fun x => lift_teq (Zc_adj x)) (fun x => lift_teq (Zc_Dg x)) (fun x => lift_teq (Zc_Up x)) (fun x => lift_teq (Zc_Lo x)) (fun x => lift_teq (Zc_Sel x))
    hsum t_hsum_P (fun a b => lift_teq (hsum_Dg a b)) t_hsum_spec.

End Trunc.
