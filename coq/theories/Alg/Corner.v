(** The corner of a [BlockAlg] by a self-adjoint, block-diagonal, order-zero idempotent [e].

    In implicit mode (C06) the last block of every series is an operator on the full Hilbert
    space that lives in the range of the complement projector P: the block algebra the code
    computes in is the corner  e T e  with  e = diag(1, ..., 1, P)  and unit e.  This file shows
    that the corner is again a [BlockAlg] ([corner_BlockAlg]), so every theorem proved for an
    arbitrary [BlockAlg] (C01, C02, C03, C05 and the naturality theorem used in C06) applies to
    the implicit computation itself.

    Construction: same carrier; equality  x ~ y  :=  e x e == e y e ; product  x . y := x e y ;
    unit e; all structure maps unchanged.  The hypotheses on [e] are exactly: idempotent,
    self-adjoint, block diagonal, of order zero, and compression by [e] commutes with the block
    triangles, the kept-element selection and the row selection (true for a block-diagonal
    projector whose blocks are 1 on every block that carries a mask). *)
Require Import Ncring Ncring_tac Setoid Morphisms ZArith Lia.
From PV.Base Require Import Classes AlgLemmas.
Set Implicit Arguments.

Section Corner.
Context {T : Type} {r0 r1 : T} {add mul sub : T -> T -> T} {opp : T -> T} {req : T -> T -> Prop}
        {Ro : @Ring_ops T r0 r1 add mul sub opp req} {Rg : @Ring T r0 r1 add mul sub opp req Ro}
        {BA : BlockAlg T}.

Variable e : T.
Definition c (x : T) : T := e * x * e.

Hypothesis e_idem : e * e == e.
Hypothesis e_adj : adj e == e.
Hypothesis e_Dg : Dg e == e.
Hypothesis e_Zc : Zc e == e.
Hypothesis Up_c : forall x, Up (c x) == c (Up x).
Hypothesis Lo_c : forall x, Lo (c x) == c (Lo x).
Hypothesis Sel_c : forall x, Sel (c x) == c (Sel x).
Hypothesis Rw_c : forall x, Rw (c x) == c (Rw x).

Definition ceq (x y : T) : Prop := c x == c y.
Definition cmul (x y : T) : T := x * e * y.

(** ** compression *)
Instance c_P : Proper (_==_ ==> _==_) c.
Proof. intros x y E. unfold c. rewrite E. reflexivity. Qed.
Lemma c_add x y : c (x + y) == c x + c y. Proof. unfold c. non_commutative_ring. Qed.
Lemma c_opp x : c (- x) == - c x. Proof. unfold c. non_commutative_ring. Qed.
Lemma c_sub x y : c (x - y) == c x - c y. Proof. unfold c. non_commutative_ring. Qed.
Lemma c_zero : c 0 == 0. Proof. unfold c. non_commutative_ring. Qed.
Instance c_am : AddMap c := {| am_P := c_P; am_add := c_add; am_opp := c_opp |}.

Lemma eee x : e * (e * x) == e * x.
Proof. rewrite ring_mul_assoc, e_idem. reflexivity. Qed.
Lemma xee x : x * e * e == x * e.
Proof. rewrite <- ring_mul_assoc, e_idem. reflexivity. Qed.
Lemma c_idem x : c (c x) == c x.
Proof. unfold c. rewrite <- !ring_mul_assoc. rewrite eee. rewrite !ring_mul_assoc. rewrite xee. reflexivity. Qed.
Lemma c_mul x y : c (x * e * y) == c x * c y.
Proof.
  unfold c.
  assert (E : e * x * e * (e * y * e) == e * x * (e * e) * y * e) by non_commutative_ring.
  rewrite E, e_idem. non_commutative_ring.
Qed.
Lemma c_e : c e == e.
Proof. unfold c. rewrite e_idem, e_idem. reflexivity. Qed.
Lemma c_mul_cc x y : c (c x * c y) == c x * c y.
Proof.
  unfold c.
  assert (E : e * (e * x * e * (e * y * e)) * e == (e * e) * x * e * (e * y * (e * e))) by non_commutative_ring.
  rewrite E, e_idem. reflexivity.
Qed.
Lemma c_e_l x : c (e * x) == c x.
Proof. unfold c. rewrite (ring_mul_assoc e e x), e_idem. reflexivity. Qed.
Lemma c_e_r x : c (x * e) == c x.
Proof. unfold c. rewrite <- !ring_mul_assoc, e_idem. reflexivity. Qed.

(** ** structure maps commute with compression *)
Lemma adj_c x : adj (c x) == c (adj x).
Proof. unfold c. rewrite !adj_mul, e_adj. non_commutative_ring. Qed.
Lemma Dg_c x : Dg (c x) == c (Dg x).
Proof.
  unfold c.
  assert (E : e * x * e == Dg e * (x * Dg e)) by (rewrite e_Dg; non_commutative_ring).
  rewrite E, Dg_mul_l, Dg_mul_r, e_Dg. non_commutative_ring.
Qed.
Lemma Zc_c x : Zc (c x) == c (Zc x).
Proof. unfold c. rewrite !Zc_mul, e_Zc. reflexivity. Qed.
Lemma divz_c x k : k <> 0%Z -> divz (c x) k == c (divz x k).
Proof. intros Hk. symmetry. apply divz_am. exact c_am. exact Hk. Qed.
Lemma ord_c k x : ord k x -> ord k (c x).
Proof.
  intros H. unfold c.
  assert (H1 : ord (Nat.add (Nat.add 0 k) 0) (e * x * e)).
  { apply ord_mul. apply ord_mul. apply ord_O. exact H. apply ord_O. }
  cbn [Nat.add] in H1. rewrite Nat.add_0_r in H1. exact H1.
Qed.

(** ** the corner ring *)
Definition corner_ops : @Ring_ops T r0 e add cmul sub opp ceq.
Proof. constructor. Defined.

Lemma ceq_equiv : Equivalence ceq.
Proof.
  split.
  - intros x. unfold ceq. reflexivity.
  - intros x y E. unfold ceq in *. symmetry. exact E.
  - intros x y z E1 E2. unfold ceq in *. rewrite E1. exact E2.
Qed.
Lemma k_add_P : Proper (ceq ==> ceq ==> ceq) add.
Proof. intros x x' E y y' E'. unfold ceq in *. change (c (x + y) == c (x' + y')). rewrite !c_add, E, E'. reflexivity. Qed.
Lemma k_mul_P : Proper (ceq ==> ceq ==> ceq) cmul.
Proof. intros x x' E y y' E'. unfold ceq, cmul in *. rewrite !c_mul, E, E'. reflexivity. Qed.
Lemma k_sub_P : Proper (ceq ==> ceq ==> ceq) sub.
Proof. intros x x' E y y' E'. unfold ceq in *. change (c (x - y) == c (x' - y')). rewrite !c_sub, E, E'. reflexivity. Qed.
Lemma k_opp_P : Proper (ceq ==> ceq) opp.
Proof. intros x x' E. unfold ceq in *. change (c (- x) == c (- x')). rewrite !c_opp, E. reflexivity. Qed.

Lemma lift_eq x y : x == y -> ceq x y.
Proof. intros E. unfold ceq. rewrite E. reflexivity. Qed.

Lemma k_add_0_l x : ceq (0 + x) x. Proof. apply lift_eq. non_commutative_ring. Qed.
Lemma k_add_comm x y : ceq (x + y) (y + x). Proof. apply lift_eq. non_commutative_ring. Qed.
Lemma k_add_assoc x y z : ceq (x + (y + z)) ((x + y) + z). Proof. apply lift_eq. non_commutative_ring. Qed.
Lemma k_mul_1_l x : ceq (cmul e x) x.
Proof. unfold ceq, cmul. rewrite e_idem. apply c_e_l. Qed.
Lemma k_mul_1_r x : ceq (cmul x e) x.
Proof. unfold ceq, cmul. rewrite xee. apply c_e_r. Qed.
Lemma k_mul_assoc x y z : ceq (cmul x (cmul y z)) (cmul (cmul x y) z).
Proof. apply lift_eq. unfold cmul. non_commutative_ring. Qed.
Lemma k_distr_l x y z : ceq (cmul (x + y) z) (cmul x z + cmul y z).
Proof. apply lift_eq. unfold cmul. non_commutative_ring. Qed.
Lemma k_distr_r x y z : ceq (cmul z (x + y)) (cmul z x + cmul z y).
Proof. apply lift_eq. unfold cmul. non_commutative_ring. Qed.
Lemma k_sub_def x y : ceq (x - y) (x + - y). Proof. apply lift_eq. non_commutative_ring. Qed.
Lemma k_opp_def x : ceq (x + - x) 0. Proof. apply lift_eq. non_commutative_ring. Qed.

Definition corner_ring : @Ring T r0 e add cmul sub opp ceq corner_ops :=
  @Build_Ring T r0 e add cmul sub opp ceq corner_ops
    ceq_equiv k_add_P k_mul_P k_sub_P k_opp_P
    k_add_0_l k_add_comm k_add_assoc k_mul_1_l k_mul_1_r k_mul_assoc k_distr_l k_distr_r k_sub_def k_opp_def.

(** ** structure maps on the corner *)
Definition cAddMap (f : T -> T) := @AddMap T r0 e add cmul sub opp ceq corner_ops f.

Section KAM.
Variable f : T -> T.
Context {Hf : AddMap f}.
Hypothesis Hc : forall x, f (c x) == c (f x).
Lemma k_am_P : Proper (ceq ==> ceq) f.
Proof. intros x y E. unfold ceq in *. rewrite <- !Hc. apply am_P. exact E. Qed.
Lemma k_am_add x y : ceq (f (x + y)) (f x + f y). Proof. apply lift_eq. apply am_add. Qed.
Lemma k_am_opp x : ceq (f (- x)) (- f x). Proof. apply lift_eq. apply am_opp. Qed.
Definition k_am : cAddMap f :=
  @Build_AddMap T r0 e add cmul sub opp ceq corner_ops f k_am_P k_am_add k_am_opp.
End KAM.

Definition cord (k : nat) (x : T) : Prop := ord k (c x).
Definition chsum (a b : T) : T := hsum (c a) (c b).

Lemma cord_map (f : T -> T) : (forall x, f (c x) == c (f x)) -> (forall k x, ord k x -> ord k (f x)) ->
  forall k x, cord k x -> cord k (f x).
Proof. intros Hc Ho k x H. unfold cord in *. rewrite <- Hc. apply Ho. exact H. Qed.

Definition cdivz (x : T) (k : Z) : T := divz (c x) k.

Lemma k_divz_P k : Proper (ceq ==> ceq) (fun x => cdivz x k).
Proof. intros x y E. unfold ceq, cdivz in *. rewrite E. reflexivity. Qed.
Lemma k_divz_add k x y : ceq (cdivz (x + y) k) (cdivz x k + cdivz y k).
Proof. apply lift_eq. unfold cdivz. rewrite c_add. apply divz_add. Qed.
Lemma k_divz_opp k x : ceq (cdivz (- x) k) (- cdivz x k).
Proof. apply lift_eq. unfold cdivz. rewrite c_opp. apply divz_opp. Qed.
Lemma k_divz_spec k x : k <> 0%Z -> ceq (zmul k (cdivz x k)) x.
Proof. intros Hk. unfold ceq, cdivz. rewrite (divz_spec (c x) Hk). apply c_idem. Qed.

(* laws that do not mention the product: push the base law through [c] *)
Ltac lift := intros; apply lift_eq.

Lemma k_adj_mul x y : ceq (adj (cmul x y)) (cmul (adj y) (adj x)).
Proof. apply lift_eq. unfold cmul. rewrite !adj_mul, e_adj. non_commutative_ring. Qed.
Lemma k_adj_inv x : ceq (adj (adj x)) x. Proof. apply lift_eq. apply adj_inv. Qed.
Lemma k_adj_one : ceq (adj e) e. Proof. apply lift_eq. exact e_adj. Qed.

Lemma k_blk_split x : ceq x (Dg x + Up x + Lo x). Proof. apply lift_eq. apply blk_split. Qed.
Lemma k_Dg_mul_l x y : ceq (Dg (cmul (Dg x) y)) (cmul (Dg x) (Dg y)).
Proof.
  apply lift_eq. unfold cmul.
  assert (E : Dg x * e * y == Dg x * (Dg e * y)) by (rewrite e_Dg; non_commutative_ring).
  rewrite E, Dg_mul_l, Dg_mul_l, e_Dg. non_commutative_ring.
Qed.
Lemma k_Dg_mul_r x y : ceq (Dg (cmul x (Dg y))) (cmul (Dg x) (Dg y)).
Proof.
  apply lift_eq. unfold cmul.
  assert (E : x * e * Dg y == (x * Dg e) * Dg y) by (rewrite e_Dg; non_commutative_ring).
  rewrite E, Dg_mul_r, Dg_mul_r, e_Dg. reflexivity.
Qed.
Lemma k_Dg_one : ceq (Dg e) e. Proof. apply lift_eq. exact e_Dg. Qed.

Lemma k_ord_P k : Proper (ceq ==> iff) (cord k).
Proof. intros x y E. unfold ceq, cord in *. rewrite E. reflexivity. Qed.
Lemma k_ord_O x : cord O x. Proof. apply ord_O. Qed.
Lemma k_ord_S k x : cord (S k) x -> cord k x. Proof. apply ord_S. Qed.
Lemma k_ord_zero k : cord k 0. Proof. unfold cord. rewrite c_zero. apply ord_zero. Qed.
Lemma k_ord_add k x y : cord k x -> cord k y -> cord k (x + y).
Proof. unfold cord. intros. rewrite c_add. apply ord_add; assumption. Qed.
Lemma k_ord_opp k x : cord k x -> cord k (- x).
Proof. unfold cord. intros. rewrite c_opp. apply ord_opp; assumption. Qed.
Lemma k_ord_mul a b x y : cord a x -> cord b y -> cord (Nat.add a b) (cmul x y).
Proof. unfold cord, cmul. intros. rewrite c_mul. apply ord_mul; assumption. Qed.
Lemma k_ord_sep x : (forall k, cord k x) -> ceq x 0.
Proof. intros H. unfold ceq. rewrite c_zero. apply ord_sep. exact H. Qed.
Lemma k_ord_adj k x : cord k x -> cord k (adj x).
Proof. apply cord_map. apply adj_c. intros; apply ord_adj; assumption. Qed.
Lemma k_ord_divz k x z : cord k x -> cord k (cdivz x z).
Proof. unfold cord, cdivz. intros H. apply ord_c. apply ord_divz. exact H. Qed.
Lemma k_ord_Dg k x : cord k x -> cord k (Dg x).
Proof. apply cord_map. apply Dg_c. intros; apply ord_Dg; assumption. Qed.
Lemma k_ord_Up k x : cord k x -> cord k (Up x).
Proof. apply cord_map. apply Up_c. intros; apply ord_Up; assumption. Qed.
Lemma k_ord_Lo k x : cord k x -> cord k (Lo x).
Proof. apply cord_map. apply Lo_c. intros; apply ord_Lo; assumption. Qed.
Lemma k_ord_Sel k x : cord k x -> cord k (Sel x).
Proof. apply cord_map. apply Sel_c. intros; apply ord_Sel; assumption. Qed.
Lemma k_ord_Rw k x : cord k x -> cord k (Rw x).
Proof. apply cord_map. apply Rw_c. intros; apply ord_Rw; assumption. Qed.

Lemma k_Zc_mul x y : ceq (Zc (cmul x y)) (cmul (Zc x) (Zc y)).
Proof. apply lift_eq. unfold cmul. rewrite !Zc_mul, e_Zc. reflexivity. Qed.
Lemma k_Zc_one : ceq (Zc e) e. Proof. apply lift_eq. exact e_Zc. Qed.
Lemma k_Zc_ord x : cord 1 x <-> ceq (Zc x) 0.
Proof. unfold cord, ceq. rewrite c_zero, <- Zc_c. apply Zc_ord. Qed.

Lemma k_hsum_P : Proper (ceq ==> ceq ==> ceq) chsum.
Proof. intros a a' E b b' E'. unfold ceq, chsum in *. rewrite E, E'. reflexivity. Qed.
Lemma k_hsum_Dg a b : ceq (Dg (chsum a b)) (chsum a b).
Proof. apply lift_eq. apply hsum_Dg. Qed.
Lemma k_hsum_spec k a b : cord 1 a -> cord 1 b -> cord k (b - adj a) ->
  cord (S k) (chsum a b - Dg (cmul a b)).
Proof.
  unfold cord, chsum, cmul. intros Ha Hb Hk.
  rewrite c_sub, <- Dg_c, c_mul.
  assert (E : c (hsum (c a) (c b)) - Dg (c a * c b) == c (hsum (c a) (c b) - Dg (c a * c b))).
  { rewrite c_sub, <- Dg_c, c_mul_cc. reflexivity. }
  rewrite E. apply ord_c. apply hsum_spec; try assumption.
  rewrite adj_c, <- c_sub. exact Hk.
Qed.

Definition corner_BlockAlg : @BlockAlg T r0 e add cmul sub opp ceq corner_ops :=
  @Build_BlockAlg T r0 e add cmul sub opp ceq corner_ops
    adj (k_am adj_c) k_adj_mul k_adj_inv k_adj_one
    cdivz k_divz_P k_divz_add k_divz_opp k_divz_spec
    Dg Up Lo (k_am Dg_c) (k_am Up_c) (k_am Lo_c)
    k_blk_split
    (fun x => lift_eq (Dg_Dg x)) (fun x => lift_eq (Up_Up x)) (fun x => lift_eq (Lo_Lo x))
    (fun x => lift_eq (Dg_Up x)) (fun x => lift_eq (Dg_Lo x))
    (fun x => lift_eq (Up_Dg x)) (fun x => lift_eq (Up_Lo x))
    (fun x => lift_eq (Lo_Dg x)) (fun x => lift_eq (Lo_Up x))
    (fun x => lift_eq (Dg_adj x)) (fun x => lift_eq (Up_adj x)) (fun x => lift_eq (Lo_adj x))
    k_Dg_mul_l k_Dg_mul_r k_Dg_one
    Sel (k_am Sel_c)
    (fun x => lift_eq (Sel_idem x)) (fun x => lift_eq (Sel_adj x)) (fun x => lift_eq (Sel_Dg x)) (fun x => lift_eq (Dg_Sel x))
    Rw (k_am Rw_c)
    (fun x => lift_eq (Rw_idem x)) (fun x => lift_eq (Rw_Dg x)) (fun x => lift_eq (Rw_Sel x)) (fun x => lift_eq (Rw_adj_Dg x))
    cord k_ord_P k_ord_O k_ord_S k_ord_zero k_ord_add k_ord_opp k_ord_mul k_ord_sep k_ord_adj k_ord_divz
    k_ord_Dg k_ord_Up k_ord_Lo k_ord_Sel k_ord_Rw
    Zc (k_am Zc_c) k_Zc_mul k_Zc_one
    (fun x => lift_eq (Zc_idem x)) k_Zc_ord
    (fun x => lift_eq (Zc_adj x)) (fun x => lift_eq (Zc_Dg x)) (fun x => lift_eq (Zc_Up x)) (fun x => lift_eq (Zc_Lo x)) (fun x => lift_eq (Zc_Sel x))
    chsum k_hsum_P k_hsum_Dg k_hsum_spec.

End Corner.
