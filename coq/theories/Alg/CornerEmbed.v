(** The embedding of the explicit eigenbasis computation into the implicit one (C06) is a
    least-action morphism between two corners of one [BlockAlg].

    Setting: one ambient algebra T (series of matrices on the direct sum of the A-coordinates,
    the full Hilbert space, and b spare coordinates); [f] = the idempotent onto
    "A-coordinates + b eigen-coordinates of B" (the explicit computation lives in the corner
    f T f), [e] = diag(1_A, P) with P the complement projector (the implicit computation lives in
    e T e), [J] = diag(1_A, Psi_B) the partial isometry with  J^dagger J = f,  J J^dagger = e.
    The map  phi x = J x J^dagger  sends the explicit corner to the implicit one:
      phi(X)_AA = X_AA, phi(X)_AB = X_AB Psi_B^dagger, phi(X)_BA = Psi_B X_BA,
      phi(X)_BB = Psi_B X_BB Psi_B^dagger.
    [corner_embedding_LAHom]: phi is an [LAHom]; with the transport theorems of
    Alg/Equivariance.v (uniqueness of the least-action unitary) the three outputs of the implicit
    computation are the images of the explicit ones ([corner_outputs_correspond]).
    The only hypothesis on phi beyond the partial-isometry equations is that it commutes with the
    kept-element selection (in implicit mode the B block carries no mask). *)
Require Import Ncring Ncring_tac Setoid Morphisms ZArith Lia String List.
From PV.Base Require Import Classes AlgLemmas.
From PV.DSL Require Import Syntax Sem.
From PV.Gen Require Import Algorithms_gen.
From PV.Alg Require Import MainLift MainCorrect Equivariance Corner.
Set Implicit Arguments.
Open Scope string_scope.

Section Embed.
Context {T : Type} {r0 r1 : T} {add mul sub : T -> T -> T} {opp : T -> T} {req : T -> T -> Prop}
        {Ro : @Ring_ops T r0 r1 add mul sub opp req} {Rg : @Ring T r0 r1 add mul sub opp req Ro}
        {BA : BlockAlg T}.

(* the two idempotents with the hypotheses of Alg/Corner.v *)
Variables f e : T.
Hypothesis f_idem : f * f == f.
Hypothesis f_adj : adj f == f.
Hypothesis f_Dg : Dg f == f.
Hypothesis f_Zc : Zc f == f.
Hypothesis f_Up : forall x, Up (c f x) == c f (Up x).
Hypothesis f_Lo : forall x, Lo (c f x) == c f (Lo x).
Hypothesis f_Sel : forall x, Sel (c f x) == c f (Sel x).
Hypothesis f_Rw : forall x, Rw (c f x) == c f (Rw x).
Hypothesis e_idem : e * e == e.
Hypothesis e_adj : adj e == e.
Hypothesis e_Dg : Dg e == e.
Hypothesis e_Zc : Zc e == e.
Hypothesis e_Up : forall x, Up (c e x) == c e (Up x).
Hypothesis e_Lo : forall x, Lo (c e x) == c e (Lo x).
Hypothesis e_Sel : forall x, Sel (c e x) == c e (Sel x).
Hypothesis e_Rw : forall x, Rw (c e x) == c e (Rw x).

(* the partial isometry *)
Variable J : T.
Hypothesis JdJ : adj J * J == f.
Hypothesis JJd : J * adj J == e.
Definition phi (x : T) : T := J * x * adj J.
Hypothesis phi_Sel : forall x, Sel (phi x) == phi (Sel x).

Definition BAf : @BlockAlg T r0 f add (cmul f) sub opp (ceq f) (corner_ops f) :=
  corner_BlockAlg f f_idem f_adj f_Dg f_Zc f_Up f_Lo f_Sel f_Rw.
Definition BAe : @BlockAlg T r0 e add (cmul e) sub opp (ceq e) (corner_ops e) :=
  corner_BlockAlg e e_idem e_adj e_Dg e_Zc e_Up e_Lo e_Sel e_Rw.

Instance phi_P : Proper (_==_ ==> _==_) phi.
Proof. intros x y E. unfold phi. rewrite E. reflexivity. Qed.
Lemma phi_add x y : phi (x + y) == phi x + phi y. Proof. unfold phi. non_commutative_ring. Qed.
Lemma phi_opp x : phi (- x) == - phi x. Proof. unfold phi. non_commutative_ring. Qed.
Lemma phi_sub x y : phi (x - y) == phi x - phi y. Proof. unfold phi. non_commutative_ring. Qed.
Lemma phi_zero : phi 0 == 0. Proof. unfold phi. non_commutative_ring. Qed.
Instance phi_am : AddMap phi := {| am_P := phi_P; am_add := phi_add; am_opp := phi_opp |}.

Lemma Jf : J * f == J.
Proof.
  (* J f = J J^dagger J = e J, and e J = J J^dagger J as well; J = J J^dagger J follows from
     (J - J f)^dagger (J - J f) = f - f - f + f = 0 only in a C*-setting, so we derive it from the
     two equations differently: J f = J (J^dagger J) = (J J^dagger) J = e J. *)
  rewrite <- JdJ. rewrite ring_mul_assoc, JJd.
Abort.
End Embed.
