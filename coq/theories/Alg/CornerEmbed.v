(** The embedding of the explicit eigenbasis computation into the implicit one (C06) is a
    least-action morphism between two corners of one [BlockAlg].

    Setting: one ambient algebra T (series of matrices on the direct sum of the A-coordinates,
    the full Hilbert space, and b spare coordinates); [f] = the idempotent onto
    "A-coordinates + b eigen-coordinates of B" (the explicit computation lives in the corner
    f T f), [e] = diag(1_A, P) with P the complement projector (the implicit computation lives in
    e T e), [J] = diag(1_A, Psi_B) the partial isometry with  J^dagger J = f,  J J^dagger = e.
    The map  phi x = J x J^dagger  sends the explicit corner to the implicit one:
      phi(X)_AA = X_AA, phi(X)_AB = X_AB Psi_B^dagger, phi(X)_BA = Psi_B X_BA,
      phi(X)_BB = Psi_B X_BB Psi_B^dagger.
    [corner_embedding_LAHom]: phi is an [LAHom]; with the transport theorems of
    Alg/Equivariance.v (uniqueness of the least-action unitary) the three outputs of the implicit
    computation are the images of the explicit ones ([corner_outputs_correspond]).
    The only hypothesis on phi beyond the partial-isometry equations is that it commutes with the
    kept-element selection (in implicit mode the B block carries no mask). *)
Require Import Ncring Ncring_tac Setoid Morphisms ZArith Lia String List.
From PV.Base Require Import Classes AlgLemmas.
From PV.DSL Require Import Syntax Sem.
From PV.Gen Require Import Algorithms_gen.
From PV.Alg Require Import MainLift MainCorrect Equivariance Corner.
Set Implicit Arguments.
Open Scope string_scope.

Section Embed.
Context {T : Type} {r0 r1 : T} {add mul sub : T -> T -> T} {opp : T -> T} {req : T -> T -> Prop}
        {Ro : @Ring_ops T r0 r1 add mul sub opp req} {Rg : @Ring T r0 r1 add mul sub opp req Ro}
        {BA : BlockAlg T}.

(* the two idempotents with the hypotheses of Alg/Corner.v *)
Variables f e : T.
Hypothesis f_idem : f * f == f.
Hypothesis f_adj : adj f == f.
Hypothesis f_Dg : Dg f == f.
Hypothesis f_Zc : Zc f == f.
Hypothesis f_Up : forall x, Up (c f x) == c f (Up x).
Hypothesis f_Lo : forall x, Lo (c f x) == c f (Lo x).
Hypothesis f_Sel : forall x, Sel (c f x) == c f (Sel x).
Hypothesis f_Rw : forall x, Rw (c f x) == c f (Rw x).
Hypothesis e_idem : e * e == e.
Hypothesis e_adj : adj e == e.
Hypothesis e_Dg : Dg e == e.
Hypothesis e_Zc : Zc e == e.
Hypothesis e_Up : forall x, Up (c e x) == c e (Up x).
Hypothesis e_Lo : forall x, Lo (c e x) == c e (Lo x).
Hypothesis e_Sel : forall x, Sel (c e x) == c e (Sel x).
Hypothesis e_Rw : forall x, Rw (c e x) == c e (Rw x).

(* the partial isometry *)
Variable J : T.
Hypothesis JdJ : adj J * J == f.
Hypothesis JJd : J * adj J == e.
Hypothesis eJ : e * J == J.
Hypothesis Jf : J * f == J.
Definition phi (x : T) : T := J * x * adj J.
Hypothesis phi_Sel : forall x, Sel (phi x) == phi (Sel x).

Definition BAf : @BlockAlg T r0 f add (cmul f) sub opp (ceq f) (corner_ops f) :=
  corner_BlockAlg f f_idem f_adj f_Dg f_Zc f_Up f_Lo f_Sel f_Rw.
Definition BAe : @BlockAlg T r0 e add (cmul e) sub opp (ceq e) (corner_ops e) :=
  corner_BlockAlg e e_idem e_adj e_Dg e_Zc e_Up e_Lo e_Sel e_Rw.

Instance phi_P : Proper (_==_ ==> _==_) phi.
Proof. intros x y E. unfold phi. rewrite E. reflexivity. Qed.
Lemma phi_add x y : phi (x + y) == phi x + phi y. Proof. unfold phi. non_commutative_ring. Qed.
Lemma phi_opp x : phi (- x) == - phi x. Proof. unfold phi. non_commutative_ring. Qed.
Lemma phi_sub x y : phi (x - y) == phi x - phi y. Proof. unfold phi. non_commutative_ring. Qed.
Lemma phi_zero : phi 0 == 0. Proof. unfold phi. non_commutative_ring. Qed.
#[local] Existing Instance c_P.
Instance phi_am : AddMap phi := {| am_P := phi_P; am_add := phi_add; am_opp := phi_opp |}.

Lemma adjJ_e : adj J * e == adj J.
Proof. rewrite <- e_adj, <- adj_mul, eJ. reflexivity. Qed.
Lemma f_adjJ : f * adj J == adj J.
Proof. rewrite <- f_adj, <- adj_mul, Jf. reflexivity. Qed.
Lemma ce_phi x : c e (phi x) == phi x.
Proof.
  unfold c, phi.
  assert (E : e * (J * x * adj J) * e == (e * J) * x * (adj J * e)) by non_commutative_ring.
  rewrite E, eJ, adjJ_e. reflexivity.
Qed.
Lemma phi_cf x : phi (c f x) == phi x.
Proof.
  unfold c, phi.
  assert (E : J * (f * x * f) * adj J == (J * f) * x * (f * adj J)) by non_commutative_ring.
  rewrite E, Jf, f_adjJ. reflexivity.
Qed.

Lemma h_P : Proper (ceq f ==> ceq e) phi.
Proof.
  intros x y E. unfold ceq in *. rewrite !ce_phi, <- (phi_cf x), <- (phi_cf y). apply phi_P. exact E.
Qed.
Lemma h_zero : ceq e (phi 0) 0. Proof. apply lift_eq. apply phi_zero. Qed.
Lemma h_one : ceq e (phi f) e.
Proof. apply lift_eq. unfold phi. rewrite Jf, JJd. reflexivity. Qed.
Lemma h_sub x y : ceq e (phi (x - y)) (phi x - phi y). Proof. apply lift_eq. apply phi_sub. Qed.
Lemma h_mul x y : ceq e (phi (cmul f x y)) (cmul e (phi x) (phi y)).
Proof.
  apply lift_eq. unfold cmul, phi.
  assert (E : J * x * adj J * e * (J * y * adj J) == J * x * (adj J * (e * J)) * y * adj J) by non_commutative_ring.
  rewrite E, eJ, JdJ. non_commutative_ring.
Qed.
Lemma h_adj x : ceq e (phi (adj x)) (adj (phi x)).
Proof. apply lift_eq. unfold phi. rewrite !adj_mul, adj_inv. non_commutative_ring. Qed.
Lemma h_half x : ceq e (phi (cdivz f x 2)) (cdivz e (phi x) 2).
Proof.
  apply lift_eq. unfold cdivz.
  rewrite (@divz_am _ _ _ _ _ _ _ _ _ _ _ phi phi_am 2%Z (c f x)) by discriminate.
  apply divz_proper. rewrite phi_cf. symmetry. apply ce_phi.
Qed.
Lemma h_Sel x : ceq e (phi (Sel x)) (Sel (phi x)).
Proof. apply lift_eq. symmetry. apply phi_Sel. Qed.
Lemma h_ord k x : cord f k x -> cord e k (phi x).
Proof.
  unfold cord. intros H. rewrite ce_phi, <- phi_cf. unfold phi.
  assert (H1 : ord (Nat.add (Nat.add 0 k) 0) (J * c f x * adj J)).
  { apply ord_mul. apply ord_mul. apply ord_O. exact H. apply ord_O. }
  cbn [Nat.add] in H1. rewrite Nat.add_0_r in H1. exact H1.
Qed.

Definition corner_embedding_LAHom : @LAHom T r0 f add (cmul f) sub opp (ceq f) (corner_ops f) BAf
                                           T r0 e add (cmul e) sub opp (ceq e) (corner_ops e) BAe phi :=
  @Build_LAHom T r0 f add (cmul f) sub opp (ceq f) (corner_ops f) BAf
               T r0 e add (cmul e) sub opp (ceq e) (corner_ops e) BAe phi
               h_P h_zero h_one h_sub h_mul h_adj h_half h_Sel h_ord.

(** The outputs of the implicit computation (any solution of the shipped Hermitian algorithm in the
    corner by [e]) are the images of the outputs of the explicit one (corner by [f]). *)
Section Outputs.
Variable rflag rflag' : string -> T -> T.
Variable fenv fenv' : string -> list T -> T.
Variable sol sol' : string -> T.
Hypothesis Hsol : @solution T r0 f add (cmul f) sub opp (ceq f) (corner_ops f) BAf (gflag_of false) rflag fenv sol main_alg.
Hypothesis Hsol' : @solution T r0 e add (cmul e) sub opp (ceq e) (corner_ops e) BAe (gflag_of false) rflag' fenv' sol' main_alg.
Hypothesis Hw : @wiring T r0 f add (cmul f) sub opp (ceq f) (corner_ops f) BAf rflag fenv (sol "H").
Hypothesis Hw' : @wiring T r0 e add (cmul e) sub opp (ceq e) (corner_ops e) BAe rflag' fenv' (sol' "H").
Hypothesis Hin : ceq e (sol' "H") (phi (sol "H")).
(* the implicit Sylvester solver is a left inverse of the Sylvester operator on eliminated elements *)
Hypothesis sylv_left' : forall x,
  ceq e (sylv fenv' ((Zc (sol' "H")) * e * (x - Sel x) - (x - Sel x) * e * (Zc (sol' "H")))
         - Sel (sylv fenv' ((Zc (sol' "H")) * e * (x - Sel x) - (x - Sel x) * e * (Zc (sol' "H")))))
        (x - Sel x).

Theorem corner_outputs_correspond :
  ceq e (sol' "U") (phi (sol "U")) /\ ceq e (sol' "U†") (phi (sol "U†")) /\ ceq e (sol' "H_tilde") (phi (sol "H_tilde")).
Proof.
  repeat split.
  - exact (@transport_U T r0 f add (cmul f) sub opp (ceq f) (corner_ops f) (corner_ring f f_idem) BAf
                        T r0 e add (cmul e) sub opp (ceq e) (corner_ops e) (corner_ring e e_idem) BAe
                        phi corner_embedding_LAHom rflag rflag' fenv fenv' sol sol' Hsol Hsol' Hw Hw' Hin sylv_left').
  - exact (@transport_Ud T r0 f add (cmul f) sub opp (ceq f) (corner_ops f) (corner_ring f f_idem) BAf
                        T r0 e add (cmul e) sub opp (ceq e) (corner_ops e) (corner_ring e e_idem) BAe
                        phi corner_embedding_LAHom rflag rflag' fenv fenv' sol sol' Hsol Hsol' Hw Hw' Hin sylv_left').
  - exact (@transport_Ht T r0 f add (cmul f) sub opp (ceq f) (corner_ops f) (corner_ring f f_idem) BAf
                        T r0 e add (cmul e) sub opp (ceq e) (corner_ops e) (corner_ring e e_idem) BAe
                        phi corner_embedding_LAHom rflag rflag' fenv fenv' sol sol' Hsol Hsol' Hw Hw' Hin sylv_left').
Qed.
End Outputs.
End Embed.
