(** Least-action uniqueness: a unitary that eliminates the selected part of H and whose
    anti-Hermitian part has no kept element is unique (given that the Sylvester operator
    x |-> [H0, x] is injective on eliminated elements, witnessed by a left inverse). *)
Require Import Ncring Ncring_tac Setoid Morphisms ZArith.
From PV.Base Require Import Classes AlgLemmas.
Set Implicit Arguments.

Section Unique.
Context {T : Type} `{Rg : Ring T} {BA : BlockAlg T}.
Variable H : T.
Let H0 := Zc H.
Hypothesis S_adH0 : forall x, Sel (comm H0 x) == comm H0 (Sel x).
Variable sylv : T -> T.
Context {sylv_P : Proper (_==_ ==> _==_) sylv}.
Hypothesis sylv_ord : forall k y, ord k y -> ord k (sylv y).
Hypothesis sylv_left : forall x, Rp (sylv (comm H0 (Rp x))) == Rp x.

Definition least_action (U : T) : Prop :=
  ord 1 (U - 1) /\ adj U * U == 1 /\ Rp (adj U * H * U) == 0
  /\ Sel (half ((U - 1) - adj (U - 1))) == 0.

Variables U1 U2 : T.
Hypothesis L1 : least_action U1.
Hypothesis L2 : least_action U2.

Let A := U1 - 1.  Let B := U2 - 1.  Let D := A - B.
Let H' := Pos H.

Lemma oA : ord 1 A. Proof. destruct L1 as [h _]. exact h. Qed.
Lemma oB : ord 1 B. Proof. destruct L2 as [h _]. exact h. Qed.
Lemma oH' : ord 1 H'. Proof. apply ord1_Pos. Qed.
Lemma U1_A : U1 == 1 + A. Proof. unfold A. non_commutative_ring. Qed.
Lemma U2_B : U2 == 1 + B. Proof. unfold B. non_commutative_ring. Qed.
Lemma H_split : H == H0 + H'. Proof. unfold H', Pos, H0. non_commutative_ring. Qed.

Lemma unit_A : adj A + A + adj A * A == 0.
Proof. destruct L1 as (_ & h & _). rewrite U1_A, adj_add, adj_one in h.
  assert (E : adj A + A + adj A * A == (1 + adj A) * (1 + A) - 1) by non_commutative_ring.
  rewrite E, h. non_commutative_ring. Qed.
Lemma unit_B : adj B + B + adj B * B == 0.
Proof. destruct L2 as (_ & h & _). rewrite U2_B, adj_add, adj_one in h.
  assert (E : adj B + B + adj B * B == (1 + adj B) * (1 + B) - 1) by non_commutative_ring.
  rewrite E, h. non_commutative_ring. Qed.

Lemma diff_id (h h0 h' aA aB a b : T) : h == h0 + h' ->
  (h + aA * h + h * a + aA * h * a) - (h + aB * h + h * b + aB * h * b)
  == comm h0 (a - b) + ((aA - aB) * h' + h' * (a - b) + aA * h * (a - b) + (aA - aB) * h * b
                        + ((a - b) + (aA - aB)) * h0).
Proof.
  intros E.
  assert (E1 : (h + aA * h + h * a + aA * h * a) - (h + aB * h + h * b + aB * h * b)
               == ((aA - aB) * h + h * (a - b)) + (aA * h * (a - b) + (aA - aB) * h * b)) by non_commutative_ring.
  assert (E2 : (aA - aB) * h + h * (a - b) == (aA - aB) * (h0 + h') + (h0 + h') * (a - b)) by (rewrite E; reflexivity).
  rewrite E1, E2. unfold comm. non_commutative_ring.
Qed.

Section Step.
Variable k : nat.
Hypothesis HD : ord k D.

Lemma step_herm : ord (S k) (D + adj D).
Proof.
  assert (E : D + adj D == - (adj A * D + adj D * B)).
  { assert (E0 : D + adj D + (adj A * D + adj D * B) == (adj A + A + adj A * A) - (adj B + B + adj B * B)).
    { unfold D. rewrite adj_sub. non_commutative_ring. }
    rewrite unit_A, unit_B in E0.
    assert (E1 : D + adj D == (D + adj D + (adj A * D + adj D * B)) - (adj A * D + adj D * B)) by non_commutative_ring.
    rewrite E1, E0. non_commutative_ring. }
  rewrite E. apply ord_opp, ord_add.
  apply ord_mul_l. apply ord_adj, oA. exact HD.
  apply ord_mul_r. apply ord_adj, HD. apply oB.
Qed.

Lemma elim_A : Rp (H + adj A * H + H * A + adj A * H * A) == 0.
Proof. destruct L1 as (_ & _ & h & _). rewrite U1_A, adj_add, adj_one in h.
  assert (E : H + adj A * H + H * A + adj A * H * A == (1 + adj A) * H * (1 + A)) by non_commutative_ring.
  rewrite E. exact h. Qed.
Lemma elim_B : Rp (H + adj B * H + H * B + adj B * H * B) == 0.
Proof. destruct L2 as (_ & _ & h & _). rewrite U2_B, adj_add, adj_one in h.
  assert (E : H + adj B * H + H * B + adj B * H * B == (1 + adj B) * H * (1 + B)) by non_commutative_ring.
  rewrite E. exact h. Qed.

Lemma step_comm : ord (S k) (Rp (comm H0 D)).
Proof.
  (* difference of the two elimination conditions *)
  assert (E0 : Rp ((H + adj A * H + H * A + adj A * H * A) - (H + adj B * H + H * B + adj B * H * B)) == 0).
  { rewrite Rp_sub, elim_A, elim_B. non_commutative_ring. }
  set (rest := adj D * H' + H' * D + adj A * H * D + adj D * H * B + (D + adj D) * H0).
  assert (E1 : (H + adj A * H + H * A + adj A * H * A) - (H + adj B * H + H * B + adj B * H * B)
               == comm H0 D + rest).
  { unfold rest, D. rewrite adj_sub. apply diff_id. apply H_split. }
  rewrite E1, Rp_add in E0.
  assert (E2 : Rp (comm H0 D) == - Rp rest).
  { assert (E3 : Rp (comm H0 D) == (Rp (comm H0 D) + Rp rest) - Rp rest) by non_commutative_ring.
    rewrite E3, E0. non_commutative_ring. }
  rewrite E2. apply ord_opp, ord_Rp. unfold rest.
  apply ord_add. apply ord_add. apply ord_add. apply ord_add.
  - apply ord_mul_r. apply ord_adj, HD. apply oH'.
  - apply ord_mul_l. apply oH'. exact HD.
  - assert (E : adj A * H * D == adj A * (H * D)) by non_commutative_ring. rewrite E.
    apply ord_mul_l. apply ord_adj, oA.
    replace k with (Nat.add O k) by reflexivity. apply ord_mul. apply ord_O. exact HD.
  - apply ord_mul_r. 2: apply oB.
    replace k with (Nat.add k O) by (symmetry; apply plus_n_O). apply ord_mul. apply ord_adj, HD. apply ord_O.
  - replace (S k) with (Nat.add (S k) O) by (symmetry; apply plus_n_O). apply ord_mul. apply step_herm. apply ord_O.
Qed.

Lemma Rp_adH0 x : Rp (comm H0 x) == comm H0 (Rp x).
Proof. unfold Rp. rewrite S_adH0. unfold comm. non_commutative_ring. Qed.

Lemma step_Rp : ord (S k) (Rp D).
Proof.
  rewrite <- sylv_left. apply ord_Rp, sylv_ord. rewrite <- Rp_adH0. apply step_comm.
Qed.

Lemma gauge_A : Sel (A - adj A) == 0.
Proof. destruct L1 as (_ & _ & _ & h). fold A in h. rewrite Sel_half in h.
  rewrite <- (half_dbl (Sel (A - adj A))), h. non_commutative_ring. Qed.
Lemma gauge_B : Sel (B - adj B) == 0.
Proof. destruct L2 as (_ & _ & _ & h). fold B in h. rewrite Sel_half in h.
  rewrite <- (half_dbl (Sel (B - adj B))), h. non_commutative_ring. Qed.

Lemma step_Sel : ord (S k) (Sel D).
Proof.
  assert (E0 : Sel (D - adj D) == 0).
  { assert (E : D - adj D == (A - adj A) - (B - adj B)) by (unfold D; rewrite adj_sub; non_commutative_ring).
    rewrite E, Sel_sub, gauge_A, gauge_B. non_commutative_ring. }
  assert (E1 : Sel D == half (Sel (D + adj D))).
  { rewrite <- (half_twice (Sel D)). apply half_P.
    assert (E : Sel D + Sel D == Sel (D + adj D) + Sel (D - adj D)).
    { rewrite <- !Sel_add. apply am_P. non_commutative_ring. }
    rewrite E, E0. non_commutative_ring. }
  rewrite E1. apply ord_half, ord_Sel, step_herm.
Qed.

Lemma step : ord (S k) D.
Proof. rewrite (split_SR D). apply ord_add. apply step_Sel. apply step_Rp. Qed.
End Step.

Theorem least_action_unique : U1 == U2.
Proof.
  assert (E : D == 0) by (apply ord_eq_zero; exact step).
  assert (E' : U1 == D + U2) by (unfold D, A, B; non_commutative_ring).
  rewrite E', E. non_commutative_ring.
Qed.

End Unique.
