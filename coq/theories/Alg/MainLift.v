(** From the meaning of the GENERATED program [main_alg] (DSL/Sem.v applied to
    Gen/Algorithms_gen.v) to the symmetric equations consumed by Alg/MainAlgebra.v.

    The equations are obtained by computation on the generated term ([sem_unfold]), so an
    edit of algorithms.py changes what the lemmas below have to prove.

    Wiring hypotheses (what block_diagonalize puts in the scope, Front/Wiring):
    - [rflag "commuting_blocks"] is the row projector [Rw];
    - [comm_sound]: on rows flagged commuting, kept x eliminated products have no kept part;
    - the solver [fenv "solve_sylvester"] solves the Sylvester equation on the eliminated
      part, acts order by order, and maps adjoints to minus adjoints (real energies);
    - the input is Hermitian and its order-zero coefficient is kept ([Sel H0 == H0]) and
      [Sel] commutes with [H0, .].
    This file treats the general wiring ([two_block_optimized = False]); the two-block
    optimisation is in Alg/MainLiftTB.v. *)
Require Import Ncring Ncring_tac Setoid Morphisms ZArith String List.
From PV.Base Require Import Classes AlgLemmas.
From PV.DSL Require Import Syntax Sem.
From PV.Gen Require Import Algorithms_gen.
From PV.Alg Require Import MainAlgebra.
Import ListNotations.
Open Scope string_scope.

Definition gflag_of (tb : bool) (n : string) : bool :=
  if String.eqb n "two_block_optimized" then tb else false.

Ltac sem_unfold H :=
  cbv [sdef_holds pdef_holds with_start body_den split_marker lines_den den line_den
       product_den prod_den pfactors pherm List.map sname sstart sbody pname gflag_of
       String.eqb Ascii.eqb Bool.eqb String.concat String.append] in H.

Section Common.
Context {T : Type} `{Rg : Ring T} {BA : BlockAlg T}.
Variable tb : bool.
Variable rflag : string -> T -> T.
Variable fenv : string -> list T -> T.
Variable sol : string -> T.
Hypothesis Hsol : solution (gflag_of tb) rflag fenv sol main_alg.

Definition sylv (y : T) : T := fenv "solve_sylvester" [y].

Let H := sol "H".   Let Hd := sol "H'_diag".   Let Ho := sol "H'_offdiag".
Let V := sol "V".   Let W := sol "W".   Let Y := sol "Yadj".
Let U' := sol "U'". Let Ud' := sol "U'†". Let X := sol "X". Let B := sol "B".
Let P := sol "U'† @ U'". Let A := sol "H'_offdiag @ U'". Let UdB := sol "U'† @ B".
Let VH := sol "V @ H'_diag".

Lemma add0r (x : T) : x + 0 == x. Proof. non_commutative_ring. Qed.

Ltac getS name H := pose proof (solution_series Hsol name eq_refl) as H; sem_unfold H;
  rewrite ?Lo_zero, ?ring_add_0_l, ?add0r in H.
Ltac getP name H := pose proof (solution_product Hsol name eq_refl) as H; sem_unfold H.

Lemma eHd : Hd == Pos (Sel H).
Proof. getS "H'_diag" E. exact E. Qed.
Lemma eHo : Ho == Pos (Rp H).
Proof. getS "H'_offdiag" E. exact E. Qed.
Lemma Hd_alt : Hd == Sel (Pos H).
Proof. rewrite eHd. unfold Pos. rewrite Sel_sub, Zc_Sel. reflexivity. Qed.
Lemma Ho_alt : Ho == Rp (Pos H).
Proof. rewrite eHo. unfold Pos, Rp. rewrite Sel_sub, !Zc_sub, Zc_Sel. non_commutative_ring. Qed.
Lemma H_split : H == Zc H + Hd + Ho.
Proof. rewrite Hd_alt, Ho_alt. unfold Rp, Pos. non_commutative_ring. Qed.
Lemma oHd : ord 1 Hd. Proof. rewrite eHd. apply ord1_Pos. Qed.
Lemma oHo : ord 1 Ho. Proof. rewrite eHo. apply ord1_Pos. Qed.
Lemma Hd_S : Sel Hd == Hd. Proof. rewrite Hd_alt. apply Sel_idem. Qed.
Lemma Ho_S : Sel Ho == 0. Proof. rewrite Ho_alt. apply Sel_Rp. Qed.

Hypothesis H_herm : adj H == H.
Lemma Pos_adj x : adj (Pos x) == Pos (adj x).
Proof. unfold Pos. rewrite adj_sub, Zc_adj. reflexivity. Qed.
Lemma Hd_h : adj Hd == Hd.
Proof. rewrite Hd_alt, <- Sel_adj, Pos_adj, H_herm. reflexivity. Qed.
Lemma Ho_h : adj Ho == Ho.
Proof. rewrite Ho_alt, <- Rp_adj, Pos_adj, H_herm. reflexivity. Qed.
Lemma H0_h : adj (Zc H) == Zc H.
Proof. rewrite <- Zc_adj, H_herm. reflexivity. Qed.

(* orders *)
Lemma oV : ord 1 V. Proof. getS "V" E. fold V in E. rewrite E. apply ord1_Pos. Qed.
Lemma oW : ord 1 W. Proof. getS "W" E. fold W in E. rewrite E. apply ord1_Pos. Qed.
Lemma oY : ord 1 Y. Proof. getS "Yadj" E. fold Y in E. rewrite E. apply ord1_Pos. Qed.
Lemma oX : ord 1 X. Proof. getS "X" E. fold X in E. rewrite E. apply ord1_Pos. Qed.
Lemma oB : ord 1 B. Proof. getS "B" E. fold B in E. rewrite E. apply ord1_Pos. Qed.

Lemma eU' : U' == W + V.
Proof. getS "U'" E. fold U' W V in E. rewrite E. apply Pos_of_ord1. apply ord_add. apply oW. apply oV. Qed.
Lemma eUd' : Ud' == W - V.
Proof. getS "U'†" E. exact E. Qed.
Lemma oU' : ord 1 U'. Proof. rewrite eU'. apply ord_add. apply oW. apply oV. Qed.
Lemma oUd' : ord 1 Ud'. Proof. rewrite eUd'. apply ord_sub. apply oW. apply oV. Qed.
Lemma eU : sol "U" == 1 + U'.
Proof. getS "U" E. fold U' in E. rewrite E.
  assert (Z0 : Zc U' == 0) by (apply Zc_ord; apply oU').
  rewrite Z0, Dg_zero. non_commutative_ring. Qed.
Lemma eUd : sol "U†" == 1 + Ud'.
Proof. getS "U†" E. fold Ud' in E. rewrite E.
  assert (Z0 : Zc Ud' == 0) by (apply Zc_ord; apply oUd').
  rewrite Z0, Dg_zero. non_commutative_ring. Qed.

(* products *)
Lemma eA : A == Ho * U'. Proof. getP "H'_offdiag @ U'" E. exact E. Qed.
Lemma eUdB : UdB == Ud' * B. Proof. getP "U'† @ B" E. exact E. Qed.
Lemma eVH : VH == V * Hd. Proof. getP "V @ H'_diag" E. exact E. Qed.
Lemma eP : P == hsum Ud' U' + Up (Ud' * U') + adj (Up (Ud' * U')).
Proof. getP "U'† @ U'" E. exact E. Qed.
Lemma oA : ord 1 A. Proof. rewrite eA. apply (ord_le (k:=2)). auto. apply ord_mul_l. apply oHo. apply oU'. Qed.
Lemma oUdB : ord 1 UdB. Proof. rewrite eUdB. apply (ord_le (k:=2)). auto. apply ord_mul_l. apply oUd'. apply oB. Qed.
Lemma oVH : ord 1 VH. Proof. rewrite eVH. apply (ord_le (k:=2)). auto. apply ord_mul_l. apply oV. apply oHd. Qed.

Lemma eX : X == B + Ho + A.
Proof. getS "X" E. fold X B Ho A in E. rewrite E. apply Pos_of_ord1.
  apply ord_add. apply ord_add. apply oB. apply oHo. apply oA. Qed.

(* wiring *)
Hypothesis Hrf : forall x, rflag "commuting_blocks" x == Rw x.
Hypothesis comm_sound_l : forall x y, Rw (Sel (Rp x * Sel y)) == 0.
Hypothesis comm_sound_r : forall x y, Rw (Sel (Sel y * Rp x)) == 0.
Context {sylv_P : Proper (_==_ ==> _==_) sylv}.
Hypothesis sylv_ord : forall k y, ord k y -> ord k (sylv y).
Hypothesis sylv_adj : forall y, sylv (adj y) == - adj (sylv y).

Lemma Rw_zero : Rw 0 == 0. Proof. apply am_zero; apply Rw_am. Qed.
Lemma Rw_Sel_herm x : adj x == x -> adj (Rw (Sel x)) == Rw (Sel x).
Proof. intros E. assert (E1 : Sel x == Dg (Sel x)) by (symmetry; apply Dg_Sel).
  rewrite E1 at 1. rewrite <- Rw_adj_Dg, <- Dg_adj, <- Sel_adj, E, Dg_Sel. reflexivity. Qed.

(* Yadj: the part that does not depend on two_block_optimized *)
Let yy := half (adj X + X).
Lemma yy_herm : adj yy == yy.
Proof. unfold yy. rewrite half_adj, adj_add, adj_inv. apply half_P. non_commutative_ring. Qed.

(* B *)
Lemma eB : B == Sel (- half (UdB - adj UdB + A + adj A)) + (Sel (VH + adj VH) - Rw (Sel (VH + adj VH))) - Rp UdB.
Proof.
  getS "B" E. fold B UdB A VH in E. rewrite E.
  rewrite !Hrf, Rw_zero, ring_add_0_l, divz_m2, Rp_opp.
  rewrite Pos_of_ord1.
  - rewrite Sel_sub, Rw_Sel. non_commutative_ring.
  - apply ord_add. apply ord_Sel, ord_opp, ord_half.
    apply ord_add. apply ord_add. apply ord_sub. apply oUdB. apply ord_adj, oUdB. apply oA. apply ord_adj, oA.
    apply ord_add. apply ord_Sel. apply ord_sub. apply ord_add. apply oVH. apply ord_adj, oVH.
    apply ord_Rw. apply ord_add. apply oVH. apply ord_adj, oVH.
    apply ord_opp, ord_Rp, oUdB.
Qed.

(* H_tilde *)
Lemma eHt : sol "H_tilde" == Zc H + Sel (Hd + half (A + adj A) - half (UdB + adj UdB) - Y).
Proof.
  getS "H_tilde" E. fold H Hd A UdB Y in E. rewrite E. rewrite divz_m2.
  rewrite Pos_of_ord1.
  - apply ring_plus_comp. reflexivity. apply am_P. unfold half. non_commutative_ring.
  - apply ord_Sel. apply ord_sub. apply ord_add. apply ord_add. apply oHd.
    apply ord_divz. apply ord_add. apply oA. apply ord_adj, oA.
    apply ord_opp, ord_half. apply ord_add. apply oUdB. apply ord_adj, oUdB. apply oY.
Qed.

(* ------------------------------------------------------------------------------------ *)
(** * General wiring: two_block_optimized = False *)
Hypothesis tb_false : tb = false.

Ltac getSf name H := pose proof (solution_series Hsol name eq_refl) as H; sem_unfold H;
  rewrite tb_false in H; rewrite ?Lo_zero, ?ring_add_0_l, ?add0r in H.

(* Yadj *)
Lemma Y_general : Y == yy - Rw (Sel yy).
Proof.
  getSf "Yadj" E. fold Y X in E. change (divz (adj X + X) 2) with yy in E.
  rewrite !Hrf, Rw_zero, ring_add_0_l in E.
  set (y := Rp yy + Sel (yy - Rw yy)) in E.
  assert (Ey : y == yy - Rw (Sel yy)).
  { unfold y. rewrite Sel_sub, Rw_Sel. unfold Rp. non_commutative_ring. }
  assert (oy : ord 1 y).
  { rewrite Ey. apply ord_sub. apply ord_half. apply ord_add. apply ord_adj, oX. apply oX.
    apply ord_Rw, ord_Sel, ord_half. apply ord_add. apply ord_adj, oX. apply oX. }
  rewrite Pos_of_ord1 in E.
  2:{ apply ord_add. apply ord_add. apply ord_Dg, oy. apply ord_Up, oy. apply ord_adj, ord_Up, oY. }
  apply tri_herm in E. rewrite E, <- Ey. apply full_of_herm.
  rewrite Ey, adj_sub, yy_herm, (Rw_Sel_herm _ yy_herm). reflexivity.
Qed.
Lemma Y_herm : adj Y == Y.
Proof. rewrite Y_general, adj_sub, yy_herm, (Rw_Sel_herm _ yy_herm). reflexivity. Qed.

(* V *)
Let arg := Y - VH - adj VH.
Lemma arg_herm : adj arg == arg.
Proof. unfold arg. rewrite !adj_sub, adj_inv, Y_herm. non_commutative_ring. Qed.
Lemma V_general : V == - Rp (sylv arg).
Proof.
  getS "V" E. fold V Y VH in E.
  change (fenv "solve_sylvester" [adj Y - VH - adj VH]) with (sylv (adj Y - VH - adj VH)) in E.
  assert (Ea : adj Y - VH - adj VH == arg) by (unfold arg; rewrite Y_herm; reflexivity).
  rewrite Ea in E.
  set (b := Rp (- sylv arg)) in E.
  assert (oa : ord 1 arg).
  { unfold arg. apply ord_sub. apply ord_sub. apply oY. apply oVH. apply ord_adj, oVH. }
  assert (ob : ord 1 b) by (unfold b; apply ord_Rp, ord_opp, sylv_ord, oa).
  rewrite Pos_of_ord1 in E.
  2:{ apply ord_add. apply ord_add. apply ord_Dg, ob. apply ord_Up, ob. apply ord_opp, ord_adj, ord_Up, oV. }
  apply tri_antiherm in E. rewrite E.
  assert (Eb : adj b == - b).
  { unfold b. rewrite <- Rp_adj, adj_opp.
    assert (Es : adj (sylv arg) == - sylv arg).
    { rewrite <- arg_herm at 2. rewrite sylv_adj. non_commutative_ring. }
    rewrite Es, !Rp_opp. reflexivity. }
  rewrite (full_of_antiherm _ Eb). unfold b. apply Rp_opp.
Qed.
Lemma V_anti : adj V == - V.
Proof.
  rewrite V_general, adj_opp, <- Rp_adj.
  assert (Es : adj (sylv arg) == - sylv arg).
  { rewrite <- arg_herm at 2. rewrite sylv_adj. non_commutative_ring. }
  rewrite Es, Rp_opp. reflexivity.
Qed.

(* W and the Hermitian-declared product *)
Let F := Ud' * U'.
Let hs := hsum Ud' U'.
Lemma Dg_hs : Dg hs == hs. Proof. apply hsum_Dg. Qed.
Lemma Up_hs : Up hs == 0. Proof. rewrite <- Dg_hs. apply Up_Dg. Qed.
Lemma Lo_hs : Lo hs == 0. Proof. rewrite <- Dg_hs. apply Lo_Dg. Qed.
Lemma eP' : P == hs + Up F + adj (Up F). Proof. exact eP. Qed.
Lemma DgP : Dg P == hs.
Proof. rewrite eP'. rewrite !am_add, Dg_hs, Dg_Up, Dg_adj, Dg_Up, adj_zero. non_commutative_ring. Qed.
Lemma UpP : Up P == Up F.
Proof. rewrite eP'. rewrite !am_add, Up_hs, Up_Up, adj_Up, Up_Lo. non_commutative_ring. Qed.
Lemma oF : ord 1 F. Proof. unfold F. apply (ord_le (k:=2)). auto. apply ord_mul_l. apply oUd'. apply oU'. Qed.
Lemma oP : ord 1 P.
Proof. rewrite (blk_split P), DgP, UpP.
  assert (EL : Lo P == adj (Up F)).
  { rewrite eP'. rewrite !am_add, Lo_hs, Lo_Up, adj_Up, Lo_Lo. non_commutative_ring. }
  rewrite EL. apply ord_add. apply ord_add.
  - assert (E : hs == (hs - Dg F) + Dg F) by non_commutative_ring. rewrite E. apply ord_add.
    + apply hsum_spec. apply oUd'. apply oU'. apply ord_O.
    + apply ord_Dg, oF.
  - apply ord_Up, oF.
  - apply ord_adj, ord_Up, oF.
Qed.
Lemma W_form : W == - (half hs + half (Up F) + adj (half (Up F))).
Proof.
  getSf "W" E. fold W P in E.
  assert (Ew : Sel (divz P (-2)) + Rp (divz P (-2)) == - half P).
  { rewrite divz_m2. unfold Rp. non_commutative_ring. }
  rewrite Ew in E.
  rewrite Pos_of_ord1 in E.
  2:{ apply ord_add. apply ord_add. apply ord_Dg, ord_opp, ord_half, oP. apply ord_Up, ord_opp, ord_half, oP.
      apply ord_adj, ord_Up, oW. }
  apply tri_herm in E. rewrite E.
  assert (E1 : Dg (- half P) == - half hs) by (rewrite am_opp, (half_am (f:=Dg)), DgP; reflexivity).
  assert (E2 : Up (- half P) == - half (Up F)) by (rewrite am_opp, (half_am (f:=Up)), UpP; reflexivity).
  rewrite E1, E2, adj_opp. non_commutative_ring.
Qed.

Let EW := adj W - W.
Lemma EW_form : EW == half (hs - adj hs).
Proof.
  unfold EW. rewrite W_form. rewrite adj_opp, !adj_add, adj_inv, half_adj, half_sub. non_commutative_ring.
Qed.
Let dl := U' - adj Ud'.
Lemma dl_EW : dl == - EW.
Proof. unfold dl, EW. rewrite eU', eUd', adj_sub, V_anti. non_commutative_ring. Qed.
Lemma odl : ord 1 dl. Proof. unfold dl. apply ord_sub. apply oU'. apply ord_adj, oUd'. Qed.
Lemma adjF : adj F == F - Ud' * dl + adj dl * U' - adj dl * dl.
Proof.
  unfold F. rewrite adj_mul.
  assert (E1 : adj Ud' == U' - dl) by (unfold dl; non_commutative_ring).
  assert (E2 : adj U' == Ud' + adj dl) by (unfold dl; rewrite adj_sub, adj_inv; non_commutative_ring).
  rewrite E1, E2. non_commutative_ring.
Qed.
Lemma EW_step k : ord k EW -> ord (S k) EW.
Proof.
  intros Hk.
  assert (Hd' : ord k dl) by (rewrite dl_EW; apply ord_opp, Hk).
  assert (H1 : ord (S k) (hs - Dg F)).
  { apply hsum_spec. apply oUd'. apply oU'. exact Hd'. }
  assert (H2 : ord (S k) (adj F - F)).
  { rewrite adjF.
    assert (E : F - Ud' * dl + adj dl * U' - adj dl * dl - F == - (Ud' * dl) + adj dl * U' - adj dl * dl) by non_commutative_ring.
    rewrite E. apply ord_sub. apply ord_add. apply ord_opp. apply ord_mul_l. apply oUd'. exact Hd'.
    apply ord_mul_r. apply ord_adj, Hd'. apply oU'.
    apply ord_mul_l. apply ord_adj, odl. exact Hd'. }
  rewrite EW_form. apply ord_half.
  assert (E : hs - adj hs == (hs - Dg F) - adj (hs - Dg F) - Dg (adj F - F)).
  { rewrite !adj_sub, Dg_sub, Dg_adj. non_commutative_ring. }
  rewrite E. apply ord_sub. apply ord_sub. exact H1. apply ord_adj, H1. apply ord_Dg, H2.
Qed.
Lemma EW_zero : EW == 0.
Proof. apply ord_eq_zero. exact EW_step. Qed.
Lemma W_herm : adj W == W.
Proof. assert (E : adj W == EW + W) by (unfold EW; non_commutative_ring). rewrite E, EW_zero. non_commutative_ring. Qed.
Lemma dl_zero : dl == 0.
Proof. rewrite dl_EW, EW_zero. non_commutative_ring. Qed.
Lemma hs_full : hs == Dg F.
Proof. apply eq_of_ord. intros k. apply (ord_le (k:=S k)). auto.
  apply hsum_spec. apply oUd'. apply oU'. fold dl. rewrite dl_zero. apply ord_zero. Qed.
Lemma F_herm : adj F == F.
Proof. rewrite adjF, dl_zero, adj_zero. non_commutative_ring. Qed.
Lemma P_full : P == F.
Proof. rewrite eP'. rewrite hs_full. apply full_of_herm. exact F_herm. Qed.
Lemma W_general : W == - half ((W - V) * (W + V)).
Proof.
  rewrite W_form at 1. rewrite hs_full, half_adj, <- !half_add, adj_Up, F_herm.
  assert (E : Dg F + Up F + Lo F == F) by (symmetry; apply blk_split).
  rewrite E. unfold F. rewrite eUd', eU'. reflexivity.
Qed.

(* ------------------------------------------------------------------------------------ *)
(** * Assembly: the hypotheses of Alg/MainAlgebra.v hold for every solution *)
Hypothesis H0_S : Sel (Zc H) == Zc H.
Hypothesis S_adH0 : forall x, Sel (comm (Zc H) x) == comm (Zc H) (Sel x).
Hypothesis sylv_spec : forall y, Rp (comm (Zc H) (sylv y)) == Rp y.

Lemma vh_form : VH + adj VH == Rp (- sylv arg) * Sel (Pos H) - Sel (Pos H) * Rp (- sylv arg).
Proof.
  rewrite eVH, adj_mul, Hd_h, V_anti. rewrite <- Hd_alt.
  assert (EV : Rp (- sylv arg) == V) by (rewrite V_general, Rp_opp; reflexivity).
  rewrite EV. non_commutative_ring.
Qed.
Lemma RwS_vh : Rw (Sel (VH + adj VH)) == 0.
Proof.
  rewrite vh_form, Sel_sub, am_sub by apply Rw_am.
  rewrite comm_sound_l, comm_sound_r. non_commutative_ring.
Qed.
Lemma hB' : B == Sel (- half ((W - V) * B - adj ((W - V) * B) + Ho * (W + V) + adj (Ho * (W + V))))
               + Sel (V * Hd + adj (V * Hd)) - Rp ((W - V) * B).
Proof.
  rewrite eB at 1. rewrite RwS_vh. rewrite eUdB, eA, eVH, eUd', eU'. non_commutative_ring.
Qed.
Lemma hX' : X == B + Ho + Ho * (W + V).
Proof. rewrite eX at 1. rewrite eA, eU'. reflexivity. Qed.
Lemma Syy : Sel yy == Sel (VH + adj VH).
Proof. unfold yy. rewrite eVH. eapply SXherm; [exact Ho_S | exact hX' | exact hB']. Qed.
Lemma hY' : Y == half (adj X + X).
Proof. rewrite Y_general, Syy, RwS_vh. fold yy. non_commutative_ring. Qed.
Lemma hV' : V == - Rp (sylv (Y - V * Hd - adj (V * Hd))).
Proof. rewrite V_general at 1. unfold arg. rewrite eVH. reflexivity. Qed.
Ltac facts := first [exact H0_S | exact Hd_S | exact Ho_S | exact H0_h | exact Hd_h | exact Ho_h | exact S_adH0
  | exact sylv_spec | exact oW | exact oV | exact W_herm | exact V_anti | exact W_general | exact hY' | exact hV'
  | exact hX' | exact hB' | exact sylv_P ].
Lemma hHt' : sol "H_tilde" == Zc H + Sel (Hd + half (Ho * (W + V) + adj (Ho * (W + V)))
                                          - half ((W - V) * B + adj ((W - V) * B)) - Y).
Proof. rewrite eHt. rewrite eA, eUdB, eUd', eU'. reflexivity. Qed.

Let Ufull := sol "U".  Let Udfull := sol "U†".  Let Htl := sol "H_tilde".

Theorem main_unitary_l : Udfull * Ufull == 1.
Proof.
  unfold Udfull, Ufull. rewrite eU, eUd, eU', eUd'.
  eapply unitary. exact W_general.
Qed.
Theorem main_unitary_r : Ufull * Udfull == 1.
Proof.
  unfold Udfull, Ufull. rewrite eU, eUd, eU', eUd'.
  eapply unitary_r; facts.
Qed.
Theorem main_adjoint : adj Ufull == Udfull.
Proof.
  unfold Udfull, Ufull. rewrite eU, eUd, eU', eUd'.
  rewrite adj_add, adj_one, adj_add, W_herm, V_anti. non_commutative_ring.
Qed.
Theorem main_kept : Sel (Udfull * H * Ufull) == Htl.
Proof.
  unfold Udfull, Ufull, Htl. rewrite eU, eUd, eU', eUd'. rewrite H_split at 1.
  eapply kept; first [exact hHt' | facts].
Qed.
Theorem main_eliminated : Rp (Udfull * H * Ufull) == 0.
Proof.
  unfold Udfull, Ufull. rewrite eU, eUd, eU', eUd'. rewrite H_split at 1.
  eapply eliminated; facts.
Qed.
Theorem main_Ht_herm : adj Htl == Htl.
Proof.
  rewrite <- main_kept, <- Sel_adj, !adj_mul, H_herm, main_adjoint.
  rewrite <- main_adjoint, adj_inv. apply am_P. non_commutative_ring.
Qed.
(* gauge: the anti-Hermitian part of U - 1 has no kept element *)
Theorem main_gauge : Sel (half ((Ufull - 1) - adj (Ufull - 1))) == 0.
Proof.
  unfold Ufull. rewrite eU, eU'.
  assert (E : 1 + (W + V) - 1 - adj (1 + (W + V) - 1) == V + V).
  { assert (E0 : 1 + (W + V) - 1 == W + V) by non_commutative_ring.
    rewrite E0, adj_add, W_herm, V_anti. non_commutative_ring. }
  rewrite E, half_twice. rewrite hV'. rewrite Sel_opp, Sel_Rp. non_commutative_ring.
Qed.
Theorem main_X_commutator : X == comm (W + V) (Zc H + Hd).
Proof.
  eapply X_is_commutator; facts.
Qed.

End Common.
