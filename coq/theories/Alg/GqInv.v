(** Facts about the total inverse [gq_inv0] of the Gaussian rationals used by the executable reading
    (Alg/SemExec.v): it respects equality, is odd, commutes with conjugation, and inverts every
    non-zero element. *)
Require Import QArith Qfield Lia Lqa.
From PV.Block Require Import QLemmas.
From PV.Alg Require Import SemExec.

Local Open Scope Q_scope.

Lemma norm2_comp a a' b b' : a == a' -> b == b' -> a * a + b * b == a' * a' + b' * b'.
Proof. intros -> ->. reflexivity. Qed.

Lemma Qeq_bool_comp x y : x == y -> Qeq_bool x 0 = Qeq_bool y 0.
Proof.
  intros E. destruct (Qeq_bool x 0) eqn:A, (Qeq_bool y 0) eqn:B; try reflexivity.
  - apply Qeq_bool_iff in A. rewrite E in A. apply Qeq_bool_iff in A. congruence.
  - apply Qeq_bool_iff in B. rewrite <- E in B. apply Qeq_bool_iff in B. congruence.
Qed.

Lemma gq_inv0_comp x y : gq_eq x y -> gq_eq (gq_inv0 x) (gq_inv0 y).
Proof.
  destruct x as [a b], y as [a' b']. intros [E1 E2]. cbn [fst snd] in *. unfold gq_inv0.
  assert (Ed : a * a + b * b == a' * a' + b' * b') by (apply norm2_comp; assumption).
  rewrite (Qeq_bool_comp _ _ Ed).
  destruct (Qeq_bool (a' * a' + b' * b') 0).
  - split; reflexivity.
  - split; cbn [fst snd]; apply Qdiv_comp; try exact Ed; try exact E1. apply Qopp_comp. exact E2.
Qed.

Lemma gq_inv0_opp x : gq_eq (gq_inv0 (gq_opp x)) (gq_opp (gq_inv0 x)).
Proof.
  destruct x as [a b]. unfold gq_opp, gq_inv0. cbn [fst snd].
  assert (Ed : (- a) * (- a) + (- b) * (- b) == a * a + b * b) by ring.
  rewrite (Qeq_bool_comp _ _ Ed).
  destruct (Qeq_bool (a * a + b * b) 0) eqn:Z.
  - split; cbn [fst snd]; ring.
  - split; cbn [fst snd]; rewrite Ed; unfold Qdiv; ring.
Qed.

Lemma gq_inv0_conj x : gq_eq (gq_conj (gq_inv0 x)) (gq_inv0 (gq_conj x)).
Proof.
  destruct x as [a b]. unfold gq_conj, gq_inv0. cbn [fst snd].
  assert (Ed : a * a + (- b) * (- b) == a * a + b * b) by ring.
  rewrite (Qeq_bool_comp _ _ Ed).
  destruct (Qeq_bool (a * a + b * b) 0) eqn:Z.
  - split; cbn [fst snd]; ring.
  - split; cbn [fst snd]; rewrite Ed; unfold Qdiv; ring.
Qed.

Lemma gq_inv0_spec x : ~ gq_eq x gq0 -> gq_eq (gq_mul x (gq_inv0 x)) gq1.
Proof.
  destruct x as [a b]. intros Hn. unfold gq_inv0, gq_mul, gq1.
  destruct (Qeq_bool (a * a + b * b) 0) eqn:Z.
  - exfalso. apply Hn. apply Qeq_bool_iff in Z. unfold gq_eq, gq0. cbn [fst snd].
    split; nra.
  - apply Qeq_bool_neq in Z. split; cbn [fst snd]; field; exact Z.
Qed.
